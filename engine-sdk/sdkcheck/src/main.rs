//! C20 SDK quotes equal what the program executes on the same state.
//! Links the Rust core SDK (`rust-sdk/core`, built against the `ethnum` stand-in) next to the program.
use orca_whirlpools_core as sdk;
use rand::Rng;
use serde_json::json;
use solana_program::pubkey::Pubkey;
use vcheck::checks::hrun::run_histories;
use vcheck::codec::{self, MAX_SQRT_PRICE_X64, MAX_TICK_INDEX, MIN_SQRT_PRICE_X64, MIN_TICK_INDEX};
use vcheck::hist::{ec, ix_brief, HistCfg, Monitor};
use vcheck::monitors::swapmon::{bal, parse_swap};
use vcheck::monitors::swaps_of;
use vcheck::report::*;
use vcheck::rnd;
use vcheck::svm::{quiet_catch, Bank};
use vcheck::world::{array_start, Obs, World, TOKEN22};
use whirlpool::errors::ErrorCode as E;
use whirlpool::math as pm;

// ------------------------------------------------------------------ conversions and amount functions
fn function_level(seed: u64, interior: u64, cases: u64) -> Acc {
    let table: std::sync::Arc<Vec<u128>> = std::sync::Arc::new((MIN_TICK_INDEX..=MAX_TICK_INDEX).map(pm::sqrt_price_from_tick_index).collect());
    run_shards(16, seed, move |sh, s| {
        let mut acc = Acc::default();
        let mut r = rnd::rng(s);
        let n = table.len();
        // (a) tick <-> price over ALL ticks and every boundary
        for i in (n * sh / 16)..(n * (sh + 1) / 16) {
            let t = MIN_TICK_INDEX + i as i32;
            let p = table[i];
            acc.evaluations += 1;
            acc.count("ticks_compared");
            let sp: u128 = sdk::tick_index_to_sqrt_price(t).into();
            if sp != p {
                acc.violation("sdk:tick_to_price", format!("tick_index_to_sqrt_price({t}) = {sp}, program {p}"), json!({"tick": t}));
            }
            for q in [p, p.saturating_sub(1).max(MIN_SQRT_PRICE_X64), (p + 1).min(MAX_SQRT_PRICE_X64)] {
                let st: i32 = sdk::sqrt_price_to_tick_index(q.into()).into();
                let pt = pm::tick_index_from_sqrt_price(&q);
                if st != pt {
                    acc.violation("sdk:price_to_tick", format!("sqrt_price_to_tick_index({q}) = {st}, program {pt}"), json!({"sqrt_price": q.to_string()}));
                }
            }
            if i % 4096 == 0 {
                acc.situation(format!("tick:{}", t >> 14));
            }
        }
        for _ in 0..interior / 16 {
            let q = rnd::sqrt_price(&mut r);
            let st: i32 = sdk::sqrt_price_to_tick_index(q.into()).into();
            let pt = pm::tick_index_from_sqrt_price(&q);
            acc.evaluations += 1;
            if st != pt {
                acc.violation("sdk:price_to_tick", format!("sqrt_price_to_tick_index({q}) = {st}, program {pt}"), json!({"sqrt_price": q.to_string()}));
            }
        }
        // (b) amount deltas, next prices, token amounts for liquidity
        for k in 0..cases / 16 {
            let l = match r.gen_range(0..12) {
                0 => 0,
                1 => u128::MAX,
                2 => 1u128 << 127,
                _ => rnd::log_u128(&mut r, 128),
            };
            let p0 = rnd::sqrt_price(&mut r);
            let p1 = match r.gen_range(0..6) {
                0 => p0,
                1 => p0.saturating_add(1u128 << r.gen_range(0..96)).min(MAX_SQRT_PRICE_X64),
                2 => p0.saturating_sub(1u128 << r.gen_range(0..96)).max(MIN_SQRT_PRICE_X64),
                _ => rnd::sqrt_price(&mut r),
            };
            let up: bool = r.gen();
            acc.evaluations += 1;
            let case = json!({"sqrt_price_0": p0.to_string(), "sqrt_price_1": p1.to_string(), "liquidity": l.to_string(), "round_up": up});
            // token A / token B amount for a price move
            for (name, prog, s) in [
                ("amount_delta_a", pm::get_amount_delta_a(p0, p1, l, up), quiet_catch(|| sdk::try_get_amount_delta_a(p0.into(), p1.into(), l.into(), up)).unwrap_or(Err("panic"))),
                ("amount_delta_b", pm::get_amount_delta_b(p0, p1, l, up), quiet_catch(|| sdk::try_get_amount_delta_b(p0.into(), p1.into(), l.into(), up)).unwrap_or(Err("panic"))),
            ] {
                match (prog, s) {
                    (Ok(a), Ok(b)) => {
                        acc.count("delta_both_ok");
                        if a != b {
                            acc.violation(format!("sdk:{name}:value"), format!("{name}: program {a}, sdk {b}"), case.clone());
                        }
                    }
                    (Ok(a), Err(e)) => acc.violation(format!("sdk:{name}:sdk_fails_where_program_succeeds"), format!("{name}: program {a}, sdk error {e}"), case.clone()),
                    (Err(e), Ok(b)) => {
                        // the program rejects as overflowing: the SDK must report an error too
                        acc.violation(
                            format!("sdk:{name}:no_error_on_program_overflow:{e:?}"),
                            format!("{name}: program rejects with {e:?}, sdk returns {b}"),
                            case.clone(),
                        );
                    }
                    (Err(_), Err(_)) => acc.count("delta_both_err"),
                }
                if k % 64 == 0 {
                    acc.situation(format!("{name}:L{}:up{up}", rnd::bitlen(l) / 16));
                }
            }
            // next price from an amount
            let amount = rnd::hostile_u64(&mut r);
            let input: bool = r.gen();
            let next_cases = if l == 0 {
                vec![]
            } else {
                vec![
                    ("next_price_from_a", pm::get_next_sqrt_price_from_a_round_up(p0, l, amount, input), quiet_catch(|| sdk::try_get_next_sqrt_price_from_a(p0.into(), l.into(), amount, input).map(u128::from)).unwrap_or(Err("panic"))),
                    ("next_price_from_b", pm::get_next_sqrt_price_from_b_round_down(p0, l, amount, input), quiet_catch(|| sdk::try_get_next_sqrt_price_from_b(p0.into(), l.into(), amount, input).map(u128::from)).unwrap_or(Err("panic"))),
                ]
            };
            for (name, prog, s) in next_cases {
                match (prog, s) {
                    (Ok(a), Ok(b)) => {
                        acc.count("next_price_both_ok");
                        if a != b {
                            acc.violation(format!("sdk:{name}:value"), format!("{name}(price {p0}, L {l}, amount {amount}, input {input}): program {a}, sdk {b}"), case.clone());
                        }
                    }
                    // (the SDK bounds-checks the result, the program's helper leaves that to its caller: only
                    //  values are compared; whole swaps are compared below)
                    _ => {}
                }
            }
            // token amounts for liquidity of a range at a price
            let s = *rnd::pick(&mut r, &[1i32, 8, 64, 128]);
            let lo = (rnd::tick(&mut r) / s * s).clamp(MIN_TICK_INDEX / s * s, MAX_TICK_INDEX / s * s - s);
            let hi = (lo + r.gen_range(1..2000) * s).min(MAX_TICK_INDEX / s * s);
            let price = match r.gen_range(0..5) {
                0 => pm::sqrt_price_from_tick_index(lo),
                1 => pm::sqrt_price_from_tick_index(hi),
                _ => rnd::sqrt_price(&mut r),
            };
            let tc = pm::tick_index_from_sqrt_price(&price);
            let pos = whirlpool::state::Position { tick_lower_index: lo, tick_upper_index: hi, ..Default::default() };
            let ll = l.min(i128::MAX as u128).max(1);
            let prog = whirlpool::manager::liquidity_manager::calculate_liquidity_token_deltas(tc, price, &pos, if up { ll as i128 } else { -(ll as i128) });
            let sd = quiet_catch(|| sdk::try_get_token_estimates_from_liquidity(ll, price, lo, hi, up)).unwrap_or(Err("panic"));
            let case2 = json!({"liquidity": ll.to_string(), "sqrt_price": price.to_string(), "lower": lo, "upper": hi, "round_up": up});
            match (prog, sd) {
                (Ok(a), Ok(b)) => {
                    acc.count("estimates_both_ok");
                    if a != b {
                        acc.violation("sdk:token_estimates:value", format!("token amounts for liquidity: program {:?}, sdk {:?}", a, b), case2);
                    }
                }
                (Ok(a), Err(e)) => acc.violation("sdk:token_estimates:sdk_fails_where_program_succeeds", format!("program {:?}, sdk error {e}", a), case2),
                (Err(e), Ok(b)) => acc.violation("sdk:token_estimates:no_error_on_program_overflow", format!("program rejects ({e:?}), sdk returns {:?}", b), case2),
                _ => acc.count("estimates_both_err"),
            }
        }
        // (f) the price bounds the SDK derives for a slippage tolerance (what a client hands to
        //     increase_liquidity_by_token_amounts_v2): on the safe side of the price they were derived from, inside the
        //     supported range, and no narrower for a larger tolerance
        for _ in 0..cases / 400 {
            let p: u128 = match r.gen_range(0..6) {
                0 => MIN_SQRT_PRICE_X64 + r.gen_range(0..1000u128),
                1 => MAX_SQRT_PRICE_X64 - r.gen_range(0..1000u128),
                // (the last entry of the table is the largest supported price: stay inside the range)
                2 => (table[r.gen_range(0..table.len())] + r.gen_range(0..3u128)).min(MAX_SQRT_PRICE_X64),
                _ => rnd::sqrt_price(&mut r),
            };
            let mut prev: Option<(u128, u128)> = None;
            for bps in [0u16, 1, 2, 10, 50, 100, 1000, 5000, 9999, 10000, 20000] {
                let b = sdk::get_sqrt_price_slippage_bounds(p.into(), bps);
                let (lo, hi): (u128, u128) = (b.min_sqrt_price.into(), b.max_sqrt_price.into());
                acc.evaluations += 1;
                acc.count("slippage_price_bounds_checked");
                if lo > p || hi < p || lo < MIN_SQRT_PRICE_X64 || hi > MAX_SQRT_PRICE_X64 {
                    acc.violation("sdk:price_slippage_bounds", format!("get_sqrt_price_slippage_bounds({p}, {bps} bps) = [{lo}, {hi}]: not around the price / outside the supported range"), json!({"sqrt_price": p.to_string(), "bps": bps}));
                }
                if let Some((plo, phi)) = prev {
                    if lo > plo || hi < phi {
                        acc.violation("sdk:price_slippage_bounds_not_monotone", format!("bounds for {bps} bps [{lo}, {hi}] are narrower than for the smaller tolerance [{plo}, {phi}] at price {p}"), json!({"sqrt_price": p.to_string(), "bps": bps}));
                    }
                }
                prev = Some((lo, hi));
            }
        }
        // (e) transfer-fee conversions used by every quote over Token-2022 fee mints: the SDK's apply / reverse-apply
        //     against the program's own calculate_transfer_fee_excluded / included_amount on a real mint account,
        //     all fee rates and caps, amounts up to u64::MAX (incl. the region where amount + fee crosses 2^64)
        for _ in 0..cases / 160 {
            let any_bps: u16 = r.gen_range(0..=10000);
            let bps = *rnd::pick(&mut r, &[0u16, 1, 30, 100, 999, 5000, 9900, 9999, 10000, any_bps]);
            let maxf = match r.gen_range(0..5) {
                0 => 0u64,
                1 => u64::MAX,
                2 => r.gen_range(0..10_000),
                _ => rnd::log_u64(&mut r),
            };
            let mut xs: Vec<u64> = (0..12).map(|_| rnd::hostile_u64(&mut r)).collect();
            // amounts whose fee-included value sits around 2^64
            let top = ((u64::MAX as u128) * (10000 - bps.min(9999)) as u128 / 10000) as u64;
            xs.extend([top, top.saturating_sub(r.gen_range(0..1000)), top.saturating_add(r.gen_range(0..1000)), u64::MAX - maxf.min(u64::MAX / 2), u64::MAX - r.gen_range(0..1u64 << 40)]);
            let prog = vcheck::checks::c16::anchor_fee_amounts(&mut r, (bps, maxf), &xs);
            let tf = sdk::TransferFee { fee_bps: bps, max_fee: maxf };
            for (x, (pe, pi)) in xs.iter().zip(prog) {
                acc.evaluations += 1;
                let case = json!({"fee_bps": bps, "max_fee": maxf, "amount": x});
                let se = quiet_catch(|| sdk::try_apply_transfer_fee(*x, tf)).unwrap_or(Err("panic"));
                let si = quiet_catch(|| sdk::try_reverse_apply_transfer_fee(*x, tf)).unwrap_or(Err("panic"));
                match (pe, se) {
                    (Ok((amt, _)), Ok(s)) => {
                        acc.count("fee_apply_both_ok");
                        if amt != s {
                            acc.violation("sdk:transfer_fee:apply_value", format!("amount after fee: program {amt}, sdk {s}"), case.clone());
                        }
                    }
                    (Ok((amt, _)), Err(e)) => acc.violation("sdk:transfer_fee:apply_sdk_fails_where_program_succeeds", format!("program {amt}, sdk error {e}"), case.clone()),
                    _ => acc.count("fee_apply_program_err"),
                }
                match (pi, si) {
                    (Ok((amt, _)), Ok(s)) => {
                        acc.count("fee_reverse_both_ok");
                        if amt != s {
                            acc.violation("sdk:transfer_fee:reverse_value", format!("amount before fee: program {amt}, sdk {s}"), case.clone());
                        }
                        if amt > (1u64 << 63) {
                            acc.count("fee_reverse_both_ok_above_2_63");
                        }
                    }
                    (Ok((amt, _)), Err(e)) => acc.violation("sdk:transfer_fee:reverse_sdk_fails_where_program_succeeds", format!("program {amt}, sdk error {e}"), case.clone()),
                    (Err(_), Ok(_)) => acc.count("fee_reverse_sdk_number_on_program_error"),
                    _ => acc.count("fee_reverse_both_err"),
                }
            }
        }
        acc
    })
}

// ------------------------------------------------------------------ swap quotes against executed swaps
fn tick_array_facade(bank: &Bank, pool: &Pubkey, start: i32) -> sdk::TickArrayFacade {
    let key = vcheck::ix::build::pda_tick_array(pool, start).0;
    let mut ticks = [sdk::TickFacade::default(); 88];
    if let Some(Ok(ta)) = bank.data(&key).and_then(codec::TickArray::decode) {
        for (i, t) in ta.ticks.iter().enumerate() {
            ticks[i] = sdk::TickFacade {
                initialized: t.initialized,
                liquidity_net: t.liquidity_net,
                liquidity_gross: t.liquidity_gross,
                fee_growth_outside_a: t.fee_growth_outside_a,
                fee_growth_outside_b: t.fee_growth_outside_b,
                reward_growths_outside: t.reward_growths_outside,
            };
        }
    }
    sdk::TickArrayFacade { start_tick_index: start, ticks }
}

fn pool_facade(p: &codec::Pool) -> sdk::WhirlpoolFacade {
    sdk::WhirlpoolFacade {
        fee_tier_index_seed: p.fee_tier_index.to_le_bytes(),
        tick_spacing: p.tick_spacing,
        fee_rate: p.fee_rate,
        protocol_fee_rate: p.protocol_fee_rate,
        liquidity: p.liquidity,
        sqrt_price: p.sqrt_price,
        tick_current_index: p.tick_current_index,
        fee_growth_global_a: p.fee_growth_global_a,
        fee_growth_global_b: p.fee_growth_global_b,
        reward_last_updated_timestamp: p.reward_last_updated_timestamp,
        ..Default::default()
    }
}

fn oracle_facade(o: &codec::Oracle) -> sdk::OracleFacade {
    sdk::OracleFacade {
        trade_enable_timestamp: o.trade_enable_timestamp,
        adaptive_fee_constants: sdk::AdaptiveFeeConstantsFacade {
            filter_period: o.constants.filter_period,
            decay_period: o.constants.decay_period,
            reduction_factor: o.constants.reduction_factor,
            adaptive_fee_control_factor: o.constants.adaptive_fee_control_factor,
            max_volatility_accumulator: o.constants.max_volatility_accumulator,
            tick_group_size: o.constants.tick_group_size,
            major_swap_threshold_ticks: o.constants.major_swap_threshold_ticks,
        },
        adaptive_fee_variables: sdk::AdaptiveFeeVariablesFacade {
            last_reference_update_timestamp: o.variables.last_reference_update_timestamp,
            last_major_swap_timestamp: o.variables.last_major_swap_timestamp,
            volatility_reference: o.variables.volatility_reference,
            tick_group_index_reference: o.variables.tick_group_index_reference,
            volatility_accumulator: o.variables.volatility_accumulator,
        },
    }
}

fn transfer_fee(bank: &Bank, mint: &Pubkey) -> Option<sdk::TransferFee> {
    let a = bank.get(mint)?;
    if a.owner != TOKEN22 {
        return None;
    }
    let f = vcheck::checks::c16::library_fee(&a.data, bank.clock.epoch)?;
    Some(sdk::TransferFee { fee_bps: u16::from(f.transfer_fee_basis_points), max_fee: u64::from(f.maximum_fee) })
}

#[derive(Default)]
struct QuoteMon;

impl Monitor for QuoteMon {
    fn after(&mut self, w: &mut World, obs: &Obs, acc: &mut Acc) {
        let Some(c) = parse_swap(&obs.ix) else { return };
        if !c.v2 || c.owner_a == c.owner_b {
            return; // the v2 instruction is the one the SDKs build
        }
        let Some(pre) = obs.pre.data(&c.pool).and_then(codec::Pool::decode) else { return };
        // the reward workload has episodes in which the clock runs BACKWARDS (to see the program refuse them); no chain
        // state looks like that and the quote functions are not told the pool's reward timestamp: not a quote to judge
        if (obs.pre.clock.unix_timestamp as u64) < pre.reward_last_updated_timestamp {
            acc.count("quotes_skipped_clock_behind_the_pool");
            return;
        }
        // the quote functions take no price limit: judge the same swap with limit 0 and permissive threshold
        let mut ix = obs.ix.clone();
        ix.data[16..24].copy_from_slice(&(if c.exact_in { 0u64 } else { u64::MAX }).to_le_bytes());
        ix.data[24..40].copy_from_slice(&0u128.to_le_bytes());
        let (out, post) = w.simulate(&obs.pre, &ix);
        // SDK side: the same three (plus lookahead) arrays a client would fetch
        let sp = pre.tick_spacing as i32;
        let tia = 88 * sp;
        let base = array_start(pre.tick_current_index, pre.tick_spacing);
        // the arrays of the path, found the way the program finds them: starting at the array of the current tick
        // (the next one for a b-to-a swap from the last tick of an array), up to three consecutive arrays whose
        // addresses are among the supplied accounts (static slots and supplemental ones alike)
        let supplied: Vec<Pubkey> = obs.ix.metas.iter().filter(|m| m.name.starts_with("tick_array_") || m.name.starts_with("remaining_")).map(|m| m.key).collect();
        let shifted = !c.a_to_b && pre.tick_current_index + sp >= base + tia;
        let offsets: [i64; 3] = if c.a_to_b { [0, -1, -2] } else if shifted { [1, 2, 3] } else { [0, 1, 2] };
        let mut starts: Vec<i32> = vec![];
        for o in offsets {
            let s = base as i64 + o * tia as i64;
            if s + tia as i64 <= MIN_TICK_INDEX as i64 || s > MAX_TICK_INDEX as i64 {
                continue;
            }
            if !supplied.contains(&vcheck::ix::build::pda_tick_array(c.pool, s as i32).0) {
                break;
            }
            starts.push(s as i32);
        }
        if starts.is_empty() {
            return;
        }
        // ... plus, as the high-level SDKs do (they fetch arrays on both sides of the price), up to three arrays
        // BEHIND the price: they are not on the path, so the quote must not depend on them
        let n_path = starts.len().min(3);
        starts.truncate(n_path);
        let behind = w.r.gen_range(0..=3usize);
        for j in 1..=behind {
            let s = starts[0] as i64 + if c.a_to_b { 1 } else { -1 } * j as i64 * tia as i64;
            if s + tia as i64 <= MIN_TICK_INDEX as i64 || s > MAX_TICK_INDEX as i64 || starts.contains(&(s as i32)) {
                break;
            }
            starts.push(s as i32);
        }
        let fac: Vec<sdk::TickArrayFacade> = starts.iter().map(|s| tick_array_facade(&obs.pre, &c.pool, *s)).collect();
        acc.count(&format!("quotes_with_{}_arrays", fac.len()));
        let arrays = match fac.len() {
            1 => sdk::TickArrays::One(fac[0]),
            2 => sdk::TickArrays::Two(fac[0], fac[1]),
            3 => sdk::TickArrays::Three(fac[0], fac[1], fac[2]),
            4 => sdk::TickArrays::Four(fac[0], fac[1], fac[2], fac[3]),
            5 => sdk::TickArrays::Five(fac[0], fac[1], fac[2], fac[3], fac[4]),
            _ => sdk::TickArrays::Six(fac[0], fac[1], fac[2], fac[3], fac[4], fac[5]),
        };
        let oracle = if pre.is_adaptive() { obs.pre.data(&obs.ix.key("oracle")).and_then(codec::Oracle::decode).map(|o| oracle_facade(&o)) } else { None };
        let now = obs.pre.clock.unix_timestamp as u64;
        let (tfa, tfb) = (transfer_fee(&obs.pre, &pre.token_mint_a), transfer_fee(&obs.pre, &pre.token_mint_b));
        let slippage: u16 = *rnd::pick(&mut w.r, &[0u16, 1, 50, 100, 1000, 9999, 10000]);
        acc.count("quotes_compared");
        let fail = |acc: &mut Acc, sig: &str, detail: String| {
            acc.violation(format!("sdk:quote:{sig}"), detail, json!({"instruction": ix_brief(&ix), "pool": {"sqrt_price": pre.sqrt_price.to_string(), "tick": pre.tick_current_index, "liquidity": pre.liquidity.to_string(), "fee_rate": pre.fee_rate, "tick_spacing": pre.tick_spacing, "adaptive": pre.is_adaptive()}, "tick_array_starts": starts, "clock": now}));
        };
        // observed amounts
        let (u_in, u_out) = if c.a_to_b { (c.owner_a, c.owner_b) } else { (c.owner_b, c.owner_a) };
        let paid = bal(&obs.pre, &u_in) as i128 - bal(&post, &u_in) as i128;
        let got = bal(&post, &u_out) as i128 - bal(&obs.pre, &u_out) as i128;
        let total_fee: u128 = swaps_of(&out).first().map(|s| s.1.iter().map(|x| x.fee_amount as u128).sum()).unwrap_or(0);
        // (token in / token out, est other side, bound with slippage, fee)
        let q: Result<(u64, u64, u64, u64), &'static str> = quiet_catch(|| {
            if c.exact_in {
                sdk::swap_quote_by_input_token(c.amount, c.a_to_b, slippage, pool_facade(&pre), oracle, arrays, now, tfa, tfb).map(|q| (q.token_in, q.token_est_out, q.token_min_out, q.trade_fee))
            } else {
                sdk::swap_quote_by_output_token(c.amount, !c.a_to_b, slippage, pool_facade(&pre), oracle, arrays, now, tfa, tfb).map(|q| (q.token_est_in, q.token_out, q.token_max_in, q.trade_fee))
            }
        })
        .unwrap_or(Err("sdk panicked"));
        if out.ok() {
            acc.count("quotes_program_ok");
            match q {
                Err(e) => fail(acc, "sdk_fails_where_program_succeeds", format!("program executed the swap (paid {paid}, received {got}); sdk quote error: {e}")),
                Ok((qi, qo, bound, qfee)) => {
                    if qi as i128 != paid || qo as i128 != got {
                        fail(acc, "amounts", format!("program: in {paid} out {got}; sdk: in {qi} out {qo}"));
                    }
                    if qfee as u128 != total_fee {
                        fail(acc, "total_fee", format!("program total fee {total_fee}; sdk trade_fee {qfee}"));
                    }
                    // slippage-adjusted bound on the safe side of the estimate
                    if c.exact_in && bound > qo {
                        fail(acc, "slippage_side", format!("token_min_out {bound} > token_est_out {qo} (slippage {slippage} bps)"));
                    }
                    if !c.exact_in && bound < qi {
                        fail(acc, "slippage_side", format!("token_max_in {bound} < token_est_in {qi} (slippage {slippage} bps)"));
                    }
                    if pre.is_adaptive() {
                        acc.count("quotes_adaptive_ok");
                    }
                    if tfa.is_some() || tfb.is_some() {
                        acc.count("quotes_transfer_fee_ok");
                    }
                }
            }
        } else {
            acc.count("quotes_program_failed");
            // where the program refuses, the SDK may still produce a number only for a partial exact-out
            // fill or for running off the supplied tick arrays
            let code = out.custom();
            let tolerated = [ec(E::PartialFillError), ec(E::TickArraySequenceInvalidIndex), ec(E::InvalidTickArraySequence), ec(E::TickArrayIndexOutofBounds)];
            let computation_refusals = [
                ec(E::ZeroTradableAmount), ec(E::AmountCalcOverflow), ec(E::AmountRemainingOverflow), ec(E::MultiplicationOverflow), ec(E::MulDivOverflow),
                ec(E::MultiplicationShiftRightOverflow), ec(E::TokenMaxExceeded), ec(E::TokenMinSubceeded), ec(E::NumberDownCastError), ec(E::DivideByZero), ec(E::SqrtPriceOutOfBounds),
                ec(E::LiquidityOverflow), ec(E::LiquidityUnderflow), ec(E::InvalidTimestamp), ec(E::InvalidSqrtPriceLimitDirection),
            ];
            if let Some(code) = code {
                if q.is_ok() {
                    if tolerated.contains(&code) {
                        acc.count("quotes_tolerated_number_on_refusal");
                    } else if computation_refusals.contains(&code) {
                        fail(acc, "number_where_program_refuses", format!("program refuses the swap with error {code}; sdk returns {:?}", q));
                    } else {
                        acc.count("quotes_refusal_outside_quote_scope");
                    }
                } else {
                    acc.count("quotes_both_refuse");
                }
            }
        }
        acc.situation(format!("q:{}:{}:{}:ad{}:tf{}", c.exact_in, c.a_to_b, out.ok(), pre.is_adaptive(), (tfa.is_some() || tfb.is_some())));
    }
}

/// Owed-amount quotes: `collect_fees_quote` / `collect_rewards_quote` built from the state before every successful
/// `update_fees_and_rewards` of the histories must give exactly what the program then records as owed to the position
/// (fees of both tokens, the three rewards), and must not fail there.
#[derive(Default)]
struct OwedQuoteMon;

impl Monitor for OwedQuoteMon {
    fn after(&mut self, w: &mut World, obs: &Obs, acc: &mut Acc) {
        if obs.ix.name != "update_fees_and_rewards" || !obs.ok() {
            return;
        }
        let (poolk, posk) = (obs.ix.key("whirlpool"), obs.ix.key("position"));
        let (Some(pre), Some(pp), Some(np)) = (obs.pre.data(&poolk).and_then(codec::Pool::decode), obs.pre.data(&posk).and_then(codec::Position::decode), w.bank.data(&posk).and_then(codec::Position::decode)) else { return };
        let tick_of = |t: i32| -> sdk::TickFacade {
            let start = array_start(t, pre.tick_spacing);
            let fac = tick_array_facade(&obs.pre, &poolk, start);
            fac.ticks[((t - start) / pre.tick_spacing as i32) as usize]
        };
        let mut pf = pool_facade(&pre);
        for i in 0..3 {
            pf.reward_infos[i] = sdk::WhirlpoolRewardInfoFacade { emissions_per_second_x64: pre.reward_infos[i].emissions_per_second_x64, growth_global_x64: pre.reward_infos[i].growth_global_x64 };
        }
        let mut posf = sdk::PositionFacade { liquidity: pp.liquidity, tick_lower_index: pp.tick_lower_index, tick_upper_index: pp.tick_upper_index, fee_growth_checkpoint_a: pp.fee_growth_checkpoint_a, fee_owed_a: pp.fee_owed_a, fee_growth_checkpoint_b: pp.fee_growth_checkpoint_b, fee_owed_b: pp.fee_owed_b, ..Default::default() };
        for i in 0..3 {
            posf.reward_infos[i] = sdk::PositionRewardInfoFacade { growth_inside_checkpoint: pp.reward_infos[i].growth_inside_checkpoint, amount_owed: pp.reward_infos[i].amount_owed };
        }
        let (tl, tu) = (tick_of(pp.tick_lower_index), tick_of(pp.tick_upper_index));
        let now = obs.pre.clock.unix_timestamp as u64;
        let fail = |acc: &mut Acc, sig: &str, detail: String| {
            acc.violation(format!("sdk:owed_quote:{sig}"), detail, json!({"instruction": ix_brief(&obs.ix), "tick": pre.tick_current_index, "range": [pp.tick_lower_index, pp.tick_upper_index], "clock": now}));
        };
        acc.count("owed_quotes_compared");
        match quiet_catch(|| sdk::collect_fees_quote(pf, posf, tl, tu, None, None)).unwrap_or(Err("sdk panicked")) {
            Ok(q) => {
                if (q.fee_owed_a, q.fee_owed_b) != (np.fee_owed_a, np.fee_owed_b) {
                    fail(acc, "fees", format!("program records fees owed ({}, {}); sdk collect_fees_quote gives ({}, {})", np.fee_owed_a, np.fee_owed_b, q.fee_owed_a, q.fee_owed_b));
                }
            }
            Err(e) => fail(acc, "fees_quote_fails", format!("program updated the position; sdk collect_fees_quote error: {e}")),
        }
        // with the mints' transfer fees: what the owner would receive from ONE collection of the owed amounts
        let (tfa, tfb) = (transfer_fee(&obs.pre, &pre.token_mint_a), transfer_fee(&obs.pre, &pre.token_mint_b));
        if tfa.is_some() || tfb.is_some() {
            acc.count("owed_quotes_with_transfer_fee");
            let net = |mint: &Pubkey, x: u64| x - vcheck::checks::c16::mint_fee(&obs.pre, mint, x).min(x);
            let want = (net(&pre.token_mint_a, np.fee_owed_a), net(&pre.token_mint_b, np.fee_owed_b));
            match quiet_catch(|| sdk::collect_fees_quote(pf, posf, tl, tu, tfa, tfb)).unwrap_or(Err("sdk panicked")) {
                Ok(q) => {
                    if (q.fee_owed_a, q.fee_owed_b) != want {
                        fail(acc, "fees_after_transfer_fee", format!("program records fees owed ({}, {}), of which the owner receives {want:?} after the token program's fee; sdk collect_fees_quote gives ({}, {})", np.fee_owed_a, np.fee_owed_b, q.fee_owed_a, q.fee_owed_b));
                    }
                }
                Err(e) => fail(acc, "fees_quote_fails", format!("sdk collect_fees_quote with transfer fees: {e}")),
            }
        }
        match quiet_catch(|| sdk::collect_rewards_quote(pf, posf, tl, tu, now, None, None, None)).unwrap_or(Err("sdk panicked")) {
            Ok(q) => {
                let got = [q.rewards[0].rewards_owed, q.rewards[1].rewards_owed, q.rewards[2].rewards_owed];
                let want = [np.reward_infos[0].amount_owed, np.reward_infos[1].amount_owed, np.reward_infos[2].amount_owed];
                if got != want {
                    fail(acc, "rewards", format!("program records rewards owed {want:?}; sdk collect_rewards_quote gives {got:?}"));
                }
                if pre.reward_infos.iter().any(|r| r.emissions_per_second_x64 > 0) && now > pre.reward_last_updated_timestamp && pre.liquidity > 0 {
                    acc.count("owed_quotes_with_pending_emissions");
                }
            }
            Err(e) => fail(acc, "rewards_quote_fails", format!("program updated the position; sdk collect_rewards_quote error: {e}")),
        }
    }
}

/// Function level: `collect_rewards_quote` against the program's own pipeline (`next_whirlpool_reward_infos` ->
/// `next_reward_growths_inside` -> `next_position_modify_liquidity_update`) on synthetic but consistent states: pool
/// liquidity and emission rates of every magnitude (rates that the liquidity does not divide, liquidity above the
/// rate), idle times from a second to a year, one to three rewards, in-range positions holding all or part of the
/// pool's liquidity, tick accumulators and checkpoints below the global growth. Cases whose amount leaves 62 bits are skipped.
fn owed_rewards_sweep(seed: u64, n: usize) -> Acc {
    use whirlpool::manager::position_manager::next_position_modify_liquidity_update;
    use whirlpool::manager::tick_manager::next_reward_growths_inside;
    use whirlpool::manager::whirlpool_manager::next_whirlpool_reward_infos;
    use whirlpool::state::{Position, Tick, Whirlpool};
    let mut acc = Acc::default();
    let mut r = rnd::rng(seed ^ 0x0EED_0EED);
    for case in 0..n {
        let lpool = rnd::log_u128(&mut r, 110).max(1);
        let lpos = match r.gen_range(0..3) { 0 => lpool, 1 => r.gen_range(1..=lpool), _ => rnd::log_u128(&mut r, 64).clamp(1, lpool) };
        let dt: u64 = *rnd::pick(&mut r, &[1u64, 7, 60, 3_600, 86_400, 1_000_003, 31_536_000]);
        let t0: u64 = r.gen_range(0..1u64 << 40);
        let mut wp = Whirlpool::default();
        wp.liquidity = lpool;
        wp.tick_spacing = 64;
        wp.sqrt_price = 1u128 << 64;
        wp.tick_current_index = 0;
        wp.reward_last_updated_timestamp = t0;
        let (mut tl, mut tu) = (Tick::default(), Tick::default());
        tl.initialized = true;
        tu.initialized = true;
        let mut pos = Position { liquidity: lpos, tick_lower_index: -128, tick_upper_index: 128, ..Default::default() };
        let rewards = r.gen_range(1..=3usize);
        for k in 0..rewards {
            wp.reward_infos[k].mint = Pubkey::new_from_array([k as u8 + 1; 32]);
            wp.reward_infos[k].emissions_per_second_x64 = if r.gen_range(0..5) == 0 { 0 } else { rnd::log_u128(&mut r, 118) };
            let g = rnd::log_u128(&mut r, 100);
            wp.reward_infos[k].growth_global_x64 = g;
            let lo = if g == 0 { 0 } else { r.gen_range(0..=g) };
            let up = if g - lo == 0 { 0 } else { r.gen_range(0..=g - lo) };
            tl.reward_growths_outside[k] = lo;
            tu.reward_growths_outside[k] = up;
            let inside = g - lo - up;
            pos.reward_infos[k].growth_inside_checkpoint = if inside == 0 { 0 } else { r.gen_range(0..=inside) };
            pos.reward_infos[k].amount_owed = if r.gen() { 0 } else { r.gen_range(0..1u64 << 40) };
        }
        let now = t0 + dt;
        let Ok(infos) = next_whirlpool_reward_infos(&wp, now) else {
            acc.count("owed_reward_sweep_program_refuses");
            continue;
        };
        let inside = next_reward_growths_inside(0, &tl, -128, &tu, 128, &infos);
        // keep to amounts the position account can hold comfortably
        if (0..3).any(|k| ((num_bigint::BigUint::from(inside[k].wrapping_sub(pos.reward_infos[k].growth_inside_checkpoint)) * num_bigint::BigUint::from(lpos)) >> 64u32).bits() > 62) {
            acc.count("owed_reward_sweep_skipped_large");
            continue;
        }
        let Ok(upd) = next_position_modify_liquidity_update(&pos, 0, 0, 0, &inside) else {
            acc.count("owed_reward_sweep_program_refuses");
            continue;
        };
        let mut pf = sdk::WhirlpoolFacade { tick_spacing: 64, liquidity: lpool, sqrt_price: 1u128 << 64, tick_current_index: 0, reward_last_updated_timestamp: t0, ..Default::default() };
        let mut posf = sdk::PositionFacade { liquidity: lpos, tick_lower_index: -128, tick_upper_index: 128, ..Default::default() };
        let fac = |t: &Tick| sdk::TickFacade { initialized: true, reward_growths_outside: t.reward_growths_outside, ..Default::default() };
        for k in 0..3 {
            pf.reward_infos[k] = sdk::WhirlpoolRewardInfoFacade { emissions_per_second_x64: wp.reward_infos[k].emissions_per_second_x64, growth_global_x64: wp.reward_infos[k].growth_global_x64 };
            posf.reward_infos[k] = sdk::PositionRewardInfoFacade { growth_inside_checkpoint: pos.reward_infos[k].growth_inside_checkpoint, amount_owed: pos.reward_infos[k].amount_owed };
        }
        let (tlf, tuf) = (fac(&tl), fac(&tu));
        acc.evaluations += 1;
        acc.count("owed_reward_sweep_cases");
        if wp.reward_infos.iter().any(|x| x.emissions_per_second_x64 > lpool) {
            acc.count("owed_reward_sweep_rate_above_liquidity");
        } else {
            acc.count("owed_reward_sweep_liquidity_above_rate");
        }
        let want = [upd.reward_infos[0].amount_owed, upd.reward_infos[1].amount_owed, upd.reward_infos[2].amount_owed];
        match quiet_catch(|| sdk::collect_rewards_quote(pf, posf, tlf, tuf, now, None, None, None)).unwrap_or(Err("sdk panicked")) {
            Ok(q) => {
                let got = [q.rewards[0].rewards_owed, q.rewards[1].rewards_owed, q.rewards[2].rewards_owed];
                if got != want {
                    acc.violation("sdk:owed_quote:rewards_function_level", format!("pool liquidity {lpool}, position liquidity {lpos}, {dt}s idle, rates {:?}: the program credits {want:?}, sdk collect_rewards_quote gives {got:?}", wp.reward_infos.iter().map(|x| x.emissions_per_second_x64).collect::<Vec<_>>()), json!({"case": case, "seed": seed}));
                }
            }
            Err(e) => acc.violation("sdk:owed_quote:rewards_quote_fails_function_level", format!("pool liquidity {lpool}, position liquidity {lpos}, {dt}s idle: the program credits {want:?}, sdk error {e}"), json!({"case": case, "seed": seed})),
        }
    }
    acc
}

/// Liquidity quotes: `increase_liquidity_quote` / `decrease_liquidity_quote` for the liquidity amount of every
/// successful increase / decrease of the histories must give exactly what the owner paid / received
/// (transfer fees included), and never fail there.
#[derive(Default)]
struct LiqQuoteMon;

impl Monitor for LiqQuoteMon {
    fn after(&mut self, w: &mut World, obs: &Obs, acc: &mut Acc) {
        let name = obs.ix.name;
        let inc = name == "increase_liquidity" || name == "increase_liquidity_v2";
        let dec = name == "decrease_liquidity" || name == "decrease_liquidity_v2";
        if !(inc || dec) || !obs.ok() {
            return;
        }
        let mut r = codec::Rd::new(&obs.ix.data, 8);
        let l = r.u128();
        let pool_key = obs.ix.key("whirlpool");
        let (Some(pre), Some(pos)) = (obs.pre.data(&pool_key).and_then(codec::Pool::decode), obs.pre.data(&obs.ix.key("position")).and_then(codec::Position::decode)) else { return };
        let (oa, ob) = (obs.ix.key("token_owner_account_a"), obs.ix.key("token_owner_account_b"));
        if oa == ob {
            return;
        }
        let (tfa, tfb) = (transfer_fee(&obs.pre, &pre.token_mint_a), transfer_fee(&obs.pre, &pre.token_mint_b));
        let slippage: u16 = *rnd::pick(&mut w.r, &[0u16, 1, 100, 5000, 10000]);
        let d = |k: &Pubkey| bal(&w.bank, k) as i128 - bal(&obs.pre, k) as i128;
        let fail = |acc: &mut Acc, sig: &str, detail: String| {
            acc.violation(format!("sdk:liquidity_quote:{sig}"), detail, json!({"instruction": ix_brief(&obs.ix), "sqrt_price": pre.sqrt_price.to_string(), "range": [pos.tick_lower_index, pos.tick_upper_index], "liquidity": l.to_string()}));
        };
        acc.count("liquidity_quotes_compared");
        if tfa.is_some() || tfb.is_some() {
            acc.count("liquidity_quotes_transfer_fee");
        }
        if inc {
            let mut q = quiet_catch(|| sdk::increase_liquidity_quote(l.into(), slippage, pre.sqrt_price.into(), pos.tick_lower_index, pos.tick_upper_index, tfa, tfb)).unwrap_or(Err("sdk panicked"));
            // a maximum of estimate x (1 + slippage) that does not fit u64 cannot be reported: not a failure of the
            // estimate - the quote is taken again without slippage and judged on that
            if q.is_err() && slippage > 0 {
                let q0 = quiet_catch(|| sdk::increase_liquidity_quote(l.into(), 0, pre.sqrt_price.into(), pos.tick_lower_index, pos.tick_upper_index, tfa, tfb)).unwrap_or(Err("sdk panicked"));
                if q0.is_ok() {
                    acc.count("liquidity_quote_maximum_unrepresentable_with_slippage");
                    q = q0;
                }
            }
            match q {
                Err(e) => fail(acc, "sdk_fails_where_program_succeeds", format!("program deposited ({}, {}); sdk error {e}", -d(&oa), -d(&ob))),
                Ok(q) => {
                    if q.token_est_a as i128 != -d(&oa) || q.token_est_b as i128 != -d(&ob) {
                        fail(acc, "amounts", format!("owner paid ({}, {}); sdk estimates ({}, {})", -d(&oa), -d(&ob), q.token_est_a, q.token_est_b));
                    }
                    if q.token_max_a < q.token_est_a || q.token_max_b < q.token_est_b {
                        fail(acc, "slippage_side", format!("maxima ({}, {}) below the estimates ({}, {}) at {slippage} bps", q.token_max_a, q.token_max_b, q.token_est_a, q.token_est_b));
                    }
                }
            }
        } else {
            let q = quiet_catch(|| sdk::decrease_liquidity_quote(l.into(), slippage, pre.sqrt_price.into(), pos.tick_lower_index, pos.tick_upper_index, tfa, tfb)).unwrap_or(Err("sdk panicked"));
            match q {
                Err(e) => fail(acc, "sdk_fails_where_program_succeeds", format!("program paid out ({}, {}); sdk error {e}", d(&oa), d(&ob))),
                Ok(q) => {
                    if q.token_est_a as i128 != d(&oa) || q.token_est_b as i128 != d(&ob) {
                        fail(acc, "amounts", format!("owner received ({}, {}); sdk estimates ({}, {})", d(&oa), d(&ob), q.token_est_a, q.token_est_b));
                    }
                    if q.token_min_a > q.token_est_a || q.token_min_b > q.token_est_b {
                        fail(acc, "slippage_side", format!("minima ({}, {}) above the estimates ({}, {}) at {slippage} bps", q.token_min_a, q.token_min_b, q.token_est_a, q.token_est_b));
                    }
                }
            }
        }
        acc.situation(format!("lq:{}:tf{}:{}", if inc { "inc" } else { "dec" }, (tfa.is_some() || tfb.is_some()) as u8, if pre.tick_current_index < pos.tick_lower_index { "below" } else if pre.tick_current_index >= pos.tick_upper_index { "above" } else { "in" }));
    }
}

fn main() {
    let args: Vec<String> = std::env::args().collect();
    let mut tier = match std::env::var("VERIF_TIER").as_deref() {
        Ok("thorough") => Tier::Thorough,
        _ => Tier::Quick,
    };
    let mut seed: u64 = std::env::var("VERIF_SEED").ok().and_then(|s| s.parse().ok()).unwrap_or(20260924);
    let mut i = 1;
    while i < args.len() {
        match args[i].as_str() {
            "--tier" => {
                tier = if args[i + 1] == "thorough" { Tier::Thorough } else { Tier::Quick };
                i += 1;
            }
            "--seed" => {
                seed = args[i + 1].parse().expect("seed");
                i += 1;
            }
            "--replay" => {
                let v: serde_json::Value = std::fs::read_to_string(&args[i + 1]).ok().and_then(|s| serde_json::from_str(&s).ok()).expect("replay file");
                seed = v["seed"].as_u64().expect("seed in replay file");
                tier = if v["tier"].as_str() == Some("thorough") { Tier::Thorough } else { Tier::Quick };
                eprintln!("replaying C20 tier={} seed={seed}; recorded signature: {}", tier.name(), v["signature"]);
                i += 1;
            }
            _ => {}
        }
        i += 1;
    }
    vcheck::report::capture_stdout();
    let mut rep = Report::new("C20", tier, seed);
    rep.rule = "the Rust core SDK (rust-sdk/core) linked next to the program: (a) tick_index_to_sqrt_price on ALL 887273 ticks and sqrt_price_to_tick_index at every boundary +-1 and on a random interior sample equal the program's; (b) try_get_amount_delta_a/b, try_get_next_sqrt_price_from_a/b and try_get_token_estimates_from_liquidity on hostile inputs: equal values where the program returns Ok, an SDK error wherever the program rejects as overflowing, no SDK error where the program succeeds; (e) try_apply_transfer_fee / try_reverse_apply_transfer_fee against the program's calculate_transfer_fee_excluded / included_amount on a real Token-2022 mint account, all rates and caps, amounts up to u64::MAX incl. where amount + fee crosses 2^64: equal values and no SDK failure where the program succeeds; (c) every swap_v2 of history workloads (static, adaptive, transfer-fee pools) is re-judged with no price limit on a clone of the pre-state and compared with swap_quote_by_input/output_token built from the decoded pre-state (pool, tick arrays of both encodings incl. merely named ones as zeroed arrays, oracle, epoch transfer fees): amounts in/out and total fee equal when the program succeeds, no SDK failure there, an SDK number on a program refusal only for partial exact-out fills / running off the arrays, slippage bound on the safe side; (d) every successful increase/decrease_liquidity(_v2) of the same histories is compared with increase_liquidity_quote / decrease_liquidity_quote for its liquidity amount: the estimates equal what the owner paid / received (transfer fees included), the SDK does not fail, maxima/minima on the safe side. distinct = (function, magnitude) and (mode, direction, outcome, adaptive, transfer fee)".into();
    rep.assumptions = vec![
        "`ethnum` is not available offline: the SDK is compiled against /verif/vendor/ethnum-shim, a U256 over `uint` 0.9.5 with the std-integer semantics ethnum documents (checked_shl fails only for shifts >= 256)".into(),
        "only the Rust core is exercised; its TypeScript/WASM packaging cannot be built offline".into(),
    ];
    let mut acc = function_level(seed, tier.pick(16_000_000, 400_000_000), tier.pick(6_400_000, 160_000_000));
    let per_shard = tier.pick(56, 1400);
    let acc2 = run_histories(
        seed ^ 0x20,
        per_shard,
        move |_r| HistCfg { ops: 120, spl_only: false, allow_adaptive: true, allow_transfer_fee: true, w_swap: 60, w_liq: 24, w_fees: 10, w_lifecycle: 2, w_clock: 10, w_setters: 2, w_burst: 1, w_reward: 16, ..Default::default() },
        || vec![Box::new(QuoteMon) as Box<dyn Monitor>, Box::new(LiqQuoteMon) as Box<dyn Monitor>, Box::new(OwedQuoteMon) as Box<dyn Monitor>],
    );
    acc.merge(acc2);
    acc.merge(owed_rewards_sweep(seed, tier.pick(200_000, 5_000_000)));
    rep.acc = acc;
    rep.floor("ticks_compared", 887_273);
    rep.floor("slippage_price_bounds_checked", 20_000);
    rep.floor("owed_quotes_compared", 1_000);
    rep.floor("owed_quotes_with_pending_emissions", 20);
    rep.floor("owed_reward_sweep_cases", 50_000);
    rep.floor("owed_reward_sweep_liquidity_above_rate", 5_000);
    rep.floor("fee_reverse_both_ok", 50_000);
    rep.floor("fee_reverse_both_ok_above_2_63", 2_000);
    rep.floor("liquidity_quotes_compared", 2_000);
    rep.floor("liquidity_quotes_transfer_fee", 200);
    rep.floor("delta_both_ok", 300_000);
    rep.floor("estimates_both_ok", 100_000);
    rep.floor("quotes_program_ok", 1500);
    rep.floor("quotes_adaptive_ok", 200);
    rep.floor("quotes_transfer_fee_ok", 200);
    rep.floor("quotes_program_failed", 300);
    std::process::exit(rep.finish());
}
