#!/bin/bash
# tools/verify_both.sh <ID>: verify a and b of a freshly seeded pair, one after the other
for v in a b; do /verif/tools/verify_seed.sh $1 $v > /tmp/mut/$1.out/verify_$v.log 2>&1; done
