#!/usr/bin/env bash
# tools/try_mutant.sh <patch.diff> <Cxx> [Cxx...]  : apply a seeded change to /repo, run the quick checks, undo it.
set -u
P="$1"; shift
cd /verif
git -C /repo diff --quiet || { echo "/repo has uncommitted changes"; exit 9; }
git -C /repo apply "$P" || { echo "patch does not apply"; exit 9; }
trap 'git -C /repo checkout -- . ; git -C /repo clean -fdq programs rust-sdk 2>/dev/null' EXIT
for id in "$@"; do
  out=$(VERIF_ROOT=/tmp/verif-mut ./check_mut "$id" quick 2>&1); rc=$?
  echo "== $id rc=$rc: $(echo "$out" | grep -E "VIOLATION|INCONCLUSIVE|KNOWN|held|violated" | head -3 | tr '\n' '|')"
  echo "$out" | grep -E "signature:|detail:" | head -4
done
