#!/usr/bin/env bash
# tools/try_wt.sh <patch.diff> <Cxx> [Cxx...]
# Development aid: run the quick checks against a scratch worktree of /repo (HEAD + patch) instead of /repo
# itself, so that /repo stays untouched while other runs use it. A copy of /verif is made whose only
# difference is the path of the `whirlpool` / SDK dependencies. Registered checks never use this.
set -u
P="$(readlink -f "$1")"; shift
MX=${MX:-/tmp/mx}
SRC="${VERIF_SRC:-$(cd "$(dirname "$0")/.." && pwd)}"
WT=$MX/repo; VC=$MX/verif
mkdir -p $MX
exec 9>$MX/lock; flock 9
if [ ! -d $WT ]; then git -C /repo worktree add --detach $WT HEAD -q || exit 9; fi
git -C $WT checkout -q --detach "$(git -C /repo rev-parse HEAD)" && git -C $WT checkout -q -- . && git -C $WT clean -fdq
git -C $WT apply "$P" || { echo "patch does not apply"; exit 9; }
mkdir -p $VC $MX/target-engine $MX/target-sdk
rsync -a --delete --exclude 'target' --exclude 'target-*' --exclude logs --exclude evidence --exclude replays --exclude .git "$SRC"/ $VC/
sed -i "s|/repo/|$WT/|g" $VC/engine/vcheck/Cargo.toml $VC/engine-sdk/sdkcheck/Cargo.toml
sed -i "s|\"/repo/programs/whirlpool/src/lib.rs\"|\"$WT/programs/whirlpool/src/lib.rs\"|" $VC/engine/vcheck/src/catalog.rs $VC/engine/vcheck/src/ix/build.rs
ln -sfn $MX/target-engine $VC/engine/target; ln -sfn $MX/target-sdk $VC/engine-sdk/target
cd $VC
for id in "$@"; do
  out=$(VERIF_NO_LANES=${VERIF_NO_LANES:-1} ./check "$id" ${TIER:-quick} 2>&1); rc=$?
  [ -n "${MATRIX_OUT:-}" ] && echo "$id $rc $(echo "$out" | grep -m1 "signature:" | sed 's/^ *signature: //')" >> "$MATRIX_OUT"
  echo "== $id rc=$rc: $(echo "$out" | grep -E "VIOLATION|INCONCLUSIVE|KNOWN|held|violated" | head -3 | tr '\n' '|')"
  echo "$out" | grep -E "signature:|detail:" | head -4 | cut -c1-400
done
git -C $WT checkout -q -- . ; git -C $WT clean -fdq
