#!/usr/bin/env python3
"""Sanitizer lanes: run slices of the workloads under Miri and under an AddressSanitizer build.

usage: lanes.py <property> <tier> <seed> <out.json>

Writes {"lanes": [...]} ; every lane entry carries tool, flags, processes, evaluations, status
(clean | report | oracle | inconclusive), reports (deduplicated by kind + first in-repo frame) and
wall time. `vcheck` (Report::finish) folds the file into the evidence and into the verdict:
report/oracle => VIOLATION, inconclusive => INCONCLUSIVE. Exit code of this script is always 0
unless it could not run at all.
"""
import json, os, re, subprocess, sys, time
from concurrent.futures import ThreadPoolExecutor

ROOT = os.environ.get("VERIF_ROOT", "/verif")
ENGINE = os.path.join(ROOT, "engine")
NPROC = int(os.environ.get("VERIF_LANE_PROCS", "16"))

# lane table: property -> tier -> list of lane specs
#   ("miri", lane, parts_total, parts_run, n, flags)   flags: "sb" (full Stacked Borrows) | "nosb"
#   ("asan", check_id)
T = {
    "C13": {
        "quick": [("miri", "c13", 64, 16, 0, "sb")],
        "thorough": [("miri", "c13", 64, 64, 0, "sb"), ("miri", "c13fill", 4, 4, 0, "sb"), ("miri", "smoke", 3, 3, 0, "nosb"), ("asan", "C13")],
    },
    "C12": {
        "quick": [("miri", "c12", 16, 16, 10, "sb")],
        "thorough": [("miri", "c12", 32, 32, 30, "sb"), ("miri", "smoke", 3, 3, 0, "nosb"), ("asan", "C12")],
    },
    "C16": {
        "quick": [("miri", "c16", 16, 16, 12, "sb")],
        "thorough": [("miri", "c16", 32, 32, 150, "sb"), ("asan", "C16")],
    },
    "C02": {"thorough": [("miri", "c02", 16, 16, 1500, "sb")]},
    "C08": {"thorough": [("miri", "c08", 16, 16, 1500, "sb")]},
    "C09": {"thorough": [("miri", "c09", 16, 16, 0, "sb")]},
    "C05": {"thorough": [("asan", "C05")]},
    "C10": {"thorough": [("asan", "C10")]},
    "C18": {"thorough": [("asan", "C18")]},
    "C01": {"thorough": [("asan", "C01")]},
}

MIRI_TIMEOUT = int(os.environ.get("VERIF_MIRI_TIMEOUT_S", "3000"))
ASAN_TIMEOUT = int(os.environ.get("VERIF_ASAN_TIMEOUT_S", "3000"))


def env_base():
    e = dict(os.environ)
    e["CARGO_NET_OFFLINE"] = "true"
    return e


def miri_flags(kind):
    f = "-Zmiri-permissive-provenance"
    if kind == "nosb":
        f += " -Zmiri-disable-stacked-borrows"
    return f


def miri_cmd(lane, part, parts, seed, n):
    return ["cargo", "+nightly", "miri", "run", "--release", "--offline", "--target-dir", os.path.join(ENGINE, "target-miri"), "-p", "vcheck", "--bin", "lane", "--", lane, str(part), str(parts), str(seed), str(n)]


def first_repo_frame(text):
    m = re.search(r"(/repo/[^\s:]+:\d+)", text)
    return m.group(1) if m else "?"


def classify_miri(rc, out):
    m = re.search(r"^LANE \S+ part=\S+ evaluations=(\d+) violations=(\d+)", out, re.M)
    if rc == 0 and m:
        c = re.search(r"^LANE-COUNTERS (\{.*\})$", out, re.M)
        return "clean", int(m.group(1)), {"counters": json.loads(c.group(1)) if c else {}}
    k = re.search(r"^error: (Undefined Behavior[^\n]*|.*[Dd]ata race[^\n]*|memory leaked[^\n]*|.*deadlock[^\n]*)", out, re.M)
    if k:
        tail = out[k.start():]
        kind = re.sub(r"\s+", " ", re.sub(r"<\d+>|alloc\d+(\[[^\]]*\])?", "_", k.group(1)))[:300]
        return "report", 0, {"kind": kind, "frame": first_repo_frame(tail), "excerpt": tail[:3000]}
    if m and int(m.group(2)) > 0:
        v = re.findall(r"^LANE-VIOLATION (.*)$", out, re.M)
        return "oracle", int(m.group(1)), {"kind": "oracle fired under the interpreter", "frame": (v[0] if v else "?")[:200], "excerpt": "\n".join(v)[:3000]}
    return "inconclusive", 0, {"kind": "rc=%s" % rc, "frame": "?", "excerpt": out[-2000:]}


def run_miri(spec, seed):
    _, lane, parts_total, parts_run, n, kind = spec
    t0 = time.time()
    env = env_base()
    env["MIRIFLAGS"] = miri_flags(kind)
    # build once (a trivial slice), so the parallel runs only take the build lock briefly
    warm = miri_cmd("c09", 0, 1000000, seed, 0)
    try:
        b = subprocess.run(warm, cwd=ENGINE, env=env, capture_output=True, text=True, timeout=MIRI_TIMEOUT)
    except subprocess.TimeoutExpired:
        return lane_entry(spec, "inconclusive", 0, 0, [{"kind": "miri build timed out", "frame": "?", "excerpt": ""}], t0)
    if b.returncode != 0 and "LANE c09" not in b.stdout:
        return lane_entry(spec, "inconclusive", 0, 0, [{"kind": "miri build failed", "frame": "?", "excerpt": (b.stderr or "")[-2000:]}], t0)
    # parts: a seed-dependent window of parts_run out of parts_total
    first = (seed % parts_total) if parts_run < parts_total else 0
    parts = [(first + i) % parts_total for i in range(parts_run)]

    def one(p):
        cmd = miri_cmd(lane, p, parts_total, seed, n)
        try:
            r = subprocess.run(cmd, cwd=ENGINE, env=env, capture_output=True, text=True, timeout=MIRI_TIMEOUT)
            st, ev, rep = classify_miri(r.returncode, r.stdout + "\n" + r.stderr)
        except subprocess.TimeoutExpired:
            st, ev, rep = "inconclusive", 0, {"kind": "timeout after %ss" % MIRI_TIMEOUT, "frame": "?", "excerpt": ""}
        if rep is not None and "counters" not in rep:
            rep["cmd"] = "cd %s && MIRIFLAGS='%s' %s" % (ENGINE, env["MIRIFLAGS"], " ".join(cmd))
        return st, ev, rep

    with ThreadPoolExecutor(max_workers=NPROC) as ex:
        res = list(ex.map(one, parts))
    return fold(spec, res, t0, len(parts))


def fold(spec, res, t0, procs):
    evs = sum(r[1] for r in res)
    reports, seen = [], set()
    status = "clean"
    rank = {"clean": 0, "inconclusive": 1, "oracle": 2, "report": 3}
    counters = {}
    for st, _, rep in res:
        if rank[st] > rank[status]:
            status = st
        if rep is not None and "counters" in rep:
            for k, v in rep["counters"].items():
                counters[k] = counters.get(k, 0) + v
            continue
        if rep is not None:
            key = (st, rep["kind"][:80], rep["frame"])
            if key not in seen:
                seen.add(key)
                rep["status"] = st
                reports.append(rep)
    e = lane_entry(spec, status, evs, procs, reports, t0)
    e["counters"] = counters
    return e


def lane_entry(spec, status, evs, procs, reports, t0):
    if spec[0] == "miri":
        tool, lane, flags = "miri", spec[1], miri_flags(spec[5]) + (" (full Stacked Borrows)" if spec[5] == "sb" else "")
    else:
        tool, lane, flags = "asan", spec[1], "-Zsanitizer=address, detect_leaks=0 (the harness parks panicked workers and leaks their stacks by design)"
    return {"tool": tool, "lane": lane, "flags": flags, "processes": procs, "evaluations": evs, "status": status, "reports": reports[:6], "wall_s": round(time.time() - t0, 1)}


def run_asan(spec, seed):
    _, cid = spec
    t0 = time.time()
    env = env_base()
    env["RUSTFLAGS"] = "-Zsanitizer=address -Cforce-frame-pointers=yes"
    tdir = os.path.join(ENGINE, "target-asan")
    b = subprocess.run(["cargo", "+nightly", "build", "--release", "--offline", "--target", "x86_64-unknown-linux-gnu", "--target-dir", tdir, "-p", "vcheck", "--bin", "vcheck"], cwd=ENGINE, env=env, capture_output=True, text=True)
    if b.returncode != 0:
        return lane_entry(spec, "inconclusive", 0, 0, [{"kind": "asan build failed", "frame": "?", "excerpt": b.stderr[-2000:]}], t0)
    aroot = os.path.join(ROOT, "logs", "asan-root-" + cid)
    os.makedirs(aroot, exist_ok=True)
    try:
        with open(os.path.join(ROOT, "known_findings.json")) as f, open(os.path.join(aroot, "known_findings.json"), "w") as g:
            g.write(f.read())
    except OSError:
        pass
    env2 = env_base()
    env2.pop("VERIF_LANES_JSON", None)
    env2["VERIF_ROOT"] = aroot
    env2["ASAN_OPTIONS"] = "detect_leaks=0:halt_on_error=1:exitcode=66:abort_on_error=0"
    cmd = [os.path.join(tdir, "x86_64-unknown-linux-gnu", "release", "vcheck"), cid, "--tier", "quick", "--seed", str(seed)]
    try:
        r = subprocess.run(cmd, cwd=ROOT, env=env2, capture_output=True, text=True, timeout=ASAN_TIMEOUT)
    except subprocess.TimeoutExpired:
        return lane_entry(spec, "inconclusive", 0, 1, [{"kind": "timeout", "frame": "?", "excerpt": ""}], t0)
    out = r.stdout + "\n" + r.stderr
    evs = 0
    try:
        evs = json.load(open(os.path.join(aroot, "evidence", cid + ".json")))["coverage"]["evaluations"]
    except Exception:
        pass
    k = re.search(r"ERROR: AddressSanitizer: ([^\n]*)", out)
    if k:
        tail = out[k.start():]
        rep = {"kind": k.group(1)[:300], "frame": first_repo_frame(tail), "excerpt": tail[:3000], "cmd": "ASAN_OPTIONS=%s VERIF_ROOT=%s %s" % (env2["ASAN_OPTIONS"], aroot, " ".join(cmd))}
        return fold(spec, [("report", 0, rep)], t0, 1)
    if r.returncode == 0:
        return fold(spec, [("clean", evs, None)], t0, 1)
    # an oracle verdict under the instrumented build is decided by the native run, not here
    rep = {"kind": "instrumented run ended rc=%s without a sanitizer report" % r.returncode, "frame": "?", "excerpt": out[-1500:], "cmd": " ".join(cmd)}
    return fold(spec, [("inconclusive", evs, rep)], t0, 1)


def main():
    pid, tier, seed, outp = sys.argv[1], sys.argv[2], int(sys.argv[3]), sys.argv[4]
    specs = T.get(pid, {}).get(tier, [])
    lanes = []
    for s in specs:
        lanes.append(run_miri(s, seed) if s[0] == "miri" else run_asan(s, seed))
        print("lane %s/%s: %s evaluations=%d wall=%ss" % (lanes[-1]["tool"], lanes[-1]["lane"], lanes[-1]["status"], lanes[-1]["evaluations"], lanes[-1]["wall_s"]), file=sys.stderr)
    with open(outp, "w") as f:
        json.dump({"lanes": lanes}, f, indent=1)


if __name__ == "__main__":
    if len(sys.argv) == 2 and sys.argv[1] == "--has":
        sys.exit(0)
    if len(sys.argv) == 4 and sys.argv[1] == "--has":
        sys.exit(0 if T.get(sys.argv[2], {}).get(sys.argv[3]) else 1)
    main()
