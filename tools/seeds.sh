#!/bin/bash
# Run every registered check at several seeds on the current /repo tree; print anything that is not "held".
# usage: tools/seeds.sh <tier> <seed>...
cd "$(dirname "$0")/.."
tier=$1; shift
./check C01 quick >/dev/null 2>&1   # make sure the binaries are current
( cd engine-sdk && cargo build --release --offline >/dev/null 2>&1 )
bad=0
for s in "$@"; do
  for n in $(seq -w 1 20); do
    id=C$n
    out=$(VERIF_SEED=$s ./check $id $tier 2>&1); rc=$?
    if [ $rc -ne 0 ]; then bad=1; echo "seed=$s $id rc=$rc"; echo "$out" | head -8; fi
  done
  echo "seed $s done"
done
exit $bad
