#!/usr/bin/env bash
# tools/round.sh <ID> <suffix-for-a> <suffix-for-b> [extra check ids...]: keep the verified pair of a seeding round
# under seeded/<ID><suffix> and run the quick check of its own property (plus any extra ones) against each on a
# scratch worktree (tools/try_wt.sh; MX selects the scratch lane).
set -u
cd "$(dirname "$0")/.."
ID=$1; SA=$2; SB=$3; shift 3
for pair in "a $SA" "b $SB"; do
  set -- $pair "$@"; v=$1; t=$2; shift 2
  if [ "$(jq -r .ok /tmp/mut/$ID.out/$v/verified.json 2>/dev/null)" != true ]; then echo "$ID$v: NOT VERIFIED: $(cat /tmp/mut/$ID.out/$v/verified.json 2>/dev/null)"; continue; fi
  tools/keep_seed.sh $ID $v $t >/dev/null
  echo "### $ID$t: $(jq -r .summary seeded/$ID$t/meta.json | cut -c1-260)"
  MX=${MX:-/tmp/mx4} tools/try_wt.sh seeded/$ID$t/patch.diff $ID "$@" 2>&1 | cut -c1-330
done
