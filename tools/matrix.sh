#!/usr/bin/env bash
# tools/matrix.sh [ALL|own] : run the quick checks against every seeded change (applied to /repo, undone afterwards).
# Writes /verif/seeded/MATRIX.json: for each seed, which checks reported a violation.
set -u
MODE="${1:-own}"
cd /verif
git -C /repo diff --quiet || { echo "/repo has uncommitted changes"; exit 9; }
OUT=/verif/seeded/MATRIX.json
TMP=$(mktemp)
echo "{" > "$TMP"
first=1
ALLIDS=$(jq -r '.checks[].property_id' MANIFEST.json)
for d in seeded/*/; do
  s=$(basename "$d")
  [ -f "$d/patch.diff" ] || continue
  prop=$(echo "$s" | sed -E 's/^(C[0-9]+).*/\1/')
  git -C /repo apply "/verif/$d/patch.diff" || { echo "patch $s does not apply"; continue; }
  if [ "$MODE" = ALL ]; then ids="$ALLIDS"; else ids="$prop"; fi
  caught=""; missed=""; incon=""
  for id in $ids; do
    out=$(VERIF_ROOT=/tmp/verif-matrix ./check_mut "$id" quick 2>&1); rc=$?
    if [ $rc -eq 1 ]; then caught="$caught \"$id\","; sig=$(echo "$out" | grep -m1 "signature:" | sed 's/.*signature: //' | tr -d '"\\' | cut -c1-160); [ "$id" = "$prop" ] && ownsig="$sig";
    elif [ $rc -eq 0 ]; then missed="$missed \"$id\",";
    else incon="$incon \"$id\","; fi
  done
  git -C /repo checkout -- . ; git -C /repo clean -fdq programs rust-sdk 2>/dev/null
  [ $first -eq 1 ] || echo "," >> "$TMP"; first=0
  printf ' "%s": {"property": "%s", "caught_by": [%s], "not_caught_by": [%s], "inconclusive": [%s], "first_signature_of_own_check": "%s"}' "$s" "$prop" "${caught%,}" "${missed%,}" "${incon%,}" "${ownsig:-}" >> "$TMP"
  ownsig=""
  echo "$s: caught by [${caught%,}] inconclusive [${incon%,}]"
done
echo "" >> "$TMP"; echo "}" >> "$TMP"
python3 -c "import json,sys; json.load(open('$TMP'))" && mv "$TMP" "$OUT"
