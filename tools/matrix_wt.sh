#!/usr/bin/env bash
# tools/matrix_wt.sh [lanes] [own|all]: every seeded change x the quick check of its own property (own, default;
# about half an hour) or x every quick check (all; several hours), on scratch worktrees (tools/try_wt.sh),
# N lanes in parallel; writes seeded/MATRIX.json. Sanitizer lanes are skipped (VERIF_NO_LANES=1) except
# for seeds named S* which exist to exercise them. SEEDS_FILTER=<regex> restricts the seeds, MATRIX_MERGE=1 merges
# the result into the existing seeded/MATRIX.json instead of replacing it. Scratch trees are kept between runs only while running.
ROOT="$(cd "$(dirname "$0")/.." && pwd)"; export VERIF_SRC="$ROOT"
cd "$ROOT"
N=${1:-4}
MODE=${2:-own}
ALL="C01 C02 C03 C04 C05 C06 C07 C08 C09 C10 C11 C12 C13 C14 C15 C16 C17 C18 C19 C20"
rm -rf /tmp/mxres; mkdir -p /tmp/mxres
seeds=($(ls seeded | grep -v MATRIX | grep -E "${SEEDS_FILTER:-.}"))
for k in $(seq 0 $((N-1))); do
  (
    for i in "${!seeds[@]}"; do
      [ $((i % N)) -eq $k ] || continue
      s=${seeds[$i]}
      own=$(jq -r .property seeded/$s/meta.json)
      case $s in S*) nl=0; ids="$own";; *) nl=1; if [ "$MODE" = all ]; then ids="$ALL"; else ids="$own"; fi;; esac
      MX=/tmp/mxl$k MATRIX_OUT=/tmp/mxres/$s.txt VERIF_NO_LANES=$nl tools/try_wt.sh seeded/$s/patch.diff $ids > /tmp/mxres/$s.log 2>&1
      echo "$s done: $(awk '$2==1{printf "%s ",$1}' /tmp/mxres/$s.txt)"
    done
  ) &
done
wait
MATRIX_MODE=$MODE python3 - <<'P'
import json,os,glob
m={}
for f in sorted(glob.glob('/tmp/mxres/*.txt')):
    s=os.path.basename(f)[:-4]
    caught=[];inc=[];sig={}
    for line in open(f):
        parts=line.rstrip('\n').split(' ',2)
        if len(parts)<2: continue
        cid,rc=parts[0],int(parts[1])
        if rc==1:
            caught.append(cid); sig[cid]=parts[2] if len(parts)>2 else ''
        elif rc!=0: inc.append(cid)
    meta=json.load(open(os.path.join(os.environ['VERIF_SRC'],'seeded',s,'meta.json')))
    m[s]={'property':meta.get('property'),'caught_by':caught,'inconclusive':inc,'first_signature':sig,'summary':meta.get('summary','')[:300]}
import sys
mp=os.path.join(os.environ['VERIF_SRC'],'seeded','MATRIX.json')
if os.environ.get('MATRIX_MERGE') and os.path.exists(mp):
    old=json.load(open(mp))['seeds']; old.update(m); m=old
json.dump({'mode': os.environ.get('MATRIX_MODE','own'), 'seeds': m},open(os.path.join(os.environ['VERIF_SRC'],'seeded','MATRIX.json'),'w'),indent=1)
missed=[s for s,v in m.items() if v['property'] not in v['caught_by']]
print('seeds',len(m),'not caught by own check:',missed)
P
for k in $(seq 0 $((N-1))); do git -C /repo worktree remove --force /tmp/mxl$k/repo 2>/dev/null; rm -rf /tmp/mxl$k; done
git -C /repo worktree prune
