#!/usr/bin/env bash
# tools/keep_seed.sh <ID> <a|b> : copy a verified seeded change into /verif/seeded/<ID><v>/
set -eu
ID="$1"; V="$2"; T="${3:-$2}"; O=/tmp/mut/$ID.out/$V; D=/verif/seeded/${ID}${T}
[ "$(jq -r .ok "$O/verified.json")" = true ] || { echo "$ID$V not verified"; exit 1; }
mkdir -p "$D"
cp "$O/patch.diff" "$O/demo.diff" "$D/"
jq -s '.[0] + {"verified_by_me": .[1], "what_i_ran": "tools/verify_seed.sh: in a scratch worktree applied demo only (demo must pass), demo+change (demo must fail), change only + `cargo test --workspace --no-fail-fast --offline` (all 654 must pass), `cargo build -p whirlpool --features verif`"}' "$O/meta.json" "$O/verified.json" > "$D/meta.json"
echo "kept $D"
