#!/usr/bin/env bash
# tools/verify_seed.sh <ID> <a|b>: independently confirm a seeded change in its scratch worktree /tmp/mut/<ID>:
#   demo fails with the change, passes without it, the repository's own suite still passes with the change.
# Result is written to /tmp/mut/<ID>.out/<v>/verified.json
set -u
ID="$1"; V="$2"; W=/tmp/mut/$ID; O=/tmp/mut/$ID.out/$V
cd "$W" || exit 9
git checkout -q -- . ; git clean -fdq -e target
demo_cmd=$(jq -r .demo_cmd "$O/meta.json" | sed -e "s|cd /tmp/mut/$ID *&& *||" -e 's/ 2>&1.*$//' -e 's/ *| *tail.*$//')
case "$demo_cmd" in cargo*) ;; *) echo "unusual demo_cmd: $demo_cmd";; esac
export CARGO_NET_OFFLINE=true
run_demo() { timeout 3000 bash -c "$demo_cmd" > "$1" 2>&1; echo $?; }
# 1. demo on the unmodified tree
git apply "$O/demo.diff" || { echo '{"ok":false,"why":"demo.diff does not apply"}' > "$O/verified.json"; exit 1; }
rc_without=$(run_demo "$O/v_demo_without.log")
# 2. demo with the change
git apply "$O/patch.diff" || { echo '{"ok":false,"why":"patch.diff does not apply"}' > "$O/verified.json"; exit 1; }
rc_with=$(run_demo "$O/v_demo_with.log")
# 3. the unedited suite with only the change
git checkout -q -- . ; git clean -fdq -e target
git apply "$O/patch.diff"
timeout 6000 cargo test --workspace --no-fail-fast --offline > "$O/v_suite_with.log" 2>&1; rc_suite=$?
passed=$(grep -E "^test result:" "$O/v_suite_with.log" | awk '{s+=$4} END{print s+0}')
failed=$(grep -E "^test result:" "$O/v_suite_with.log" | awk '{s+=$6} END{print s+0}')
# 4. builds with the hook feature on
cargo build --offline -p whirlpool --features verif > "$O/v_build_verif.log" 2>&1; rc_build=$?
git checkout -q -- . ; git clean -fdq -e target
ok=false
if [ "$rc_without" = 0 ] && [ "$rc_with" != 0 ] && [ "$rc_suite" = 0 ] && [ "$failed" = 0 ] && [ "$passed" -ge 654 ] && [ "$rc_build" = 0 ]; then ok=true; fi
printf '{"ok":%s,"demo_rc_without_change":%s,"demo_rc_with_change":%s,"suite_rc_with_change":%s,"suite_passed":%s,"suite_failed":%s,"build_verif_rc":%s,"demo_cmd":"%s"}\n' $ok "$rc_without" "$rc_with" "$rc_suite" "$passed" "$failed" "$rc_build" "$demo_cmd" > "$O/verified.json"
cat "$O/verified.json"
