#!/usr/bin/env python3
"""Regenerates /verif/MANIFEST.json from the table below (single source of truth)."""
import json, os, subprocess
ROOT = os.path.dirname(os.path.dirname(os.path.abspath(__file__)))
props = [json.loads(l) for l in open(os.path.join(ROOT, "properties.jsonl"))]
ids = [p["id"] for p in props]

# id -> (technique, level text, level note, design ref)
CHECKS = {
 "C02": ("runtime oracle on compute_swap: exact-rational reference monitor over randomized hostile inputs + in-situ swap-step hook records",
         "Every successful result of the real compute_swap on millions of generated inputs (all liquidity bit-lengths, boundary prices, segment-cost +-1 amounts) is compared with an exact big-integer model of the curve, the safe-side price rounding, budget consumption and the fee formula. Exploration: a sample of an astronomically large input space, biased to the boundaries the code branches on.",
         "trusts num-bigint and the harness oracle; native build (overflow-checks off) of the same sources, not the SBF binary; errors are unconstrained", "DESIGN.md#c02"),
 "C09": ("complete enumeration of all ticks + boundary prices, random interior sample, exact integer oracle",
         "The forward map is enumerated over all 887273 ticks (monotone, endpoints, per-step ratio within 2^-32 by exact integer inequality); the inverse is checked at every tick boundary, one unit either side, and on a dense random interior sample against a binary search in the forward table.",
         "interior prices are sampled; native build of the same sources", "DESIGN.md#c09"),
}
NOT_YET = "check under construction in this session (designed in DESIGN.md section 5); not claimed until it runs silent on the unchanged tree"

hook_commits = subprocess.run(["git", "-C", "/repo", "log", "--format=%H %s", "--grep=^verif hook"], capture_output=True, text=True).stdout.strip().splitlines()
m = {
 "version": 1,
 "setup_cmd": "./setup.sh",
 "hooks": {
   "guard": "cargo feature `verif` on crate `whirlpool` (programs/whirlpool/Cargo.toml)",
   "enable": "the harness workspace /verif/engine depends on /repo/programs/whirlpool by path with features=[\"verif\"]; every check runs `cargo build --release --offline` there, which recompiles whirlpool from /repo's working tree",
   "baseline_off_cmd": "cd /repo && cargo test --workspace --no-fail-fast --offline",
   "source_commits": [l.split()[0] for l in hook_commits][::-1],
   "add_only": True,
 },
 "engines": [
   {"name": "vcheck", "path": "engine/vcheck", "serves_properties": sorted(CHECKS.keys()),
    "kind_free_text": "Rust harness: native mini-SVM around whirlpool's real entrypoint, reference-model monitors, differential execution on cloned banks, exact big-integer oracles"},
 ],
 "checks": [],
 "not_applicable": [],
 "notes": "Technique family: runtime monitoring and sanitizers. Exit codes: 0 held on everything explored, 1 violation (VIOLATION line + replay file), 2 inconclusive (build failure / coverage floor / watchdog; never reported as violation). See DESIGN.md.",
}
for i in ids:
    if i in CHECKS:
        tech, text, note, ref = CHECKS[i]
        m["checks"].append({
          "property_id": i,
          "quick_cmd": f"./check {i} quick",
          "thorough_cmd": f"./check {i} thorough",
          "evidence_file": f"/verif/evidence/{i}.json",
          "replay_cmd_template": f"./check {i} --replay {{path}}",
          "engine": "vcheck",
          "level_claimed": {"category": "exploration", "text": text, "design_ref": ref},
          "level_note": note,
          "technique": tech,
        })
    else:
        m["not_applicable"].append({"property_id": i, "reason": NOT_YET})
json.dump(m, open(os.path.join(ROOT, "MANIFEST.json"), "w"), indent=1)
print("MANIFEST.json:", len(m["checks"]), "checks,", len(m["not_applicable"]), "not applicable")
