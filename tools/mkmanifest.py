#!/usr/bin/env python3
"""Regenerates /verif/MANIFEST.json from the table below (single source of truth)."""
import json, os, subprocess
ROOT = os.path.dirname(os.path.dirname(os.path.abspath(__file__)))
props = [json.loads(l) for l in open(os.path.join(ROOT, "properties.jsonl"))]
ids = [p["id"] for p in props]

# id -> (technique, level text, level note, design ref)
SVM = "trusts the harness: native mini-SVM (loader serialisation, CPI privilege and post-instruction account rules re-implemented from the runtime's rules), vendored host shims of pinocchio/solana-invoke/solana-cpi/anchor-lang/solana-msg (host branches only, diff checked at set-up), real spl-token/token-2022 processors; native build of the same sources (overflow-checks off), not the SBF binary; histories are sampled"
CHECKS = {
 "C01": ("runtime monitoring of the real instruction path: exact claim-vs-vault invariant after every instruction + differential drain on cloned state + trader-segment conservation monitor",
         "Seeded hostile histories (liquidity changes incl. reposition, swaps in both modes/directions with and without limits and with amounts that end exactly on a tick, two-hops, fee updates, collections, setters, lifecycle operations, clock) are executed through the program's real entrypoint in a native mini-SVM. After every successful instruction an exact big-integer oracle compares each vault with the sum of all claims decoded from the bank; at checkpoints the whole pool is drained on a clone in random order and every step must succeed; consecutive swaps of one signer never net a gain. The workload includes rewards (one in five paid in one of the pool's own tokens) with same-mint sibling vaults named in place of the right one, supplemental and read-only tick arrays, and a directed scenario collecting such a reward with the swap vault named as reward vault. Exploration: held on the executions observed.",
         SVM, "DESIGN.md#c01"),
 "C02": ("runtime oracle on compute_swap: exact-rational reference monitor over randomized hostile inputs (thorough: 24 000 of them additionally under Miri)",
         "Every successful result of the real compute_swap on millions of generated inputs (all liquidity bit-lengths, boundary prices, segment-cost +-1 amounts) is compared with an exact big-integer model of the curve, the safe-side price rounding, budget consumption and the fee formula. Exploration: a sample of an astronomically large input space, biased to the boundaries the code branches on.",
         "trusts num-bigint and the harness oracle; native build (overflow-checks off) of the same sources, not the SBF binary; errors are unconstrained", "DESIGN.md#c02"),
 "C03": ("runtime monitoring of every executed swap + differential re-execution on cloned state with thresholds x-1/x/x+1",
         "Every swap of the history workload (both token programs, v1/v2, all limit classes) is judged on observed balance deltas and pool prices; a third of the successful swaps are re-executed on clones of the pre-state with the slippage threshold one below, at and one above the realised amount, and only the permitted ones may succeed, byte-identically.",
         SVM, "DESIGN.md#c03"),
 "C04": ("fault enumeration at the transaction boundary: instruction catalogue x authority-variant table executed on cloned state",
         "Every privileged instruction (catalogue cross-checked against the program's `pub fn` list at run time) has a golden invocation that succeeds; then missing signature, foreign signer, one-bit-off keys, the authority of another config/pool/tier (alone and together with its own config / tier account), another position holder with their own token account, delegates with amount 0/1/2, empty token accounts, token accounts of other positions, delegate key without delegate signature, forged token accounts owned by non-token programs (random id and ids sharing a prefix / suffix with the token programs) are executed on clones; everything except the documented delegate-with-one-token must fail. The permission-less migration instruction, run unsigned on pools rewritten to the pre-migration layout, must leave every recorded authority as it was. The authority recorded at creation must be the designated one (not the rent payer). Hand-over: after each of the nine set-authority instructions has handed its role to a new key (and, for self-rotating roles, after the new holder has handed it on again), every setting instruction of the catalogue is re-run with the previous, the new and each former holder: a former holder is never accepted, the new holder is accepted for that role only, and no other role is disturbed.",
         SVM + "; the table of which slot is the authority is written in the harness from the property statement", "DESIGN.md#c04"),
 "C05": ("invariant monitor over decoded on-chain state after every instruction of hostile histories",
         "After every successful instruction of seeded histories the pool's liquidity, every tick's net/gross/initialized flag in every tick array (both encodings, harness-owned decoders) are recomputed from the Position accounts found by scanning the bank and compared; the workload includes Pinocchio repositions (also onto degenerate / inverted ranges, which must be refused), range resets, bundles and locks. Thorough adds the workload under an AddressSanitizer build.",
         SVM, "DESIGN.md#c05"),
 "C06": ("trace monitor: per-step swap records (verif hook) re-priced by an independent oracle and reconciled with balances, pool bookkeeping and the emitted event",
         "For every successful swap the hook's per-step records are checked against the fee formula and summed; the sums must equal what left the trader, what entered/left the vaults, the growth of protocol fees owed, the LP fee growth (per-step liquidity) and the Traded event; both legs of every two-hop get the same per-pool checks (a two-hop over one pool, should it ever go through, must have booked both computations; directed out-and-back scenario at an array edge); protocol fee collections must pay exactly the owed amounts and reset them. On transfer-fee pools the vault receives exactly curve amount + fee and, unless the trader's own exact-in amount was used up, the amount taken from the trader is the smallest one that delivers it.",
         SVM + "; per-step amounts are read from the hook inside the swap loop", "DESIGN.md#c06"),
 "C07": ("shadow-ledger monitor in exact arithmetic, independent of the program's accumulators, settled at every position update",
         "An exact ledger credits each position found in the bank with lp_fee*L_i/L_step for every in-range swap step; at every instruction that settles a position the credited fees must not exceed the ledger and may fall short only by the derived rounding bound. Fee accumulators are seeded anywhere in u128 (incl. just below wrap-around) on empty pools.",
         SVM + "; state seeding of fee_growth_global only on pools without positions or initialised ticks", "DESIGN.md#c07"),
 "C08": ("exact-arithmetic oracle on both implementations of the liquidity<->amount functions (function level) + balance-delta monitor and limit probes on cloned state for increase / decrease / by-amounts / reposition (instruction level)",
         "The Anchor and the Pinocchio token-delta functions are run on millions of generated (price, range, +-L) cases incl. price on a bound and the shifted-tick state and compared with exact ceil/floor amounts; the liquidity-from-maxima estimate is checked for fit and maximality; in the history workload every increase/decrease/by-amounts is reconciled with the exact amounts and token_max/token_min are probed at x-1/x/x+1 on clones. A third of the histories run over Token-2022 mints incl. transfer fees (up to 100%, pending fee changes): there the vault moves by exactly the statement's amounts, the owner pays at least / receives at most that, and a token that is not involved does not move.",
         SVM + "; tick prices come from the program's own conversion (decided by C09)", "DESIGN.md#c08"),
 "C09": ("complete enumeration of all ticks + boundary prices, random interior sample, exact integer oracle (thorough: a stride of the round trip additionally under Miri)",
         "The forward map is enumerated over all 887273 ticks (monotone, endpoints, per-step ratio within 2^-32 by exact integer inequality); the inverse is checked at every tick boundary, one unit either side, and on a dense random interior sample against a binary search in the forward table.",
         "interior prices are sampled; native build of the same sources", "DESIGN.md#c09"),
 "C10": ("trace monitor against a reference traversal of the decoded tick set + differential execution of the same swap under different packagings on cloned state",
         "For every successful swap the initialized ticks crossed (hook trace) must equal the initialized ticks of the decoded pre-state between start and end price, in order, once, with matching liquidity; every second swap is re-executed on clones under permuted / duplicated / supplemental / read-only-supplemental / only-named / transcoded / non-PDA / foreign-pool packagings: same set of arrays => byte-identical outcome, reduced set or read-only arrays => error or a success that still crosses exactly its path, foreign array (also hidden among supplemental arrays) => error. Merely named arrays whose address already holds lamports must behave like merely named ones. Fee and reward growth accumulators are seeded with arbitrary values.",
         SVM, "DESIGN.md#c10"),
 "C11": ("shadow-ledger monitor over intervals between reward-updating instructions, exact arithmetic; funding-threshold probes on cloned state",
         "Emissions x elapsed time are distributed by an exact ledger over the Position accounts in range during each interval; credited rewards must never exceed the ledger and fall short only by the derived bound; growth never moves without liquidity/initialisation/time; earlier timestamps fail; collection pays min(owed, vault); emission changes need a day of funding (probed at need and need-1) in the vault RECORDED for the reward, which a successful instruction must have named (rewards may be paid in one of the pool's own tokens, so the pool owns same-mint siblings).",
         SVM, "DESIGN.md#c11"),
 "C12": ("differential execution: Anchor pipeline vs Pinocchio pipeline on byte snapshots from running histories (function level) and Pinocchio route vs Anchor handlers on cloned banks (instruction level); sanitizer lanes: the function differential under Miri with full Stacked Borrows (quick and thorough), instruction-level smoke histories under Miri and the whole workload under an AddressSanitizer build (thorough)",
         "On reachable bytes of (whirlpool, position, tick arrays) with hostile liquidity deltas and timestamps both implementations must return the same result or error number, the same update structs, token amounts and resulting bytes of all four accounts; every increase/decrease(_v2) of the histories is additionally executed through the Anchor handlers on a clone and must end in an identical bank with identical event bytes; range validation of the two position implementations is compared as well. Position token accounts carry delegates (another user or the owner itself, amounts 0 / 1 / 2 / max) set and revoked through the real token programs.",
         SVM + "; the Anchor handlers are reached through the generated try_accounts + public handler + exit (the #[program] bodies of these instructions are unreachable!())", "DESIGN.md#c12"),
 "C13": ("exhaustive transition enumeration over a boundary slot set + random sequences, four implementations against an abstract model and a harness-owned decoder; sanitizer lanes: a slice of the same enumeration under Miri with full Stacked Borrows (quick: 16 of 64 parts, thorough: all), instruction-level smoke histories under Miri and the whole workload under an AddressSanitizer build (thorough)",
         "Every subset of the boundary slots {0,1,62,63,64,65,86,87} x every single update x the full query set is executed on Anchor fixed, Anchor dynamic, Pinocchio fixed and Pinocchio dynamic tick arrays and compared with an abstract slot map; the dynamic encoding is re-decoded by the harness after every update (bitmap, record sizes, used length, Anchor bytes == Pinocchio bytes); random sequences include fill-and-drain sweeps (array filled completely, then emptied); in situ, after every instruction of a liquidity-heavy history workload (re-initialisation attempts included) every tick-array account touched must be well formed, exactly 9988 / 148+112n bytes long, bitmap == tags, rent exempt.",
         "buffers sized like on-chain accounts plus realloc padding; bytes beyond the used length unconstrained; random part sampled", "DESIGN.md#c13"),
 "C14": ("trace monitor: independent re-statement of the adaptive-fee schedule applied to per-step hook records and oracle state before/after",
         "For every successful swap leg on adaptive-fee pools the expected reference (filter/decay/reset), the per-tick-group rate of every step, rate bounds, accumulator cap, stored accumulator, major-swap timestamp, control-factor-zero equivalence and the trade-enable gate are recomputed independently and compared; no instruction may change an oracle's trade-enable time or pool after creation (constants are updated during the histories).",
         SVM + "; major-swap threshold judged with a 2e-9 band on log price", "DESIGN.md#c14"),
 "C15": ("fault enumeration at the transaction boundary: every bound account slot x every same-kind account of another pool/mint/position/index/program, executed on cloned state",
         "For every fund-moving instruction a golden invocation succeeds; every slot the property binds to the named pool is then replaced by every other account of the same kind found in a world of six pools over shared and disjoint mints, two configs and reward vaults holding pool mints (plus pair substitutions position+token account - funded and empty foreign positions -, another config together with its own authority while an object of the original config stays, and two-hop pool duplication; supplemental tick arrays of swap_v2; byte-identical twins of token accounts / mints owned by look-alike non-token programs; attacker programs with look-alike ids whose CPI would succeed); each substitution must fail.",
         SVM + "; bound/free classification of slots written in the harness from the property statement", "DESIGN.md#c15"),
 "C16": ("exact oracle against the token program's own fee function on both implementations (function level, incl. a hostile-TLV differential against spl-token-2022's reader, also executed under Miri with full Stacked Borrows and under ASan) + balance/withheld-amount/event monitor on Token-2022 fee pools (instruction level)",
         "Anchor and Pinocchio fee-exclusion/inclusion functions are compared with spl-token-2022's TransferFee::calculate_fee over all fee configurations, epochs around the fee switch and hostile amounts (sum, minimality, round trip, equality of implementations); in histories on fee-bearing pools the vault must receive at least the curve input and pay exactly the curve output, requests must be minimal and within maxima, minima apply to what the owner receives, swap thresholds are probed on clones against what the trader actually receives / pays, and Traded / Liquidity events must equal the amounts moved and withheld; two_hop_swap_v2 and reposition_liquidity_v2 over fee-bearing mints are judged the same way (withheld amounts, minimal requests, thresholds against what the user receives / pays, LiquidityRepositioned event).",
         SVM + "; spl-token-2022 8.0.1 is the ground truth for withheld fees", "DESIGN.md#c16"),
 "C17": ("differential execution on cloned state: two-hop vs its two single swaps; negative generation (same pool, non-chaining legs); threshold probes",
         "Every successful two-hop of the histories is replayed on a clone as two single swaps with the intermediate amount measured at the vaults: pools, tick arrays, oracles, vaults byte-identical, trader deltas identical, intermediate balance untouched; hostile two-hops must fail; outer thresholds probed at x-1/x/x+1.",
         SVM, "DESIGN.md#c17"),
 "C18": ("lifecycle rule monitor over decoded pre/post states of every lifecycle instruction in hostile histories; differential against the same state unfrozen for lock semantics",
         "Open (all flavours, derived bounds), close, reset, reposition, lock, transfer-locked and bundle instructions are generated with valid and invalid parameters and judged by rules taken from the statement (token supply/authority, range validity and derived-bound resolution by an independent search, emptiness for close/reset, lock restrictions, bitmap == open bundled positions found in the bank). Directed scenarios: one bundle filled to all 256 indexes; three rewards with every subset emitting, a position earns, is emptied, paid out and re-ranged (all checkpoints of a re-ranged position are zero).",
         SVM + "; Metaplex CPI of *_with_metadata is a recording stub", "DESIGN.md#c18"),
 "C19": ("invariant sweep over all decoded settings/pool/oracle accounts after every instruction of histories and a setter storm + enumerated mint-admission lattice on cloned state",
         "Bounds are re-stated independently and checked on every Config, FeeTier, AdaptiveFeeTier, Whirlpool and Oracle account in the bank after each successful instruction, under a storm of initialize/set instructions with hostile arguments; every subset (size <= 2 quick / 3 thorough) of 24 Token-2022 extension type numbers x freeze authority x five badge states is written with the harness's TLV writer and run through all three creation paths with the mint in either position; everything the statement's allow-list forbids must fail, also for a pool's own mint offered as reward after its badge was removed; accumulator maxima are drawn around 2^32 / group size.",
         SVM + "; spl-token-2022's TLV reader defines which extensions a (possibly truncated) mint carries; only rejection is judged", "DESIGN.md#c19"),
 "C20": ("differential execution: the Rust core SDK linked next to the program - exhaustive tick table, hostile function inputs, and SDK quotes against swaps actually executed in hostile histories",
         "All 887273 ticks and every boundary price are compared; amount / next-price / liquidity-amount functions are compared on hostile inputs (values where the program succeeds, an SDK error where the program rejects as overflowing); every swap_v2 of the history workloads (static, adaptive incl. hour-long high-frequency bursts, transfer-fee pools) is re-judged without price limit on a clone and compared with swap_quote_by_input/output_token built from the decoded pre-state (the arrays of the path plus zero to three arrays behind the price, up to six): amounts, total fee, failure behaviour and slippage side; every successful increase/decrease of the same histories is compared with increase/decrease_liquidity_quote (estimates equal what the owner paid / received, transfer fees included); the SDK's transfer-fee apply / reverse-apply are compared with the program's conversions on a real mint account up to u64::MAX.",
         SVM + "; `ethnum` is not available offline - the SDK is compiled against a stand-in U256 with the same std-integer semantics; the TypeScript/WASM packaging is out of reach", "DESIGN.md#c20"),
}
NOT_YET = "check under construction in this session (designed in DESIGN.md section 5); not claimed until it runs silent on the unchanged tree"

hook_commits = subprocess.run(["git", "-C", "/repo", "log", "--format=%H %s", "--grep=^verif hook"], capture_output=True, text=True).stdout.strip().splitlines()
m = {
 "version": 1,
 "setup_cmd": "./setup.sh",
 "hooks": {
   "guard": "cargo feature `verif` on crate `whirlpool` (programs/whirlpool/Cargo.toml)",
   "enable": "the harness workspace /verif/engine depends on /repo/programs/whirlpool by path with features=[\"verif\"]; every check runs `cargo build --release --offline` there, which recompiles whirlpool from /repo's working tree",
   "baseline_off_cmd": "cd /repo && cargo test --workspace --no-fail-fast --offline",
   "source_commits": [l.split()[0] for l in hook_commits][::-1],
   "add_only": True,
 },
 "engines": [
   {"name": "vcheck", "path": "engine/vcheck", "serves_properties": sorted(k for k in CHECKS.keys() if k != "C20"),
    "kind_free_text": "Rust harness: native mini-SVM around whirlpool's real entrypoint, reference-model monitors, differential execution on cloned banks, exact big-integer oracles"},
   {"name": "sdkcheck", "path": "engine-sdk/sdkcheck", "serves_properties": ["C20"],
    "kind_free_text": "separate workspace linking rust-sdk/core (against the ethnum stand-in) next to the program and the vcheck library"},
 ],
 "checks": [],
 "not_applicable": [],
 "notes": "Technique family: runtime monitoring and sanitizers. Exit codes: 0 held on everything explored, 1 violation (VIOLATION line + replay file), 2 inconclusive (build failure / coverage floor / watchdog; never reported as violation). See DESIGN.md.",
}
for i in ids:
    if i in CHECKS:
        tech, text, note, ref = CHECKS[i]
        m["checks"].append({
          "property_id": i,
          "quick_cmd": f"./check {i} quick",
          "thorough_cmd": f"./check {i} thorough",
          "evidence_file": f"/verif/evidence/{i}.json",
          "replay_cmd_template": f"./check {i} --replay {{path}}",
          "engine": "sdkcheck" if i == "C20" else "vcheck",
          "level_claimed": {"category": "fault_enumeration" if i in ("C04", "C15") else "exploration", "text": text, "design_ref": ref},
          "level_note": note,
          "technique": tech,
        })
    else:
        m["not_applicable"].append({"property_id": i, "reason": NOT_YET})
json.dump(m, open(os.path.join(ROOT, "MANIFEST.json"), "w"), indent=1)
print("MANIFEST.json:", len(m["checks"]), "checks,", len(m["not_applicable"]), "not applicable")
