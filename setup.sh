#!/usr/bin/env bash
# offline set-up: verify the vendored host shims, build the engine
set -eu
cd "$(dirname "$0")"
export CARGO_NET_OFFLINE=true
./vendor/check_vendor.sh
(cd engine && cargo build --release --offline 2>&1 | tail -3)
(cd engine-sdk && cargo build --release --offline 2>&1 | tail -3)
echo "setup ok"
