//! Native mini-SVM: runs whirlpool's real `entrypoint(input)` against an in-memory bank.
//!
//! * accounts are serialised in the BPF loader's aligned input format;
//! * CPIs are dispatched to the real `spl_token`, `spl_token_2022`,
//!   `spl_associated_token_account`, `spl_memo` processors and a small System program;
//! * the post-instruction account rules of the Solana runtime are enforced frame by
//!   frame (lamport conservation, read-only accounts untouched, data written only by
//!   the owner, signer / writable privilege escalation at CPI boundaries);
//! * panics below the `extern "C"` entrypoint are contained: every transaction runs
//!   on a worker thread, the panic hook ships the message to the driver and parks the
//!   worker for ever, the driver spawns a new worker.
#![allow(clippy::missing_safety_doc)]
use solana_program::{
    account_info::AccountInfo,
    clock::Clock,
    entrypoint::ProgramResult,
    instruction::{AccountMeta, Instruction},
    program_error::ProgramError,
    program_stubs::{set_syscall_stubs, SyscallStubs},
    pubkey::Pubkey,
    rent::Rent,
    system_instruction::SystemInstruction,
    system_program,
};
use std::cell::RefCell;
use std::collections::BTreeMap;
use std::rc::Rc;
use std::sync::mpsc;
use std::sync::{Arc, Once};

extern "C" {
    fn entrypoint(input: *mut u8) -> u64;
}
// force the whirlpool rlib (which exports `entrypoint`) to be linked
use whirlpool as _;

pub const PAD: usize = 10240;
/// Metaplex token-metadata program id (no code available offline: stubbed, calls are recorded).
pub const METADATA_PROGRAM_ID: Pubkey =
    solana_program::pubkey!("metaqbxxUerdq28cj1RbAWkYQm3ybzjb6a8bt518x1s");

#[derive(Clone, Debug, Default, PartialEq, Eq)]
pub struct Acct {
    pub lamports: u64,
    pub data: Vec<u8>,
    pub owner: Pubkey,
    pub executable: bool,
}

#[derive(Clone, Default)]
pub struct Bank {
    pub accts: BTreeMap<Pubkey, Arc<Acct>>,
    pub clock: Clock,
}

#[derive(Clone, Debug, PartialEq, Eq)]
pub enum TxErr {
    /// Program returned this error code (`ProgramError` as u64).
    Code(u64),
    /// A CPI issued through a channel that cannot report errors (Pinocchio) failed.
    Cpi(u64),
    /// The program panicked (on chain: transaction failed).
    Panic(String),
    /// The runtime's post-instruction checks rejected the result.
    Runtime(String),
}

impl TxErr {
    /// Anchor / whirlpool custom error number, if this is a custom program error.
    pub fn custom(&self) -> Option<u32> {
        match self {
            TxErr::Code(c) | TxErr::Cpi(c) => {
                // ProgramError::Custom(x) encodes as x (if x != 0) ; builtin errors are (n << 32)
                if *c != 0 && *c < (1u64 << 32) {
                    Some(*c as u32)
                } else {
                    None
                }
            }
            _ => None,
        }
    }
}

#[derive(Clone, Debug)]
pub struct CpiRecord {
    pub depth: usize,
    pub caller: Pubkey,
    pub program: Pubkey,
    pub data: Vec<u8>,
    pub accounts: Vec<(Pubkey, bool, bool)>,
    pub pda_signers: Vec<Pubkey>,
    pub ok: bool,
}

#[derive(Clone, Debug, Default)]
pub struct TxOutcome {
    pub err: Option<TxErr>,
    pub logs: Vec<String>,
    /// `sol_log_data` payloads (Anchor `emit!`), first field of each call.
    pub events: Vec<Vec<u8>>,
    /// records pushed by the `verif` hooks inside whirlpool
    pub hook: Vec<whirlpool::verif::Event>,
    pub cpis: Vec<CpiRecord>,
    /// post-state of every account of the instruction (only when `err` is None)
    pub post: Vec<(Pubkey, Acct)>,
}
impl TxOutcome {
    pub fn ok(&self) -> bool {
        self.err.is_none()
    }
    pub fn custom(&self) -> Option<u32> {
        self.err.as_ref().and_then(|e| e.custom())
    }
}

// ------------------------------------------------------------------------------------
// per-transaction context (thread local, lives on the worker thread)
// ------------------------------------------------------------------------------------
#[derive(Clone)]
struct Slot {
    key: Pubkey,
    off_key: usize,
    off_owner: usize,
    off_lamports: usize,
    off_datalen: usize,
    off_data: usize,
    is_signer: bool,
    is_writable: bool,
    executable: bool,
}
struct TxCtx {
    store: Vec<u64>,
    base: *mut u8,
    slots: Vec<Slot>,
    prog_stack: Vec<Pubkey>,
    clock: Clock,
    logs: Vec<String>,
    events: Vec<Vec<u8>>,
    cpis: Vec<CpiRecord>,
    poisoned: Option<u64>,
    runtime_violation: Option<String>,
    ret: Option<(Pubkey, Vec<u8>)>,
    /// account states as of the last frame boundary (already verified)
    synced: Vec<Snap>,
    /// per frame: may the running program write slot i?
    frame_writable: Vec<Vec<bool>>,
}
thread_local! {
    /// set while a function under comparison runs inside `quiet_catch`: its panic is an outcome, not noise
    static QUIET: std::cell::Cell<bool> = const { std::cell::Cell::new(false) };
    /// clock seen by `Clock::get()` when a program function is called outside a transaction
    static AMBIENT_CLOCK: RefCell<Clock> = RefCell::new(Clock::default());
    static CTX: RefCell<Option<TxCtx>> = const { RefCell::new(None) };
    static REPLY: RefCell<Option<mpsc::Sender<Reply>>> = const { RefCell::new(None) };
}

fn with_ctx<R>(f: impl FnOnce(&mut TxCtx) -> R) -> R {
    CTX.with(|c| f(c.borrow_mut().as_mut().expect("svm: no tx context on this thread")))
}

struct Stubs;
impl SyscallStubs for Stubs {
    fn sol_log(&self, m: &str) {
        CTX.with(|c| {
            if let Some(c) = c.borrow_mut().as_mut() {
                c.logs.push(m.to_string())
            }
        });
    }
    fn sol_log_data(&self, fields: &[&[u8]]) {
        with_ctx(|c| {
            if let Some(f) = fields.first() {
                c.events.push(f.to_vec())
            }
        });
    }
    fn sol_log_compute_units(&self) {}
    fn sol_get_clock_sysvar(&self, var_addr: *mut u8) -> u64 {
        let clock = current_clock();
        unsafe { std::ptr::write_unaligned(var_addr as *mut Clock, clock) };
        0
    }
    fn sol_get_rent_sysvar(&self, var_addr: *mut u8) -> u64 {
        unsafe { std::ptr::write_unaligned(var_addr as *mut Rent, Rent::default()) };
        0
    }
    fn sol_invoke_signed(
        &self,
        ix: &Instruction,
        infos: &[AccountInfo],
        seeds: &[&[&[u8]]],
    ) -> ProgramResult {
        cpi_from_infos(ix, infos, seeds)
    }
    fn sol_set_return_data(&self, data: &[u8]) {
        with_ctx(|c| {
            let p = *c.prog_stack.last().unwrap();
            c.ret = Some((p, data.to_vec()));
        });
    }
    fn sol_get_return_data(&self) -> Option<(Pubkey, Vec<u8>)> {
        with_ctx(|c| c.ret.clone())
    }
    fn sol_get_stack_height(&self) -> u64 {
        with_ctx(|c| c.prog_stack.len() as u64)
    }
}

fn set_ret(d: &[u8]) {
    Stubs.sol_set_return_data(d)
}
fn get_ret() -> Option<(Pubkey, Vec<u8>)> {
    Stubs.sol_get_return_data()
}

#[derive(Clone)]
struct Snap {
    key: Pubkey,
    lamports: u64,
    owner: Pubkey,
    data: Vec<u8>,
    writable: bool,
    executable: bool,
}

fn snap_slots(c: &TxCtx) -> Vec<Snap> {
    c.slots
        .iter()
        .map(|s| unsafe {
            let lam = *(c.base.add(s.off_lamports) as *const u64);
            let dl = *(c.base.add(s.off_datalen) as *const u64) as usize;
            let owner = *(c.base.add(s.off_owner) as *const Pubkey);
            Snap {
                key: s.key,
                lamports: lam,
                owner,
                data: std::slice::from_raw_parts(c.base.add(s.off_data), dl).to_vec(),
                writable: s.is_writable,
                executable: s.executable,
            }
        })
        .collect()
}

/// Frame boundary (CPI entry, CPI exit, end of the top-level instruction): everything that
/// changed since the last boundary was done by `program`; check it against the runtime's
/// account rules, then make the current state the new verified baseline.
fn boundary(program: &Pubkey) -> Result<(), String> {
    with_ctx(|c| {
        let cur = snap_slots(c);
        let flags = c.frame_writable.last().cloned().unwrap_or_default();
        let r = verify_frame(program, &c.synced, &cur, &flags);
        c.synced = cur;
        r
    })
}

/// The Solana runtime's post-instruction account rules for the changes one program made.
fn verify_frame(program: &Pubkey, pre: &[Snap], post: &[Snap], writable: &[bool]) -> Result<(), String> {
    let mut sum_pre: u128 = 0;
    let mut sum_post: u128 = 0;
    for (i, (a, b)) in pre.iter().zip(post.iter()).enumerate() {
        debug_assert_eq!(a.key, b.key);
        sum_pre += a.lamports as u128;
        sum_post += b.lamports as u128;
        let data_changed = a.data != b.data;
        let owner_changed = a.owner != b.owner;
        let lamports_changed = a.lamports != b.lamports;
        if !(data_changed || owner_changed || lamports_changed) {
            continue;
        }
        let w = writable.get(i).copied().unwrap_or(false);
        if !w {
            return Err(format!(
                "ReadonlyModified: {} modified account {} that is not writable for it (data {} owner {} lamports {})",
                program, a.key, data_changed, owner_changed, lamports_changed
            ));
        }
        if a.executable {
            return Err(format!("ExecutableModified: {}", a.key));
        }
        if owner_changed {
            // only the owner may assign, and only when the data is zeroed
            if a.owner != *program {
                return Err(format!("ModifiedProgramId: {} assigned {} it does not own", program, a.key));
            }
            if b.data.iter().any(|x| *x != 0) {
                return Err(format!("ModifiedProgramId: {} assigned with non-zero data", a.key));
            }
        }
        if a.owner != *program {
            if b.lamports < a.lamports {
                return Err(format!(
                    "ExternalAccountLamportSpend: {} spent lamports of {} owned by {}",
                    program, a.key, a.owner
                ));
            }
            if data_changed {
                return Err(format!(
                    "ExternalAccountDataModified: {} changed data of {} owned by {}",
                    program, a.key, a.owner
                ));
            }
        }
    }
    if sum_pre != sum_post {
        return Err(format!("UnbalancedInstruction: {} lamports {} -> {}", program, sum_pre, sum_post));
    }
    Ok(())
}

fn cpi_from_infos(ix: &Instruction, infos: &[AccountInfo], seeds: &[&[&[u8]]]) -> ProgramResult {
    if with_ctx(|c| c.poisoned.is_some()) {
        return Err(ProgramError::InvalidAccountData);
    }
    let (caller, depth) = with_ctx(|c| (*c.prog_stack.last().unwrap(), c.prog_stack.len()));
    if depth >= 5 {
        return Err(ProgramError::InvalidArgument); // CallDepth
    }
    let mut pdas = vec![];
    for s in seeds {
        pdas.push(
            Pubkey::create_program_address(s, &caller).map_err(|_| ProgramError::InvalidSeeds)?,
        );
    }
    let mut callee_infos: Vec<AccountInfo> = vec![];
    let mut rec_accounts = vec![];
    for m0 in &ix.accounts {
        let mut m = m0.clone();
        // the runtime merges the privileges of duplicate metas
        for o in &ix.accounts {
            if o.pubkey == m.pubkey {
                m.is_signer |= o.is_signer;
                m.is_writable |= o.is_writable;
            }
        }
        let src = infos
            .iter()
            .find(|i| i.key == &m.pubkey)
            .ok_or(ProgramError::NotEnoughAccountKeys)?;
        // privilege escalation checks (caller privileges are OR-ed over duplicates too)
        let caller_signer = infos.iter().any(|i| i.key == &m.pubkey && i.is_signer);
        let caller_writable = infos.iter().any(|i| i.key == &m.pubkey && i.is_writable);
        if m.is_signer && !(caller_signer || pdas.contains(&m.pubkey)) {
            return Err(ProgramError::MissingRequiredSignature); // PrivilegeEscalation
        }
        if m.is_writable && !caller_writable {
            return Err(ProgramError::InvalidArgument); // PrivilegeEscalation
        }
        let mut a = src.clone();
        a.is_signer = m.is_signer;
        a.is_writable = m.is_writable;
        rec_accounts.push((m.pubkey, m.is_signer, m.is_writable));
        callee_infos.push(a);
    }
    // changes the caller made so far are judged against the caller
    if let Err(m) = boundary(&caller) {
        with_ctx(|c| c.runtime_violation = Some(format!("{m} (before CPI to {})", ix.program_id)));
        return Err(ProgramError::InvalidAccountData);
    }
    let flags: Vec<bool> = with_ctx(|c| {
        c.slots
            .iter()
            .map(|s| rec_accounts.iter().any(|(k, _, w)| *k == s.key && *w))
            .collect()
    });
    with_ctx(|c| c.frame_writable.push(flags));
    let r = dispatch(&ix.program_id, &callee_infos, &ix.data);
    let r = match r {
        Ok(()) => match boundary(&ix.program_id) {
            Ok(()) => Ok(()),
            Err(m) => {
                with_ctx(|c| c.runtime_violation = Some(format!("cpi frame: {m}")));
                Err(ProgramError::InvalidAccountData)
            }
        },
        e => e,
    };
    with_ctx(|c| {
        c.frame_writable.pop();
    });
    with_ctx(|c| {
        c.cpis.push(CpiRecord {
            depth,
            caller,
            program: ix.program_id,
            data: ix.data.clone(),
            accounts: rec_accounts,
            pda_signers: pdas,
            ok: r.is_ok(),
        })
    });
    r
}

/// Program ids that stand for an attacker's own deployed program: a CPI into one of them "succeeds" without
/// doing anything (what a hostile program given writable accounts and PDA signatures would at least do).
/// Process-wide (transactions run on worker threads); ids are fresh random keys, so shards cannot collide.
static ROGUE_PROGRAMS: std::sync::Mutex<Vec<Pubkey>> = std::sync::Mutex::new(Vec::new());
pub fn register_rogue_program(id: Pubkey) {
    ROGUE_PROGRAMS.lock().unwrap().push(id);
}

fn dispatch(program_id: &Pubkey, infos: &[AccountInfo], data: &[u8]) -> ProgramResult {
    with_ctx(|c| {
        c.prog_stack.push(*program_id);
        c.ret = None;
    });
    let r = if *program_id == system_program::ID {
        system_process(infos, data)
    } else if *program_id == spl_token::ID {
        spl_token::processor::Processor::process(program_id, infos, data)
    } else if *program_id == spl_token_2022::ID {
        spl_token_2022::processor::Processor::process(program_id, infos, data)
    } else if *program_id == spl_associated_token_account::ID {
        spl_associated_token_account::processor::process_instruction(program_id, infos, data)
    } else if *program_id == spl_memo::ID {
        spl_memo::processor::process_instruction(program_id, infos, data)
    } else if *program_id == METADATA_PROGRAM_ID {
        Ok(()) // recording stub (see DESIGN.md section 6)
    } else if ROGUE_PROGRAMS.lock().unwrap().contains(program_id) {
        Ok(())
    } else {
        Err(ProgramError::IncorrectProgramId)
    };
    with_ctx(|c| c.prog_stack.pop());
    r
}

fn system_process(infos: &[AccountInfo], data: &[u8]) -> ProgramResult {
    let ix: SystemInstruction =
        bincode::deserialize(data).map_err(|_| ProgramError::InvalidInstructionData)?;
    match ix {
        SystemInstruction::CreateAccount { lamports, space, owner } => {
            if infos.len() < 2 {
                return Err(ProgramError::NotEnoughAccountKeys);
            }
            let from = &infos[0];
            let to = &infos[1];
            if !from.is_signer || !to.is_signer {
                return Err(ProgramError::MissingRequiredSignature);
            }
            if to.lamports() > 0 || !to.data_is_empty() || *to.owner != system_program::ID {
                return Err(ProgramError::AccountAlreadyInitialized);
            }
            if space > 10 * 1024 * 1024 {
                return Err(ProgramError::InvalidRealloc);
            }
            if !from.data_is_empty() {
                return Err(ProgramError::InvalidArgument);
            }
            if from.lamports() < lamports {
                return Err(ProgramError::InsufficientFunds);
            }
            **from.lamports.borrow_mut() -= lamports;
            **to.lamports.borrow_mut() += lamports;
            to.realloc(space as usize, true)?;
            to.assign(&owner);
            Ok(())
        }
        SystemInstruction::Transfer { lamports } => {
            if infos.len() < 2 {
                return Err(ProgramError::NotEnoughAccountKeys);
            }
            let from = &infos[0];
            let to = &infos[1];
            if !from.is_signer {
                return Err(ProgramError::MissingRequiredSignature);
            }
            if !from.data_is_empty() || *from.owner != system_program::ID {
                return Err(ProgramError::InvalidArgument);
            }
            if from.lamports() < lamports {
                return Err(ProgramError::InsufficientFunds);
            }
            if from.key == to.key {
                return Ok(());
            }
            **from.lamports.borrow_mut() -= lamports;
            **to.lamports.borrow_mut() += lamports;
            Ok(())
        }
        SystemInstruction::Allocate { space } => {
            let a = infos.first().ok_or(ProgramError::NotEnoughAccountKeys)?;
            if !a.is_signer {
                return Err(ProgramError::MissingRequiredSignature);
            }
            if !a.data_is_empty() || *a.owner != system_program::ID {
                return Err(ProgramError::AccountAlreadyInitialized);
            }
            a.realloc(space as usize, true)
        }
        SystemInstruction::Assign { owner } => {
            let a = infos.first().ok_or(ProgramError::NotEnoughAccountKeys)?;
            if *a.owner == owner {
                return Ok(());
            }
            if !a.is_signer {
                return Err(ProgramError::MissingRequiredSignature);
            }
            if *a.owner != system_program::ID {
                return Err(ProgramError::InvalidArgument);
            }
            a.assign(&owner);
            Ok(())
        }
        _ => Err(ProgramError::InvalidInstructionData),
    }
}

// ---- Pinocchio-side CPI (host shim in the vendored pinocchio crate) ----
unsafe fn pino_invoke(
    ix: &pinocchio::instruction::Instruction,
    _accounts: &[pinocchio::instruction::Account],
    signers: &[pinocchio::instruction::Signer],
) {
    if with_ctx(|c| c.poisoned.is_some()) {
        return;
    }
    let program_id = Pubkey::new_from_array(*ix.program_id);
    let metas: Vec<AccountMeta> = ix
        .accounts
        .iter()
        .map(|m| AccountMeta {
            pubkey: Pubkey::new_from_array(*m.pubkey),
            is_signer: m.is_signer,
            is_writable: m.is_writable,
        })
        .collect();
    let sol_ix = Instruction { program_id, accounts: metas, data: ix.data.to_vec() };
    let mut seed_store: Vec<Vec<Vec<u8>>> = vec![];
    for s in signers {
        let (p, n) = pinocchio::host::signer_parts(s);
        let seeds = std::slice::from_raw_parts(p, n as usize);
        let mut v = vec![];
        for sd in seeds {
            let (sp, sl) = pinocchio::host::seed_parts(sd);
            v.push(std::slice::from_raw_parts(sp, sl as usize).to_vec());
        }
        seed_store.push(v);
    }
    let seed_refs: Vec<Vec<&[u8]>> =
        seed_store.iter().map(|v| v.iter().map(|x| &x[..]).collect()).collect();
    let seed_refs2: Vec<&[&[u8]]> = seed_refs.iter().map(|v| &v[..]).collect();
    let infos = infos_from_ctx();
    if let Err(e) = cpi_from_infos(&sol_ix, &infos, &seed_refs2) {
        // Pinocchio's `invoke_signed_unchecked` cannot report an error: on chain the
        // failed CPI aborts the transaction. Here the transaction is marked failed, every
        // later CPI is skipped and whatever the program does next is discarded.
        with_ctx(|c| {
            if c.poisoned.is_none() {
                c.poisoned = Some(u64::from(e))
            }
        });
    }
}

fn infos_from_ctx() -> Vec<AccountInfo<'static>> {
    with_ctx(|c| {
        let mut v = vec![];
        for s in &c.slots {
            unsafe {
                let key = &*(c.base.add(s.off_key) as *const Pubkey);
                let owner = &*(c.base.add(s.off_owner) as *const Pubkey);
                let lam = &mut *(c.base.add(s.off_lamports) as *mut u64);
                let dl = *(c.base.add(s.off_datalen) as *const u64) as usize;
                let data = std::slice::from_raw_parts_mut(c.base.add(s.off_data), dl);
                v.push(AccountInfo {
                    key,
                    is_signer: s.is_signer,
                    is_writable: s.is_writable,
                    lamports: Rc::new(RefCell::new(lam)),
                    data: Rc::new(RefCell::new(data)),
                    owner,
                    executable: s.executable,
                    rent_epoch: 0,
                });
            }
        }
        v
    })
}

unsafe fn pino_clock(addr: *mut u8) -> u64 {
    std::ptr::write_unaligned(addr as *mut Clock, current_clock());
    0
}

fn current_clock() -> Clock {
    CTX.with(|c| c.borrow().as_ref().map(|c| c.clock.clone())).unwrap_or_else(|| AMBIENT_CLOCK.with(|a| a.borrow().clone()))
}

/// Run `f`, turning a panic into `Err(message)` without printing it (function-level differentials).
pub fn quiet_catch<T>(f: impl FnOnce() -> T) -> Result<T, String> {
    init();
    QUIET.with(|q| q.set(true));
    let r = std::panic::catch_unwind(std::panic::AssertUnwindSafe(f));
    QUIET.with(|q| q.set(false));
    r.map_err(|e| e.downcast_ref::<String>().cloned().or_else(|| e.downcast_ref::<&str>().map(|s| s.to_string())).unwrap_or_else(|| "panic".into()))
}

/// Clock for function-level calls made outside a transaction on this thread.
pub fn set_ambient_clock(clock: Clock) {
    init();
    AMBIENT_CLOCK.with(|a| *a.borrow_mut() = clock);
}

/// One account in the BPF loader's input format (for building Pinocchio `AccountInfo`s by hand).
/// Returns the 8-aligned buffer; `pinocchio::entrypoint::deserialize` parses it.
pub fn loader_buffer(accounts: &[(Pubkey, Acct, bool, bool)]) -> Vec<u64> {
    let mut buf: Vec<u8> = vec![];
    buf.extend_from_slice(&(accounts.len() as u64).to_le_bytes());
    for (k, a, s, w) in accounts {
        buf.push(0xff);
        buf.push(*s as u8);
        buf.push(*w as u8);
        buf.push(a.executable as u8);
        buf.extend_from_slice(&[0u8; 4]);
        buf.extend_from_slice(k.as_ref());
        buf.extend_from_slice(a.owner.as_ref());
        buf.extend_from_slice(&a.lamports.to_le_bytes());
        buf.extend_from_slice(&(a.data.len() as u64).to_le_bytes());
        buf.extend_from_slice(&a.data);
        buf.resize(buf.len() + PAD, 0);
        while buf.len() % 8 != 0 {
            buf.push(0);
        }
        buf.extend_from_slice(&0u64.to_le_bytes());
    }
    buf.extend_from_slice(&0u64.to_le_bytes()); // instruction data length
    buf.extend_from_slice(whirlpool::ID.as_ref());
    let mut store: Vec<u64> = vec![0; buf.len() / 8 + 2];
    unsafe { std::ptr::copy_nonoverlapping(buf.as_ptr(), store.as_mut_ptr() as *mut u8, buf.len()) };
    store
}
unsafe fn pino_rent(addr: *mut u8) -> u64 {
    std::ptr::write_unaligned(addr as *mut Rent, Rent::default());
    0
}

/// The Anchor implementation of the four liquidity instructions whose `#[program]` bodies are
/// `unreachable!()` (the live route is the Pinocchio table): accounts are validated with the
/// generated `try_accounts`, the public Anchor handler is called and `exit` persists the accounts,
/// exactly as Anchor's generated dispatcher would. Everything else goes to `whirlpool::entry`.
fn anchor_dispatch<'info>(program_id: &Pubkey, accounts: &'info [AccountInfo<'info>], data: &[u8]) -> ProgramResult {
    use anchor_lang::{context::Context, Accounts, AccountsExit, AnchorDeserialize, Bumps, Discriminator};
    use whirlpool::instruction as wi;
    use whirlpool::instructions::increase_liquidity::ModifyLiquidity;
    use whirlpool::instructions::v2::increase_liquidity::ModifyLiquidityV2;
    if data.len() < 8 {
        return whirlpool::entry(program_id, accounts, data);
    }
    let disc = &data[..8];
    let mut args = &data[8..];
    let conv = |e: anchor_lang::error::Error| -> ProgramError { e.into() };
    let mut reallocs = std::collections::BTreeSet::new();
    let mut rem: &'info [AccountInfo<'info>] = accounts;
    if disc == wi::IncreaseLiquidity::DISCRIMINATOR || disc == wi::DecreaseLiquidity::DISCRIMINATOR {
        let mut bumps = <ModifyLiquidity as Bumps>::Bumps::default();
        let mut accs = ModifyLiquidity::try_accounts(program_id, &mut rem, &data[8..], &mut bumps, &mut reallocs).map_err(conv)?;
        if disc == wi::IncreaseLiquidity::DISCRIMINATOR {
            let a = wi::IncreaseLiquidity::deserialize(&mut args).map_err(|_| ProgramError::InvalidInstructionData)?;
            whirlpool::instructions::increase_liquidity::handler(Context::new(program_id, &mut accs, rem, bumps), a.liquidity_amount, a.token_max_a, a.token_max_b).map_err(conv)?;
        } else {
            let a = wi::DecreaseLiquidity::deserialize(&mut args).map_err(|_| ProgramError::InvalidInstructionData)?;
            whirlpool::instructions::decrease_liquidity::handler(Context::new(program_id, &mut accs, rem, bumps), a.liquidity_amount, a.token_min_a, a.token_min_b).map_err(conv)?;
        }
        return accs.exit(program_id).map_err(conv);
    }
    if disc == wi::IncreaseLiquidityV2::DISCRIMINATOR || disc == wi::DecreaseLiquidityV2::DISCRIMINATOR {
        let mut bumps = <ModifyLiquidityV2 as Bumps>::Bumps::default();
        let mut accs = ModifyLiquidityV2::try_accounts(program_id, &mut rem, &data[8..], &mut bumps, &mut reallocs).map_err(conv)?;
        if disc == wi::IncreaseLiquidityV2::DISCRIMINATOR {
            let a = wi::IncreaseLiquidityV2::deserialize(&mut args).map_err(|_| ProgramError::InvalidInstructionData)?;
            whirlpool::instructions::v2::increase_liquidity::handler(Context::new(program_id, &mut accs, rem, bumps), a.liquidity_amount, a.token_max_a, a.token_max_b, a.remaining_accounts_info).map_err(conv)?;
        } else {
            let a = wi::DecreaseLiquidityV2::deserialize(&mut args).map_err(|_| ProgramError::InvalidInstructionData)?;
            whirlpool::instructions::v2::decrease_liquidity::handler(Context::new(program_id, &mut accs, rem, bumps), a.liquidity_amount, a.token_min_a, a.token_min_b, a.remaining_accounts_info).map_err(conv)?;
        }
        return accs.exit(program_id).map_err(conv);
    }
    whirlpool::entry(program_id, accounts, data)
}

static INIT: Once = Once::new();

/// Install the syscall stubs, host CPI handlers and the containing panic hook (idempotent).
pub fn init() {
    INIT.call_once(|| {
        set_syscall_stubs(Box::new(Stubs));
        pinocchio::host::set_invoke_signed(pino_invoke);
        solana_invoke::host::set_invoke_signed(cpi_from_infos);
        solana_msg::host::set_log(|m| Stubs.sol_log(m));
        solana_cpi::host::set_handlers(cpi_from_infos, set_ret, get_ret);
        pinocchio::host::set_clock(pino_clock);
        pinocchio::host::set_rent(pino_rent);
        let default_hook = std::panic::take_hook();
        std::panic::set_hook(Box::new(move |info| {
            let sender = REPLY.with(|r| r.borrow_mut().take());
            if let Some(s) = sender {
                let msg = format!("{info}");
                let ctx = CTX.with(|c| c.borrow_mut().take());
                let (logs, cpis) = match ctx {
                    Some(mut c) => {
                        c.store = vec![];
                        (std::mem::take(&mut c.logs), std::mem::take(&mut c.cpis))
                    }
                    None => (vec![], vec![]),
                };
                let _ = whirlpool::verif::take();
                let _ = s.send(Reply { panicked: Some(msg), code: u64::MAX, logs, cpis, ..Default::default() });
                drop(s);
                loop {
                    std::thread::park();
                }
            }
            if QUIET.with(|q| q.get()) {
                return;
            }
            default_hook(info);
        }));
    });
}

// ------------------------------------------------------------------------------------
// worker protocol
// ------------------------------------------------------------------------------------
struct Job {
    program_id: Pubkey,
    /// unique accounts in first-appearance order with merged flags
    uniq: Vec<(Pubkey, bool, bool, Arc<Acct>)>,
    /// for every instruction account position, index into `uniq`
    order: Vec<usize>,
    data: Vec<u8>,
    clock: Clock,
    /// run whirlpool through its public Anchor dispatcher `whirlpool::entry` instead of `entrypoint`
    anchor_route: bool,
    reply: mpsc::Sender<Reply>,
}

#[derive(Default)]
struct Reply {
    panicked: Option<String>,
    code: u64,
    poisoned: Option<u64>,
    runtime_violation: Option<String>,
    logs: Vec<String>,
    events: Vec<Vec<u8>>,
    hook: Vec<whirlpool::verif::Event>,
    cpis: Vec<CpiRecord>,
    post: Vec<(Pubkey, Acct)>,
}

fn run_job(job: Job) {
    let Job { program_id, uniq, order, data, clock, anchor_route, reply } = job;
    REPLY.with(|r| *r.borrow_mut() = Some(reply.clone()));
    // serialise
    let mut buf: Vec<u8> = Vec::with_capacity(64 * 1024);
    let mut slots: Vec<Slot> = vec![];
    buf.extend_from_slice(&(order.len() as u64).to_le_bytes());
    let mut first_pos: Vec<Option<usize>> = vec![None; uniq.len()];
    for (pos, &ui) in order.iter().enumerate() {
        if let Some(fp) = first_pos[ui] {
            buf.push(fp as u8);
            buf.extend_from_slice(&[0u8; 7]);
            continue;
        }
        first_pos[ui] = Some(pos);
        let (k, s, w, a) = &uniq[ui];
        buf.push(0xff);
        buf.push(*s as u8);
        buf.push(*w as u8);
        buf.push(a.executable as u8);
        buf.extend_from_slice(&[0u8; 4]);
        let off_key = buf.len();
        buf.extend_from_slice(k.as_ref());
        let off_owner = buf.len();
        buf.extend_from_slice(a.owner.as_ref());
        let off_lamports = buf.len();
        buf.extend_from_slice(&a.lamports.to_le_bytes());
        let off_datalen = buf.len();
        buf.extend_from_slice(&(a.data.len() as u64).to_le_bytes());
        let off_data = buf.len();
        buf.extend_from_slice(&a.data);
        buf.resize(buf.len() + PAD, 0);
        while buf.len() % 8 != 0 {
            buf.push(0);
        }
        buf.extend_from_slice(&0u64.to_le_bytes()); // rent epoch
        slots.push(Slot {
            key: *k,
            off_key,
            off_owner,
            off_lamports,
            off_datalen,
            off_data,
            is_signer: *s,
            is_writable: *w,
            executable: a.executable,
        });
    }
    buf.extend_from_slice(&(data.len() as u64).to_le_bytes());
    buf.extend_from_slice(&data);
    buf.extend_from_slice(program_id.as_ref());
    let mut store: Vec<u64> = vec![0; buf.len() / 8 + 2];
    let base = store.as_mut_ptr() as *mut u8;
    unsafe { std::ptr::copy_nonoverlapping(buf.as_ptr(), base, buf.len()) };
    drop(buf);

    // slots are in first-appearance order, exactly like `uniq`
    let pre: Vec<Snap> = slots
        .iter()
        .zip(uniq.iter())
        .map(|(s, u)| Snap {
            key: s.key,
            lamports: u.3.lamports,
            owner: u.3.owner,
            data: u.3.data.clone(),
            writable: s.is_writable,
            executable: s.executable,
        })
        .collect();

    let top_flags: Vec<bool> = slots.iter().map(|s| s.is_writable).collect();
    CTX.with(|c| {
        *c.borrow_mut() = Some(TxCtx {
            store,
            base,
            slots,
            prog_stack: vec![program_id],
            clock,
            logs: vec![],
            events: vec![],
            cpis: vec![],
            poisoned: None,
            runtime_violation: None,
            ret: None,
            synced: pre.clone(),
            frame_writable: vec![top_flags],
        })
    });
    whirlpool::verif::start();
    let code = if program_id == whirlpool::ID && anchor_route {
        let (pid, accounts, data) = unsafe { solana_program::entrypoint::deserialize(base) };
        match anchor_dispatch(pid, &accounts, data) {
            Ok(()) => 0,
            Err(e) => u64::from(e),
        }
    } else if program_id == whirlpool::ID {
        unsafe { entrypoint(base) }
    } else {
        // any other program (token programs, system) as a top-level instruction: set-up traffic
        let (pid, accounts, data) = unsafe { solana_program::entrypoint::deserialize(base) };
        with_ctx(|c| c.prog_stack.clear());
        match dispatch(pid, &accounts, data) {
            Ok(()) => 0,
            Err(e) => u64::from(e),
        }
    };
    let hook = whirlpool::verif::take();
    let final_check = if code == 0 { boundary(&program_id) } else { Ok(()) };
    let ctx = CTX.with(|c| c.borrow_mut().take().unwrap());
    let mut rep = Reply {
        panicked: None,
        code,
        poisoned: ctx.poisoned,
        runtime_violation: ctx.runtime_violation.clone(),
        logs: ctx.logs,
        events: ctx.events,
        hook,
        cpis: ctx.cpis,
        post: vec![],
    };
    if code == 0 && rep.poisoned.is_none() && rep.runtime_violation.is_none() {
        let mut post_snaps = vec![];
        for s in &ctx.slots {
            unsafe {
                let lam = *(ctx.base.add(s.off_lamports) as *const u64);
                let dl = *(ctx.base.add(s.off_datalen) as *const u64) as usize;
                let owner = *(ctx.base.add(s.off_owner) as *const Pubkey);
                let data = std::slice::from_raw_parts(ctx.base.add(s.off_data), dl).to_vec();
                post_snaps.push(Snap {
                    key: s.key,
                    lamports: lam,
                    owner,
                    data,
                    writable: s.is_writable,
                    executable: s.executable,
                });
            }
        }
        match final_check {
            Err(m) => rep.runtime_violation = Some(m),
            Ok(()) => {
                // rent state transition rule
                let rent = Rent::default();
                for (a, b) in pre.iter().zip(post_snaps.iter()) {
                    if b.lamports == 0 {
                        continue;
                    }
                    let changed = a.lamports != b.lamports || a.data.len() != b.data.len();
                    if changed && b.lamports < rent.minimum_balance(b.data.len()) {
                        let was_paying = a.lamports > 0
                            && a.lamports < rent.minimum_balance(a.data.len())
                            && a.data.len() == b.data.len()
                            && b.lamports <= a.lamports;
                        if !was_paying {
                            rep.runtime_violation = Some(format!(
                                "InsufficientFundsForRent: {} has {} lamports for {} bytes",
                                b.key,
                                b.lamports,
                                b.data.len()
                            ));
                        }
                    }
                }
                rep.post = post_snaps
                    .into_iter()
                    .map(|s| {
                        (
                            s.key,
                            Acct { lamports: s.lamports, data: s.data, owner: s.owner, executable: s.executable },
                        )
                    })
                    .collect();
            }
        }
    }
    drop(ctx.store);
    REPLY.with(|r| *r.borrow_mut() = None);
    let _ = reply.send(rep);
}

/// Handle to a worker thread that executes transactions.
pub struct Svm {
    tx: Option<mpsc::Sender<Job>>,
    pub executed: u64,
    pub panics: u64,
}

impl Default for Svm {
    fn default() -> Self {
        Self::new()
    }
}

impl Svm {
    pub fn new() -> Svm {
        init();
        Svm { tx: None, executed: 0, panics: 0 }
    }
    fn worker(&mut self) -> mpsc::Sender<Job> {
        if self.tx.is_none() {
            let (tx, rx) = mpsc::channel::<Job>();
            std::thread::Builder::new()
                .name("svm-worker".into())
                .stack_size(16 << 20)
                .spawn(move || {
                    while let Ok(job) = rx.recv() {
                        run_job(job);
                    }
                })
                .expect("spawn svm worker");
            self.tx = Some(tx);
        }
        self.tx.clone().unwrap()
    }

    /// Execute one instruction as its own transaction against `bank` without committing.
    pub fn simulate(&mut self, bank: &Bank, ix: &Instruction, signers: &[Pubkey]) -> TxOutcome {
        self.simulate_route(bank, ix, signers, false)
    }

    /// Like `simulate`; with `anchor_route` the instruction is dispatched through the public
    /// `whirlpool::entry` (Anchor) instead of the program's `entrypoint` (Pinocchio table first).
    pub fn simulate_route(&mut self, bank: &Bank, ix: &Instruction, signers: &[Pubkey], anchor_route: bool) -> TxOutcome {
        let mut uniq: Vec<(Pubkey, bool, bool, Arc<Acct>)> = vec![];
        let mut order: Vec<usize> = vec![];
        for m in &ix.accounts {
            if let Some(i) = uniq.iter().position(|u| u.0 == m.pubkey) {
                uniq[i].1 |= m.is_signer;
                uniq[i].2 |= m.is_writable;
                order.push(i);
            } else {
                let a = bank.accts.get(&m.pubkey).cloned().unwrap_or_else(|| {
                    Arc::new(Acct { owner: system_program::ID, ..Default::default() })
                });
                uniq.push((m.pubkey, m.is_signer, m.is_writable, a));
                order.push(uniq.len() - 1);
            }
        }
        for u in &uniq {
            if u.1 && !signers.contains(&u.0) {
                return TxOutcome {
                    err: Some(TxErr::Runtime(format!("SignatureMissing: {} flagged signer without signature", u.0))),
                    ..Default::default()
                };
            }
        }
        if uniq.len() > 64 || order.len() > 255 {
            return TxOutcome { err: Some(TxErr::Runtime("TooManyAccounts".into())), ..Default::default() };
        }
        let (rtx, rrx) = mpsc::channel();
        let job = Job {
            program_id: ix.program_id,
            uniq,
            order,
            data: ix.data.clone(),
            clock: bank.clock.clone(),
            anchor_route,
            reply: rtx,
        };
        let w = self.worker();
        w.send(job).expect("svm worker gone");
        let rep = rrx.recv().expect("svm worker died without reply");
        self.executed += 1;
        let mut out = TxOutcome {
            err: None,
            logs: rep.logs,
            events: rep.events,
            hook: rep.hook,
            cpis: rep.cpis,
            post: rep.post,
        };
        if let Some(m) = rep.panicked {
            self.panics += 1;
            self.tx = None; // that worker is parked for ever
            out.err = Some(TxErr::Panic(m));
        } else if let Some(v) = rep.runtime_violation {
            out.err = Some(TxErr::Runtime(v));
        } else if let Some(p) = rep.poisoned {
            out.err = Some(TxErr::Cpi(p));
        } else if rep.code != 0 {
            out.err = Some(TxErr::Code(rep.code));
        }
        if out.err.is_some() {
            out.post.clear();
        }
        out
    }

    /// Execute and, on success, commit into `bank`.
    pub fn process(&mut self, bank: &mut Bank, ix: &Instruction, signers: &[Pubkey]) -> TxOutcome {
        let out = self.simulate(bank, ix, signers);
        if out.ok() {
            bank.commit(&out);
        }
        out
    }
}

impl Bank {
    pub fn new(ts: i64) -> Bank {
        let mut b = Bank::default();
        b.clock.unix_timestamp = ts;
        b.clock.slot = 1000;
        b.clock.epoch = 10;
        for id in [
            system_program::ID,
            spl_token::ID,
            spl_token_2022::ID,
            spl_memo::ID,
            spl_associated_token_account::ID,
            whirlpool::ID,
            METADATA_PROGRAM_ID,
        ] {
            b.set(
                id,
                Acct {
                    lamports: 1,
                    executable: true,
                    owner: solana_program::bpf_loader::ID,
                    data: vec![],
                },
            );
        }
        b.set(
            solana_program::sysvar::rent::ID,
            Acct {
                lamports: 1,
                owner: solana_program::sysvar::ID,
                data: bincode::serialize(&Rent::default()).unwrap(),
                executable: false,
            },
        );
        b
    }
    pub fn set(&mut self, k: Pubkey, a: Acct) {
        self.accts.insert(k, Arc::new(a));
    }
    pub fn get(&self, k: &Pubkey) -> Option<&Acct> {
        self.accts.get(k).map(|a| a.as_ref())
    }
    pub fn data(&self, k: &Pubkey) -> Option<&[u8]> {
        self.accts.get(k).map(|a| &a.data[..])
    }
    pub fn commit(&mut self, out: &TxOutcome) {
        for (k, a) in &out.post {
            if a.lamports == 0 {
                self.accts.remove(k);
            } else {
                match self.accts.get(k) {
                    Some(old) if **old == *a => {}
                    _ => {
                        self.accts.insert(*k, Arc::new(a.clone()));
                    }
                }
            }
        }
    }
    /// Keys whose account differs between two banks (either direction).
    pub fn diff(&self, other: &Bank) -> Vec<Pubkey> {
        let mut v = vec![];
        for (k, a) in &self.accts {
            match other.accts.get(k) {
                Some(b) if Arc::ptr_eq(a, b) || **a == **b => {}
                _ => v.push(*k),
            }
        }
        for k in other.accts.keys() {
            if !self.accts.contains_key(k) {
                v.push(*k);
            }
        }
        v
    }
    pub fn airdrop(&mut self, k: Pubkey, lamports: u64) {
        let mut a = self.get(&k).cloned().unwrap_or(Acct { owner: system_program::ID, ..Default::default() });
        a.lamports += lamports;
        self.set(k, a);
    }
}
