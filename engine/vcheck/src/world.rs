//! Scenario world: bank + worker + the bookkeeping the generators need to build valid
//! (and deliberately invalid) instructions. Monitors never trust this bookkeeping: they
//! decode the bank.
use crate::codec::{self, MAX_TICK_INDEX, MIN_TICK_INDEX};
use crate::ix::build as b;
use crate::ix::{self, Ix};
use crate::rnd::R;
use crate::svm::{Acct, Bank, Svm, TxOutcome};
use rand::Rng;
use solana_program::instruction::{AccountMeta, Instruction};
use solana_program::program_pack::Pack;
use solana_program::pubkey::Pubkey;
use solana_program::system_program;
use std::collections::BTreeMap;

pub const ADMIN: Pubkey = solana_program::pubkey!("tstYmkF9JHjZbSugJe1H3ygUTox1bqSxpn5QjxMwVrm");
pub const RENT_ID: Pubkey = solana_program::sysvar::rent::ID;
pub const TOKEN: Pubkey = spl_token::ID;
pub const TOKEN22: Pubkey = spl_token_2022::ID;
pub const MEMO: Pubkey = spl_memo::ID;
pub const ATA: Pubkey = spl_associated_token_account::ID;

#[derive(Clone, Debug)]
pub struct ConfigInfo {
    pub key: Pubkey,
    pub fee_authority: Pubkey,
    pub collect_protocol_fees_authority: Pubkey,
    pub reward_emissions_super_authority: Pubkey,
    pub extension: Option<Pubkey>,
    pub config_extension_authority: Pubkey,
    pub token_badge_authority: Pubkey,
}

#[derive(Clone, Debug)]
pub struct MintInfo {
    pub key: Pubkey,
    pub program: Pubkey,
    pub decimals: u8,
    pub transfer_fee_bps: Option<u16>,
}

#[derive(Clone, Debug)]
pub struct PoolInfo {
    pub key: Pubkey,
    pub config: usize,
    pub mint_a: Pubkey,
    pub mint_b: Pubkey,
    pub program_a: Pubkey,
    pub program_b: Pubkey,
    pub vault_a: Pubkey,
    pub vault_b: Pubkey,
    pub tick_spacing: u16,
    pub fee_tier_index: u16,
    pub fee_tier: Pubkey,
    pub adaptive: bool,
    pub oracle: Pubkey,
    pub reward_authority: Pubkey,
    pub rewards: Vec<(Pubkey, Pubkey)>, // (mint, vault)
}

#[derive(Clone, Debug, PartialEq, Eq)]
pub enum PosKind {
    Plain,
    TokenExt,
    Bundled { bundle_mint: Pubkey, index: u16 },
}

#[derive(Clone, Debug)]
pub struct PosInfo {
    pub pool: usize,
    pub position: Pubkey,
    pub mint: Pubkey,
    pub owner: usize,
    pub token_account: Pubkey,
    pub kind: PosKind,
    pub lower: i32,
    pub upper: i32,
    pub closed: bool,
    pub locked: bool,
}

#[derive(Clone, Debug)]
pub struct UserInfo {
    pub key: Pubkey,
    pub tokens: BTreeMap<Pubkey, Pubkey>, // mint -> token account
}

/// One executed instruction as the monitors see it.
pub struct Obs {
    pub ix: Ix,
    pub pre: Bank,
    pub out: TxOutcome,
}
impl Obs {
    pub fn ok(&self) -> bool {
        self.out.ok()
    }
}

pub struct World {
    pub bank: Bank,
    pub svm: Svm,
    pub r: R,
    pub configs: Vec<ConfigInfo>,
    pub mints: Vec<MintInfo>,
    pub pools: Vec<PoolInfo>,
    pub users: Vec<UserInfo>,
    pub positions: Vec<PosInfo>,
    pub executed: u64,
    /// leading bytes for the next generated key (consumed by it)
    pub key_prefix: Option<Vec<u8>>,
    /// (pool, start index) of tick arrays the program let a hostile client create at a start index that is not a
    /// multiple of 88 x spacing (never on a correct tree); clients then use them for the ticks they contain
    pub rogue_arrays: Vec<(usize, i32)>,
    /// (signature, detail) of set-up instructions that succeeded but stored something else than they were asked
    /// to (adaptive fee tiers and the pools / oracles created from them); drained and reported by the C14 monitor
    pub setup_findings: Vec<(String, String)>,
    /// how many such comparisons were made since the monitor last looked
    pub setup_compared: u64,
}

pub fn floor_div(a: i32, b: i32) -> i32 {
    a.div_euclid(b)
}

pub fn array_start(tick: i32, spacing: u16) -> i32 {
    let tia = 88 * spacing as i32;
    floor_div(tick, tia) * tia
}

impl World {
    pub fn new(r: R) -> World {
        let mut bank = Bank::new(1_700_000_000);
        bank.airdrop(ADMIN, 1_000_000_000_000_000);
        World {
            bank,
            svm: Svm::new(),
            r,
            configs: vec![],
            mints: vec![],
            pools: vec![],
            users: vec![],
            positions: vec![],
            executed: 0,
            key_prefix: None,
            rogue_arrays: vec![],
            setup_findings: vec![],
            setup_compared: 0,
        }
    }

    pub fn new_key(&mut self) -> Pubkey {
        let mut k = [0u8; 32];
        self.r.fill(&mut k);
        if let Some(p) = self.key_prefix.take() {
            k[..p.len()].copy_from_slice(&p);
        }
        Pubkey::new_from_array(k)
    }

    pub fn now(&self) -> i64 {
        self.bank.clock.unix_timestamp
    }
    pub fn advance_clock(&mut self, dt: i64) {
        self.bank.clock.unix_timestamp += dt;
        self.bank.clock.slot += (dt.max(0) as u64) * 2 + 1;
        // an epoch is about two days
        self.bank.clock.epoch += (dt.max(0) as u64) / 172_800;
    }

    /// Execute on the live bank (commit on success).
    pub fn exec(&mut self, ix: Ix) -> Obs {
        let pre = self.bank.clone();
        let out = self.svm.process(&mut self.bank, &ix.instruction(), &ix.signers());
        self.executed += 1;
        Obs { ix, pre, out }
    }
    /// Execute with an explicit signature set (negative tests).
    pub fn exec_signed(&mut self, ix: Ix, signers: &[Pubkey]) -> Obs {
        let pre = self.bank.clone();
        let out = self.svm.process(&mut self.bank, &ix.instruction(), signers);
        self.executed += 1;
        Obs { ix, pre, out }
    }
    /// Execute against a clone of the bank; returns the outcome and the resulting bank.
    pub fn simulate(&mut self, bank: &Bank, ix: &Ix) -> (TxOutcome, Bank) {
        let mut b2 = bank.clone();
        let out = self.svm.process(&mut b2, &ix.instruction(), &ix.signers());
        self.executed += 1;
        (out, b2)
    }
    pub fn simulate_signed(&mut self, bank: &Bank, ix: &Ix, signers: &[Pubkey]) -> (TxOutcome, Bank) {
        let mut b2 = bank.clone();
        let out = self.svm.process(&mut b2, &ix.instruction(), signers);
        self.executed += 1;
        (out, b2)
    }
    /// Raw instruction of another program (set-up traffic: token program etc.).
    pub fn exec_raw(&mut self, ix: &Instruction) -> TxOutcome {
        let signers: Vec<Pubkey> = ix.accounts.iter().filter(|m| m.is_signer).map(|m| m.pubkey).collect();
        self.svm.process(&mut self.bank, ix, &signers)
    }
    fn must(&mut self, ix: Ix) -> Obs {
        let name = ix.name;
        let o = self.exec(ix);
        if !o.ok() {
            panic!("harness set-up instruction {name} failed: {:?} logs {:?}", o.out.err, o.out.logs);
        }
        o
    }

    // ------------------------------------------------------------------ set-up
    pub fn add_user(&mut self) -> usize {
        let key = self.new_key();
        self.bank.airdrop(key, 1_000_000_000_000);
        self.users.push(UserInfo { key, tokens: BTreeMap::new() });
        self.users.len() - 1
    }

    pub fn add_config(&mut self, default_protocol_fee_rate: u16) -> usize {
        let key = self.new_key();
        let fee_authority = self.new_key();
        let cpfa = self.new_key();
        let resa = self.new_key();
        for k in [fee_authority, cpfa, resa] {
            self.bank.airdrop(k, 1_000_000_000_000);
        }
        self.must(
            b::InitializeConfig { config: key, funder: ADMIN, system_program: system_program::ID }
                .ix(fee_authority, cpfa, resa, default_protocol_fee_rate),
        );
        self.configs.push(ConfigInfo {
            key,
            fee_authority,
            collect_protocol_fees_authority: cpfa,
            reward_emissions_super_authority: resa,
            extension: None,
            config_extension_authority: fee_authority,
            token_badge_authority: fee_authority,
        });
        self.configs.len() - 1
    }

    /// Attempt to create a config with a (possibly out-of-bounds) default protocol fee rate; None when the program refuses.
    pub fn try_add_config(&mut self, default_protocol_fee_rate: u16) -> Option<usize> {
        let key = self.new_key();
        let fee_authority = self.new_key();
        let cpfa = self.new_key();
        let resa = self.new_key();
        let ix = b::InitializeConfig { config: key, funder: ADMIN, system_program: system_program::ID }.ix(fee_authority, cpfa, resa, default_protocol_fee_rate);
        if !self.exec(ix).ok() {
            return None;
        }
        for k in [fee_authority, cpfa, resa] {
            self.bank.airdrop(k, 1_000_000_000_000);
        }
        self.configs.push(ConfigInfo { key, fee_authority, collect_protocol_fees_authority: cpfa, reward_emissions_super_authority: resa, extension: None, config_extension_authority: fee_authority, token_badge_authority: fee_authority });
        Some(self.configs.len() - 1)
    }

    pub fn add_config_extension(&mut self, c: usize) -> Pubkey {
        if let Some(e) = self.configs[c].extension {
            return e;
        }
        let cfg = self.configs[c].clone();
        let ext = b::pda_config_extension(cfg.key).0;
        self.must(
            b::InitializeConfigExtension {
                config: cfg.key,
                config_extension: ext,
                funder: ADMIN,
                fee_authority: cfg.fee_authority,
                system_program: system_program::ID,
            }
            .ix(),
        );
        self.configs[c].extension = Some(ext);
        ext
    }

    pub fn add_fee_tier(&mut self, c: usize, tick_spacing: u16, default_fee_rate: u16) -> Pubkey {
        let cfg = self.configs[c].clone();
        let ft = b::pda_fee_tier(cfg.key, tick_spacing).0;
        if self.bank.get(&ft).is_some() {
            return ft;
        }
        self.must(
            b::InitializeFeeTier {
                config: cfg.key,
                fee_tier: ft,
                funder: ADMIN,
                fee_authority: cfg.fee_authority,
                system_program: system_program::ID,
            }
            .ix(tick_spacing, default_fee_rate),
        );
        ft
    }

    /// Plain SPL mint (written directly; the token program library packs it).
    pub fn add_spl_mint(&mut self, decimals: u8) -> Pubkey {
        let key = self.new_key();
        let mut d = vec![0u8; spl_token::state::Mint::LEN];
        spl_token::state::Mint {
            mint_authority: Some(ADMIN).into(),
            supply: 0,
            decimals,
            is_initialized: true,
            freeze_authority: None.into(),
        }
        .pack_into_slice(&mut d);
        self.bank.set(key, Acct { lamports: 10_000_000, data: d, owner: TOKEN, executable: false });
        self.mints.push(MintInfo { key, program: TOKEN, decimals, transfer_fee_bps: None });
        key
    }

    /// Token-2022 mint, optionally with a TransferFeeConfig (older / newer epoch fees).
    pub fn add_t22_mint(
        &mut self,
        decimals: u8,
        transfer_fee: Option<((u16, u64, u64), (u16, u64, u64))>, // ((bps, max, epoch) older, newer)
    ) -> Pubkey {
        use spl_token_2022::extension::{
            transfer_fee::{TransferFee, TransferFeeConfig},
            BaseStateWithExtensionsMut, ExtensionType, StateWithExtensionsMut,
        };
        use spl_token_2022::state::Mint;
        let key = self.new_key();
        let exts: Vec<ExtensionType> =
            if transfer_fee.is_some() { vec![ExtensionType::TransferFeeConfig] } else { vec![] };
        let len = ExtensionType::try_calculate_account_len::<Mint>(&exts).unwrap();
        let mut d = vec![0u8; len];
        {
            let mut st = StateWithExtensionsMut::<Mint>::unpack_uninitialized(&mut d).unwrap();
            if let Some((older, newer)) = transfer_fee {
                let e = st.init_extension::<TransferFeeConfig>(true).unwrap();
                e.transfer_fee_config_authority = Some(ADMIN).try_into().unwrap();
                e.withdraw_withheld_authority = Some(ADMIN).try_into().unwrap();
                e.withheld_amount = 0.into();
                e.older_transfer_fee = TransferFee {
                    epoch: older.2.into(),
                    maximum_fee: older.1.into(),
                    transfer_fee_basis_points: older.0.into(),
                };
                e.newer_transfer_fee = TransferFee {
                    epoch: newer.2.into(),
                    maximum_fee: newer.1.into(),
                    transfer_fee_basis_points: newer.0.into(),
                };
            }
            st.base = Mint {
                mint_authority: Some(ADMIN).into(),
                supply: 0,
                decimals,
                is_initialized: true,
                freeze_authority: None.into(),
            };
            st.pack_base();
            st.init_account_type().unwrap();
        }
        self.bank.set(key, Acct { lamports: 100_000_000, data: d, owner: TOKEN22, executable: false });
        self.mints.push(MintInfo {
            key,
            program: TOKEN22,
            decimals,
            transfer_fee_bps: transfer_fee.map(|f| f.1 .0),
        });
        key
    }

    /// Token-2022 mint that carries a TransferHook extension naming NO program (authority set, program id unset): transfers of
    /// such a mint run no hook and need no extra accounts; the program accepts it once a token badge exists.
    pub fn add_t22_mint_idle_hook(&mut self, decimals: u8) -> Pubkey {
        use spl_token_2022::extension::{transfer_hook::TransferHook, BaseStateWithExtensionsMut, ExtensionType, StateWithExtensionsMut};
        use spl_token_2022::state::Mint;
        let key = self.new_key();
        let len = ExtensionType::try_calculate_account_len::<Mint>(&[ExtensionType::TransferHook]).unwrap();
        let mut d = vec![0u8; len];
        {
            let mut st = StateWithExtensionsMut::<Mint>::unpack_uninitialized(&mut d).unwrap();
            let e = st.init_extension::<TransferHook>(true).unwrap();
            e.authority = Some(ADMIN).try_into().unwrap();
            e.program_id = None.try_into().unwrap();
            st.base = Mint { mint_authority: Some(ADMIN).into(), supply: 0, decimals, is_initialized: true, freeze_authority: None.into() };
            st.pack_base();
            st.init_account_type().unwrap();
        }
        self.bank.set(key, Acct { lamports: 100_000_000, data: d, owner: TOKEN22, executable: false });
        self.mints.push(MintInfo { key, program: TOKEN22, decimals, transfer_fee_bps: None });
        key
    }

    /// Token badge of `mint` under config `c` (creates the config extension first); false when the program refuses.
    pub fn add_token_badge(&mut self, c: usize, mint: Pubkey) -> bool {
        let ext = self.add_config_extension(c);
        let cfg = self.configs[c].clone();
        // token badges are a feature the deployment's admin switches on per config
        let _ = self.exec(b::SetConfigFeatureFlag { whirlpools_config: cfg.key, authority: ADMIN }.ix(b::ConfigFeatureFlag::TokenBadge(true)));
        let o = self.exec(
            b::InitializeTokenBadge {
                whirlpools_config: cfg.key,
                whirlpools_config_extension: ext,
                token_badge_authority: cfg.token_badge_authority,
                token_mint: mint,
                token_badge: b::pda_token_badge(cfg.key, mint).0,
                funder: ADMIN,
                system_program: system_program::ID,
            }
            .ix(),
        );
        o.ok()
    }

    pub fn mint_info(&self, mint: &Pubkey) -> MintInfo {
        self.mints.iter().find(|m| m.key == *mint).cloned().unwrap_or_else(|| {
            let a = self.bank.get(mint).expect("mint account");
            MintInfo { key: *mint, program: a.owner, decimals: 0, transfer_fee_bps: None }
        })
    }

    /// Create a token account of `mint` owned by `owner` through the real token program.
    pub fn create_token_account(&mut self, mint: Pubkey, owner: Pubkey) -> Pubkey {
        let program = self.bank.get(&mint).expect("mint").owner;
        let key = self.new_key();
        let len = if program == TOKEN {
            165
        } else {
            use spl_token_2022::extension::{BaseStateWithExtensions, ExtensionType, StateWithExtensions};
            let md = self.bank.data(&mint).unwrap().to_vec();
            let st = StateWithExtensions::<spl_token_2022::state::Mint>::unpack(&md).unwrap();
            let mint_exts = st.get_extension_types().unwrap();
            let req = ExtensionType::get_required_init_account_extensions(&mint_exts);
            ExtensionType::try_calculate_account_len::<spl_token_2022::state::Account>(&req).unwrap()
        };
        self.bank.set(
            key,
            Acct { lamports: 10_000_000, data: vec![0u8; len], owner: program, executable: false },
        );
        let ix = if program == TOKEN {
            spl_token::instruction::initialize_account3(&program, &key, &mint, &owner).unwrap()
        } else {
            spl_token_2022::instruction::initialize_account3(&program, &key, &mint, &owner).unwrap()
        };
        let out = self.exec_raw(&ix);
        assert!(out.ok(), "initialize_account3 failed: {:?}", out.err);
        key
    }

    /// Faucet: set the balance of a token account directly.
    pub fn set_token_balance(&mut self, account: Pubkey, amount: u64) {
        let mut a = self.bank.get(&account).expect("token account").clone();
        a.data[64..72].copy_from_slice(&amount.to_le_bytes());
        self.bank.set(account, a);
    }
    pub fn token_balance(&self, account: &Pubkey) -> u64 {
        self.bank.data(account).map(codec::token_amount).unwrap_or(0)
    }

    /// The user's token account for `mint` (created and funded on first use).
    pub fn user_token(&mut self, u: usize, mint: Pubkey) -> Pubkey {
        if let Some(k) = self.users[u].tokens.get(&mint) {
            return *k;
        }
        let owner = self.users[u].key;
        let k = self.create_token_account(mint, owner);
        self.set_token_balance(k, u64::MAX / 4);
        self.users[u].tokens.insert(mint, k);
        k
    }

    #[allow(clippy::too_many_arguments)]
    pub fn add_pool(&mut self, c: usize, m1: Pubkey, m2: Pubkey, tick_spacing: u16, fee_rate: u16, sqrt_price: u128, v2: bool) -> Result<usize, Obs> {
        let (mint_a, mint_b) = if m1 < m2 { (m1, m2) } else { (m2, m1) };
        let cfg = self.configs[c].clone();
        let ft = self.add_fee_tier(c, tick_spacing, fee_rate);
        let (pool, bump) = b::pda_whirlpool(cfg.key, mint_a, mint_b, tick_spacing);
        let (va, vb) = (self.new_key(), self.new_key());
        let (pa, pb) = (self.bank.get(&mint_a).unwrap().owner, self.bank.get(&mint_b).unwrap().owner);
        let ix = if v2 || pa != TOKEN || pb != TOKEN {
            b::InitializePoolV2 {
                whirlpools_config: cfg.key,
                token_mint_a: mint_a,
                token_mint_b: mint_b,
                token_badge_a: b::pda_token_badge(cfg.key, mint_a).0,
                token_badge_b: b::pda_token_badge(cfg.key, mint_b).0,
                funder: ADMIN,
                whirlpool: pool,
                token_vault_a: va,
                token_vault_b: vb,
                fee_tier: ft,
                token_program_a: pa,
                token_program_b: pb,
                system_program: system_program::ID,
                rent: RENT_ID,
            }
            .ix(tick_spacing, sqrt_price)
        } else {
            b::InitializePool {
                whirlpools_config: cfg.key,
                token_mint_a: mint_a,
                token_mint_b: mint_b,
                funder: ADMIN,
                whirlpool: pool,
                token_vault_a: va,
                token_vault_b: vb,
                fee_tier: ft,
                token_program: TOKEN,
                system_program: system_program::ID,
                rent: RENT_ID,
            }
            .ix(b::WhirlpoolBumps { whirlpool_bump: bump }, tick_spacing, sqrt_price)
        };
        let o = self.exec(ix);
        if !o.ok() {
            return Err(o);
        }
        self.pools.push(PoolInfo {
            key: pool,
            config: c,
            mint_a,
            mint_b,
            program_a: pa,
            program_b: pb,
            vault_a: va,
            vault_b: vb,
            tick_spacing,
            fee_tier_index: tick_spacing,
            fee_tier: ft,
            adaptive: false,
            oracle: b::pda_oracle(pool).0,
            reward_authority: cfg.reward_emissions_super_authority,
            rewards: vec![],
        });
        Ok(self.pools.len() - 1)
    }

    /// Adaptive-fee tier + pool. `consts` = (filter, decay, reduction, control, max_acc, group_size, major_ticks)
    #[allow(clippy::too_many_arguments)]
    pub fn add_adaptive_pool(
        &mut self,
        c: usize,
        m1: Pubkey,
        m2: Pubkey,
        fee_tier_index: u16,
        tick_spacing: u16,
        base_fee_rate: u16,
        consts: (u16, u16, u16, u32, u32, u16, u16),
        sqrt_price: u128,
        trade_enable_timestamp: Option<u64>,
    ) -> Result<usize, Obs> {
        let (mint_a, mint_b) = if m1 < m2 { (m1, m2) } else { (m2, m1) };
        let cfg = self.configs[c].clone();
        let aft = b::pda_fee_tier(cfg.key, fee_tier_index).0;
        if self.bank.get(&aft).is_none() {
            let o = self.exec(
                b::InitializeAdaptiveFeeTier {
                    whirlpools_config: cfg.key,
                    adaptive_fee_tier: aft,
                    funder: ADMIN,
                    fee_authority: cfg.fee_authority,
                    system_program: system_program::ID,
                }
                .ix(
                    fee_tier_index,
                    tick_spacing,
                    // a trade-enable timestamp is only allowed on permissioned tiers
                    if trade_enable_timestamp.is_some() { ADMIN } else { Pubkey::default() },
                    Pubkey::default(),
                    base_fee_rate,
                    consts.0,
                    consts.1,
                    consts.2,
                    consts.3,
                    consts.4,
                    consts.5,
                    consts.6,
                ),
            );
            if !o.ok() {
                return Err(o);
            }
            // the tier stores exactly what the instruction named, field by field
            self.setup_compared += 1;
            if let Some(t) = self.bank.data(&aft).and_then(codec::AdaptiveFeeTier::decode) {
                let k = &t.constants;
                let got = (t.whirlpools_config, t.fee_tier_index, t.tick_spacing, t.initialize_pool_authority, t.delegated_fee_authority, t.default_base_fee_rate, (k.filter_period, k.decay_period, k.reduction_factor, k.adaptive_fee_control_factor, k.max_volatility_accumulator, k.tick_group_size, k.major_swap_threshold_ticks));
                let want = (cfg.key, fee_tier_index, tick_spacing, if trade_enable_timestamp.is_some() { ADMIN } else { Pubkey::default() }, Pubkey::default(), base_fee_rate, consts);
                if got != want {
                    self.setup_findings.push(("c14:tier_stores_other_values:initialize_adaptive_fee_tier".into(), format!("requested (config, index, spacing, pool authority, delegated authority, base fee, (filter, decay, reduction, control, max accumulator, group size, major threshold)) = {want:?}, the tier stores {got:?}")));
                }
            } else {
                self.setup_findings.push(("c14:tier_unreadable:initialize_adaptive_fee_tier".into(), format!("the tier account {aft} does not decode as an AdaptiveFeeTier after a successful initialisation")));
            }
        }
        let (pool, _) = b::pda_whirlpool(cfg.key, mint_a, mint_b, fee_tier_index);
        let (va, vb) = (self.new_key(), self.new_key());
        let (pa, pb) = (self.bank.get(&mint_a).unwrap().owner, self.bank.get(&mint_b).unwrap().owner);
        let oracle = b::pda_oracle(pool).0;
        let o = self.exec(
            b::InitializePoolWithAdaptiveFee {
                whirlpools_config: cfg.key,
                token_mint_a: mint_a,
                token_mint_b: mint_b,
                token_badge_a: b::pda_token_badge(cfg.key, mint_a).0,
                token_badge_b: b::pda_token_badge(cfg.key, mint_b).0,
                funder: ADMIN,
                initialize_pool_authority: ADMIN,
                whirlpool: pool,
                oracle,
                token_vault_a: va,
                token_vault_b: vb,
                adaptive_fee_tier: aft,
                token_program_a: pa,
                token_program_b: pb,
                system_program: system_program::ID,
                rent: RENT_ID,
            }
            .ix(sqrt_price, trade_enable_timestamp),
        );
        if !o.ok() {
            return Err(o);
        }
        // the pool and its oracle copy the tier: spacing, base fee, index, all seven constants; the trade-enable time is the one asked for
        if let (Some(t), Some(orc), Some(pl)) = (self.bank.data(&aft).and_then(codec::AdaptiveFeeTier::decode), self.bank.data(&oracle).and_then(codec::Oracle::decode), self.bank.data(&pool).and_then(codec::Pool::decode)) {
            let mut bad = vec![];
            self.setup_compared += 1;
            if orc.constants != t.constants {
                bad.push(format!("oracle constants {:?} but the tier holds {:?}", orc.constants, t.constants));
            }
            if orc.whirlpool != pool {
                bad.push(format!("oracle names pool {} instead of {pool}", orc.whirlpool));
            }
            if orc.trade_enable_timestamp != trade_enable_timestamp.unwrap_or(0) {
                bad.push(format!("trade-enable time {} stored for a request of {:?}", orc.trade_enable_timestamp, trade_enable_timestamp));
            }
            if pl.tick_spacing != t.tick_spacing || pl.fee_rate != t.default_base_fee_rate || pl.fee_tier_index != t.fee_tier_index {
                bad.push(format!("pool (spacing, fee rate, index seed) = ({}, {}, {}) but the tier holds ({}, {}, {})", pl.tick_spacing, pl.fee_rate, pl.fee_tier_index, t.tick_spacing, t.default_base_fee_rate, t.fee_tier_index));
            }
            if orc.variables != codec::AfVariables::default() {
                bad.push(format!("a new oracle starts with variables {:?}", orc.variables));
            }
            for b_ in bad {
                self.setup_findings.push(("c14:pool_differs_from_its_tier:initialize_pool_with_adaptive_fee".into(), b_));
            }
        }
        self.pools.push(PoolInfo {
            key: pool,
            config: c,
            mint_a,
            mint_b,
            program_a: pa,
            program_b: pb,
            vault_a: va,
            vault_b: vb,
            tick_spacing,
            fee_tier_index,
            fee_tier: aft,
            adaptive: true,
            oracle,
            reward_authority: cfg.reward_emissions_super_authority,
            rewards: vec![],
        });
        Ok(self.pools.len() - 1)
    }

    pub fn pool_state(&self, p: usize) -> codec::Pool {
        codec::Pool::decode(self.bank.data(&self.pools[p].key).expect("pool account")).expect("pool decodes")
    }

    pub fn tick_array_key(&self, p: usize, start: i32) -> Pubkey {
        b::pda_tick_array(self.pools[p].key, start).0
    }

    /// Make sure the tick array containing `tick` exists (fixed or dynamic).
    pub fn ensure_tick_array(&mut self, p: usize, tick: i32, dynamic: bool) -> Pubkey {
        let sp = self.pools[p].tick_spacing;
        let start = array_start(tick, sp);
        let key = self.tick_array_key(p, start);
        if self.bank.get(&key).is_some() {
            return key;
        }
        let pool = self.pools[p].key;
        let ix = if dynamic {
            b::InitializeDynamicTickArray { whirlpool: pool, funder: ADMIN, tick_array: key, system_program: system_program::ID }
                .ix(start, false)
        } else {
            b::InitializeTickArray { whirlpool: pool, funder: ADMIN, tick_array: key, system_program: system_program::ID }
                .ix(start)
        };
        // (a tree under test that refuses a valid tick array must not stop the history: whatever needs the array fails later)
        let _ = self.exec(ix);
        key
    }

    /// Open a position (plain SPL NFT or Token-2022 NFT). Ticks are passed through unchanged.
    pub fn open_position_ix(&mut self, p: usize, u: usize, lower: i32, upper: i32, token_ext: bool) -> (Ix, PosInfo) {
        let pool = self.pools[p].key;
        let owner = self.users[u].key;
        let mint = self.new_key();
        let (position, bump) = b::pda_position(mint);
        if token_ext {
            let ta = b::pda_associated_token(owner, mint, TOKEN22).0;
            let ix = b::OpenPositionWithTokenExtensions {
                funder: ADMIN,
                owner,
                position,
                position_mint: mint,
                position_token_account: ta,
                whirlpool: pool,
                token_2022_program: TOKEN22,
                system_program: system_program::ID,
                associated_token_program: ATA,
                metadata_update_auth: b::NFT_UPDATE_AUTH,
            }
            .ix(lower, upper, false);
            (ix, PosInfo { pool: p, position, mint, owner: u, token_account: ta, kind: PosKind::TokenExt, lower, upper, closed: false, locked: false })
        } else {
            let ta = b::pda_associated_token(owner, mint, TOKEN).0;
            let ix = b::OpenPosition {
                funder: ADMIN,
                owner,
                position,
                position_mint: mint,
                position_token_account: ta,
                whirlpool: pool,
                token_program: TOKEN,
                system_program: system_program::ID,
                rent: RENT_ID,
                associated_token_program: ATA,
            }
            .ix(b::OpenPositionBumps { position_bump: bump }, lower, upper);
            (ix, PosInfo { pool: p, position, mint, owner: u, token_account: ta, kind: PosKind::Plain, lower, upper, closed: false, locked: false })
        }
    }

    /// Both tick arrays of a position's bounds.
    pub fn pos_arrays(&self, pi: &PosInfo) -> (Pubkey, Pubkey) {
        let sp = self.pools[pi.pool].tick_spacing;
        let home = |t: i32| -> Pubkey {
            let tia = 88 * sp as i32;
            match self.rogue_arrays.iter().find(|(p, s)| *p == pi.pool && *s <= t && t < *s + tia) {
                Some((_, s)) => self.tick_array_key(pi.pool, *s),
                None => self.tick_array_key(pi.pool, array_start(t, sp)),
            }
        };
        (home(pi.lower), home(pi.upper))
    }

    pub fn modify_v1(&mut self, i: usize) -> b::ModifyLiquidity {
        let pi = self.positions[i].clone();
        let pool = self.pools[pi.pool].clone();
        let (tl, tu) = self.pos_arrays(&pi);
        b::ModifyLiquidity {
            whirlpool: pool.key,
            token_program: TOKEN,
            position_authority: self.users[pi.owner].key,
            position: pi.position,
            position_token_account: pi.token_account,
            token_owner_account_a: self.user_token(pi.owner, pool.mint_a),
            token_owner_account_b: self.user_token(pi.owner, pool.mint_b),
            token_vault_a: pool.vault_a,
            token_vault_b: pool.vault_b,
            tick_array_lower: tl,
            tick_array_upper: tu,
        }
    }
    pub fn modify_v2(&mut self, i: usize) -> b::ModifyLiquidityV2 {
        let pi = self.positions[i].clone();
        let pool = self.pools[pi.pool].clone();
        let (tl, tu) = self.pos_arrays(&pi);
        b::ModifyLiquidityV2 {
            whirlpool: pool.key,
            token_program_a: pool.program_a,
            token_program_b: pool.program_b,
            memo_program: MEMO,
            position_authority: self.users[pi.owner].key,
            position: pi.position,
            position_token_account: pi.token_account,
            token_mint_a: pool.mint_a,
            token_mint_b: pool.mint_b,
            token_owner_account_a: self.user_token(pi.owner, pool.mint_a),
            token_owner_account_b: self.user_token(pi.owner, pool.mint_b),
            token_vault_a: pool.vault_a,
            token_vault_b: pool.vault_b,
            tick_array_lower: tl,
            tick_array_upper: tu,
        }
    }
    pub fn pool_is_spl(&self, p: usize) -> bool {
        self.pools[p].program_a == TOKEN && self.pools[p].program_b == TOKEN
    }

    /// The three tick-array addresses a client would pass for a swap at the current price.
    pub fn swap_arrays(&self, p: usize, a_to_b: bool) -> [Pubkey; 3] {
        let st = self.pool_state(p);
        let sp = st.tick_spacing as i32;
        let tia = 88 * sp;
        let base = floor_div(st.tick_current_index, tia) * tia;
        let offs: [i32; 3] = if a_to_b {
            [0, -1, -2]
        } else if st.tick_current_index + sp >= base + tia {
            [1, 2, 3]
        } else {
            [0, 1, 2]
        };
        let mut out = [Pubkey::default(); 3];
        let mut last = self.tick_array_key(p, base);
        for (i, o) in offs.iter().enumerate() {
            let s = base as i64 + *o as i64 * tia as i64;
            // out-of-range arrays: repeat the last valid one (as the SDKs do)
            let valid = s <= MAX_TICK_INDEX as i64 && s + tia as i64 > MIN_TICK_INDEX as i64;
            if valid {
                last = self.tick_array_key(p, s as i32);
            }
            out[i] = last;
        }
        out
    }

    #[allow(clippy::too_many_arguments)]
    pub fn swap_ix(&mut self, p: usize, u: usize, amount: u64, threshold: u64, limit: u128, exact_in: bool, a_to_b: bool, v2: bool) -> Ix {
        let pool = self.pools[p].clone();
        let ta = self.swap_arrays(p, a_to_b);
        let (oa, ob) = (self.user_token(u, pool.mint_a), self.user_token(u, pool.mint_b));
        if v2 || !self.pool_is_spl(p) {
            b::SwapV2 {
                token_program_a: pool.program_a,
                token_program_b: pool.program_b,
                memo_program: MEMO,
                token_authority: self.users[u].key,
                whirlpool: pool.key,
                token_mint_a: pool.mint_a,
                token_mint_b: pool.mint_b,
                token_owner_account_a: oa,
                token_vault_a: pool.vault_a,
                token_owner_account_b: ob,
                token_vault_b: pool.vault_b,
                tick_array_0: ta[0],
                tick_array_1: ta[1],
                tick_array_2: ta[2],
                oracle: pool.oracle,
            }
            .ix(amount, threshold, limit, exact_in, a_to_b, None)
        } else {
            let ix = b::Swap {
                token_program: TOKEN,
                token_authority: self.users[u].key,
                whirlpool: pool.key,
                token_owner_account_a: oa,
                token_vault_a: pool.vault_a,
                token_owner_account_b: ob,
                token_vault_b: pool.vault_b,
                tick_array_0: ta[0],
                tick_array_1: ta[1],
                tick_array_2: ta[2],
                oracle: pool.oracle,
            }
            .ix(amount, threshold, limit, exact_in, a_to_b);
            if pool.adaptive {
                b::make_writable(ix, "oracle")
            } else {
                ix
            }
        }
    }

    /// Swap arrays of pool `p` in direction `a_to_b` (helper for two-hop).
    #[allow(clippy::too_many_arguments)]
    pub fn two_hop_ix(&mut self, p1: usize, p2: usize, u: usize, amount: u64, threshold: u64, exact_in: bool, a_to_b_one: bool, a_to_b_two: bool, limit_one: u128, limit_two: u128, v2: bool) -> Ix {
        let (q1, q2) = (self.pools[p1].clone(), self.pools[p2].clone());
        let (t1, t2) = (self.swap_arrays(p1, a_to_b_one), self.swap_arrays(p2, a_to_b_two));
        let auth = self.users[u].key;
        let all_spl = self.pool_is_spl(p1) && self.pool_is_spl(p2);
        if v2 || !all_spl {
            let (m_in, m_mid1) = if a_to_b_one { (q1.mint_a, q1.mint_b) } else { (q1.mint_b, q1.mint_a) };
            let (m_mid2, m_out) = if a_to_b_two { (q2.mint_a, q2.mint_b) } else { (q2.mint_b, q2.mint_a) };
            let _ = m_mid2;
            let prog = |w: &World, m: &Pubkey| w.bank.get(m).map(|a| a.owner).unwrap_or(TOKEN);
            let (v1_in, v1_mid) = if a_to_b_one { (q1.vault_a, q1.vault_b) } else { (q1.vault_b, q1.vault_a) };
            let (v2_mid, v2_out) = if a_to_b_two { (q2.vault_a, q2.vault_b) } else { (q2.vault_b, q2.vault_a) };
            b::TwoHopSwapV2 {
                whirlpool_one: q1.key,
                whirlpool_two: q2.key,
                token_mint_input: m_in,
                token_mint_intermediate: m_mid1,
                token_mint_output: m_out,
                token_program_input: prog(self, &m_in),
                token_program_intermediate: prog(self, &m_mid1),
                token_program_output: prog(self, &m_out),
                token_owner_account_input: self.user_token(u, m_in),
                token_vault_one_input: v1_in,
                token_vault_one_intermediate: v1_mid,
                token_vault_two_intermediate: v2_mid,
                token_vault_two_output: v2_out,
                token_owner_account_output: self.user_token(u, m_out),
                token_authority: auth,
                tick_array_one_0: t1[0],
                tick_array_one_1: t1[1],
                tick_array_one_2: t1[2],
                tick_array_two_0: t2[0],
                tick_array_two_1: t2[1],
                tick_array_two_2: t2[2],
                oracle_one: q1.oracle,
                oracle_two: q2.oracle,
                memo_program: MEMO,
            }
            .ix(amount, threshold, exact_in, a_to_b_one, a_to_b_two, limit_one, limit_two, None)
        } else {
            let mut ix = b::TwoHopSwap {
                token_program: TOKEN,
                token_authority: auth,
                whirlpool_one: q1.key,
                whirlpool_two: q2.key,
                token_owner_account_one_a: self.user_token(u, q1.mint_a),
                token_vault_one_a: q1.vault_a,
                token_owner_account_one_b: self.user_token(u, q1.mint_b),
                token_vault_one_b: q1.vault_b,
                token_owner_account_two_a: self.user_token(u, q2.mint_a),
                token_vault_two_a: q2.vault_a,
                token_owner_account_two_b: self.user_token(u, q2.mint_b),
                token_vault_two_b: q2.vault_b,
                tick_array_one_0: t1[0],
                tick_array_one_1: t1[1],
                tick_array_one_2: t1[2],
                tick_array_two_0: t2[0],
                tick_array_two_1: t2[1],
                tick_array_two_2: t2[2],
                oracle_one: q1.oracle,
                oracle_two: q2.oracle,
            }
            .ix(amount, threshold, exact_in, a_to_b_one, a_to_b_two, limit_one, limit_two);
            if q1.adaptive {
                ix = b::make_writable(ix, "oracle_one");
            }
            if q2.adaptive {
                ix = b::make_writable(ix, "oracle_two");
            }
            ix
        }
    }

    /// initialize_reward(_v2) for the next free index; returns the instruction and (mint, vault).
    pub fn init_reward_ix(&mut self, p: usize, index: u8, mint: Pubkey) -> (Ix, Pubkey) {
        let pool = self.pools[p].clone();
        let vault = self.new_key();
        let program = self.bank.get(&mint).map(|a| a.owner).unwrap_or(TOKEN);
        let ix = if program == TOKEN && self.r.gen() {
            b::InitializeReward {
                reward_authority: pool.reward_authority,
                funder: ADMIN,
                whirlpool: pool.key,
                reward_mint: mint,
                reward_vault: vault,
                token_program: TOKEN,
                system_program: system_program::ID,
                rent: RENT_ID,
            }
            .ix(index)
        } else {
            b::InitializeRewardV2 {
                reward_authority: pool.reward_authority,
                funder: ADMIN,
                whirlpool: pool.key,
                reward_mint: mint,
                reward_token_badge: b::pda_token_badge(self.configs[pool.config].key, mint).0,
                reward_vault: vault,
                reward_token_program: program,
                system_program: system_program::ID,
                rent: RENT_ID,
            }
            .ix(index)
        };
        (ix, vault)
    }
    pub fn set_emissions_ix(&mut self, p: usize, index: u8, e: u128) -> Ix {
        let pool = self.pools[p].clone();
        let st = self.pool_state(p);
        let vault = st.reward_infos.get(index as usize).map(|r| r.vault).unwrap_or_default();
        if self.r.gen() {
            b::SetRewardEmissions { whirlpool: pool.key, reward_authority: pool.reward_authority, reward_vault: vault }.ix(index, e)
        } else {
            b::SetRewardEmissionsV2 { whirlpool: pool.key, reward_authority: pool.reward_authority, reward_vault: vault }.ix(index, e)
        }
    }
    pub fn collect_reward_ix(&mut self, i: usize, index: u8) -> Ix {
        let v1: bool = self.r.gen();
        self.collect_reward_ix_ver(i, index, v1)
    }

    /// `prefer_v1` is honoured when the reward mint is a Token program mint.
    pub fn collect_reward_ix_ver(&mut self, i: usize, index: u8, prefer_v1: bool) -> Ix {
        let pi = self.positions[i].clone();
        let pool = self.pools[pi.pool].clone();
        let st = self.pool_state(pi.pool);
        let ri = st.reward_infos.get(index as usize).cloned().unwrap_or_default();
        let program = self.bank.get(&ri.mint).map(|a| a.owner).unwrap_or(TOKEN);
        let dest = if ri.initialized() { self.user_token(pi.owner, ri.mint) } else { self.users[pi.owner].key };
        if program == TOKEN && prefer_v1 {
            b::CollectReward {
                whirlpool: pool.key,
                position_authority: self.users[pi.owner].key,
                position: pi.position,
                position_token_account: pi.token_account,
                reward_owner_account: dest,
                reward_vault: ri.vault,
                token_program: TOKEN,
            }
            .ix(index)
        } else {
            b::CollectRewardV2 {
                whirlpool: pool.key,
                position_authority: self.users[pi.owner].key,
                position: pi.position,
                position_token_account: pi.token_account,
                reward_owner_account: dest,
                reward_mint: ri.mint,
                reward_vault: ri.vault,
                reward_token_program: program,
                memo_program: MEMO,
            }
            .ix(index, None)
        }
    }

    pub fn update_fees_ix(&self, i: usize) -> Ix {
        let pi = &self.positions[i];
        let (tl, tu) = self.pos_arrays(pi);
        b::UpdateFeesAndRewards { whirlpool: self.pools[pi.pool].key, position: pi.position, tick_array_lower: tl, tick_array_upper: tu }.ix()
    }

    pub fn collect_fees_ix(&mut self, i: usize, v2: bool) -> Ix {
        let pi = self.positions[i].clone();
        let pool = self.pools[pi.pool].clone();
        let (oa, ob) = (self.user_token(pi.owner, pool.mint_a), self.user_token(pi.owner, pool.mint_b));
        if v2 || !self.pool_is_spl(pi.pool) {
            b::CollectFeesV2 {
                whirlpool: pool.key,
                position_authority: self.users[pi.owner].key,
                position: pi.position,
                position_token_account: pi.token_account,
                token_mint_a: pool.mint_a,
                token_mint_b: pool.mint_b,
                token_owner_account_a: oa,
                token_vault_a: pool.vault_a,
                token_owner_account_b: ob,
                token_vault_b: pool.vault_b,
                token_program_a: pool.program_a,
                token_program_b: pool.program_b,
                memo_program: MEMO,
            }
            .ix(None)
        } else {
            b::CollectFees {
                whirlpool: pool.key,
                position_authority: self.users[pi.owner].key,
                position: pi.position,
                position_token_account: pi.token_account,
                token_owner_account_a: oa,
                token_vault_a: pool.vault_a,
                token_owner_account_b: ob,
                token_vault_b: pool.vault_b,
                token_program: TOKEN,
            }
            .ix()
        }
    }

    pub fn collect_protocol_fees_ix(&mut self, p: usize, dest_user: usize, v2: bool) -> Ix {
        let pool = self.pools[p].clone();
        let cfg = self.configs[pool.config].clone();
        let (da, db) = (self.user_token(dest_user, pool.mint_a), self.user_token(dest_user, pool.mint_b));
        if v2 || !self.pool_is_spl(p) {
            b::CollectProtocolFeesV2 {
                whirlpools_config: cfg.key,
                whirlpool: pool.key,
                collect_protocol_fees_authority: cfg.collect_protocol_fees_authority,
                token_mint_a: pool.mint_a,
                token_mint_b: pool.mint_b,
                token_vault_a: pool.vault_a,
                token_vault_b: pool.vault_b,
                token_destination_a: da,
                token_destination_b: db,
                token_program_a: pool.program_a,
                token_program_b: pool.program_b,
                memo_program: MEMO,
            }
            .ix(None)
        } else {
            b::CollectProtocolFees {
                whirlpools_config: cfg.key,
                whirlpool: pool.key,
                collect_protocol_fees_authority: cfg.collect_protocol_fees_authority,
                token_vault_a: pool.vault_a,
                token_vault_b: pool.vault_b,
                token_destination_a: da,
                token_destination_b: db,
                token_program: TOKEN,
            }
            .ix()
        }
    }

    pub fn close_position_ix(&self, i: usize) -> Ix {
        let pi = &self.positions[i];
        let owner = self.users[pi.owner].key;
        match &pi.kind {
            PosKind::Plain => b::ClosePosition {
                position_authority: owner,
                receiver: owner,
                position: pi.position,
                position_mint: pi.mint,
                position_token_account: pi.token_account,
                token_program: TOKEN,
            }
            .ix(),
            PosKind::TokenExt => b::ClosePositionWithTokenExtensions {
                position_authority: owner,
                receiver: owner,
                position: pi.position,
                position_mint: pi.mint,
                position_token_account: pi.token_account,
                token_2022_program: TOKEN22,
            }
            .ix(),
            PosKind::Bundled { bundle_mint, index } => {
                let bundle = b::pda_position_bundle(*bundle_mint).0;
                b::CloseBundledPosition {
                    bundled_position: pi.position,
                    position_bundle: bundle,
                    position_bundle_token_account: pi.token_account,
                    position_bundle_authority: owner,
                    receiver: owner,
                }
                .ix(*index)
            }
        }
    }

    /// Scan the bank for every Position account of a pool (ground truth for the monitors).
    pub fn scan_positions(bank: &Bank, pool: &Pubkey) -> Vec<(Pubkey, codec::Position)> {
        let mut v = vec![];
        for (k, a) in &bank.accts {
            if a.owner == whirlpool::ID && codec::Position::is(&a.data) {
                if let Some(p) = codec::Position::decode(&a.data) {
                    if p.whirlpool == *pool {
                        v.push((*k, p));
                    }
                }
            }
        }
        v
    }
    /// Every tick array of a pool: start -> decoded (Err = malformed dynamic encoding).
    pub fn scan_tick_arrays(bank: &Bank, pool: &Pubkey) -> BTreeMap<i32, (Pubkey, Result<codec::TickArray, String>)> {
        let mut m = BTreeMap::new();
        for (k, a) in &bank.accts {
            if a.owner != whirlpool::ID {
                continue;
            }
            if let Some(r) = codec::TickArray::decode(&a.data) {
                match r {
                    Ok(t) if t.whirlpool == *pool => {
                        m.insert(t.start_tick_index, (*k, Ok(t)));
                    }
                    Ok(_) => {}
                    Err(e) => {
                        // header is still readable
                        let wp = Pubkey::new_from_array(a.data[12..44].try_into().unwrap());
                        if wp == *pool {
                            let st = i32::from_le_bytes(a.data[8..12].try_into().unwrap());
                            m.insert(st, (*k, Err(e)));
                        }
                    }
                }
            }
        }
        m
    }
}

/// Accounts named by `ix` that differ between two banks (accounts created lazily by the harness
/// for later instructions do not count as an outcome of this one).
pub fn diff_on(ix: &Ix, a: &Bank, b: &Bank) -> Vec<Pubkey> {
    let mut v = vec![];
    for m in &ix.metas {
        if a.get(&m.key) != b.get(&m.key) && !v.contains(&m.key) {
            v.push(m.key);
        }
    }
    v
}

pub fn meta_w(name: &'static str, key: Pubkey) -> ix::Meta {
    ix::w(name, key)
}
pub fn raw_meta(key: Pubkey, signer: bool, writable: bool) -> AccountMeta {
    AccountMeta { pubkey: key, is_signer: signer, is_writable: writable }
}
