//! Instruction builders for every instruction of the `#[program] mod whirlpool` block
//! (all of them except `idl_include`).
//!
//! One struct per `#[derive(Accounts)]` struct: one `pub Pubkey` field per account slot, in
//! on-chain order, named exactly like the Anchor field. The signer / writable flag of every
//! slot is written next to the field in the `accounts!` table below
//! (`ws` = writable signer, `rs` = read-only signer, `w` = writable, `r` = read-only) and
//! mirrors what the Accounts struct declares. The tests at the bottom cross-check every table
//! against Anchor's generated client metas (`whirlpool::accounts::*`) and every argument
//! encoding against `whirlpool::instruction::*`.
//!
//! Remaining accounts are never produced here; callers append them with `Ix::with_remaining`.
use super::*;
use std::borrow::Borrow;

pub use whirlpool::instructions::{IncreaseLiquidityMethod, RepositionLiquidityMethod};
pub use whirlpool::state::{
    ConfigFeatureFlag, LockType, OpenPositionBumps, OpenPositionWithMetadataBumps,
    TokenBadgeAttribute, WhirlpoolBumps,
};

// ------------------------------------------------------------------------------------------
// Well-known ids
// ------------------------------------------------------------------------------------------

/// Metaplex token-metadata program (`Program<'info, Metadata>` = `mpl_token_metadata::ID`).
pub const METADATA_PROGRAM_ID: Pubkey =
    solana_program::pubkey!("metaqbxxUerdq28cj1RbAWkYQm3ybzjb6a8bt518x1s");
/// `constants::nft::whirlpool_nft_update_auth::ID` (WP_NFT_UPDATE_AUTH and WPB_NFT_UPDATE_AUTH).
pub const NFT_UPDATE_AUTH: Pubkey =
    solana_program::pubkey!("3axbTs2z5GBy6usVbNVoqEgZMng3vZvMnAoX29BFfwhr");
pub const ASSOCIATED_TOKEN_PROGRAM_ID: Pubkey =
    solana_program::pubkey!("ATokenGPvbdGVxr1b2hvZbsiqW5xWH25efTNsLJA8knL");

// ------------------------------------------------------------------------------------------
// AccountsType variant indices (util/v2/remaining_accounts_utils.rs, declaration order)
// ------------------------------------------------------------------------------------------

pub const ACCOUNTS_TYPE_TRANSFER_HOOK_A: u8 = 0;
pub const ACCOUNTS_TYPE_TRANSFER_HOOK_B: u8 = 1;
pub const ACCOUNTS_TYPE_TRANSFER_HOOK_REWARD: u8 = 2;
pub const ACCOUNTS_TYPE_TRANSFER_HOOK_INPUT: u8 = 3;
pub const ACCOUNTS_TYPE_TRANSFER_HOOK_INTERMEDIATE: u8 = 4;
pub const ACCOUNTS_TYPE_TRANSFER_HOOK_OUTPUT: u8 = 5;
pub const ACCOUNTS_TYPE_SUPPLEMENTAL_TICK_ARRAYS: u8 = 6;
pub const ACCOUNTS_TYPE_SUPPLEMENTAL_TICK_ARRAYS_ONE: u8 = 7;
pub const ACCOUNTS_TYPE_SUPPLEMENTAL_TICK_ARRAYS_TWO: u8 = 8;
pub const ACCOUNTS_TYPE_TRANSFER_HOOK_DEPOSIT_A: u8 = 9;
pub const ACCOUNTS_TYPE_TRANSFER_HOOK_DEPOSIT_B: u8 = 10;
pub const ACCOUNTS_TYPE_TRANSFER_HOOK_WITHDRAWAL_A: u8 = 11;
pub const ACCOUNTS_TYPE_TRANSFER_HOOK_WITHDRAWAL_B: u8 = 12;

// ------------------------------------------------------------------------------------------
// PDA helpers (program id `whirlpool::ID` unless stated). Keys may be passed by value or by ref.
// ------------------------------------------------------------------------------------------

fn pda(seeds: &[&[u8]]) -> (Pubkey, u8) {
    Pubkey::find_program_address(seeds, &whirlpool::ID)
}

/// `["whirlpool", config, mint_a, mint_b, u16 LE]`. The u16 is the tick spacing for
/// `initialize_pool` / `initialize_pool_v2` and `adaptive_fee_tier.fee_tier_index` for
/// `initialize_pool_with_adaptive_fee`.
pub fn pda_whirlpool(
    config: impl Borrow<Pubkey>,
    mint_a: impl Borrow<Pubkey>,
    mint_b: impl Borrow<Pubkey>,
    fee_tier_index_or_tick_spacing: u16,
) -> (Pubkey, u8) {
    pda(&[
        b"whirlpool",
        config.borrow().as_ref(),
        mint_a.borrow().as_ref(),
        mint_b.borrow().as_ref(),
        &fee_tier_index_or_tick_spacing.to_le_bytes(),
    ])
}

/// `["fee_tier", config, u16 LE]`. Shared by FeeTier (index = tick spacing) and
/// AdaptiveFeeTier (index = fee_tier_index).
pub fn pda_fee_tier(config: impl Borrow<Pubkey>, index: u16) -> (Pubkey, u8) {
    pda(&[b"fee_tier", config.borrow().as_ref(), &index.to_le_bytes()])
}

/// Alias of [`pda_fee_tier`]: the adaptive fee tier lives at the same seeds.
pub fn pda_adaptive_fee_tier(config: impl Borrow<Pubkey>, fee_tier_index: u16) -> (Pubkey, u8) {
    pda_fee_tier(config, fee_tier_index)
}

/// `["tick_array", whirlpool, decimal string of start_tick_index]` (fixed and dynamic).
pub fn pda_tick_array(whirlpool: impl Borrow<Pubkey>, start_tick_index: i32) -> (Pubkey, u8) {
    pda(&[
        b"tick_array",
        whirlpool.borrow().as_ref(),
        start_tick_index.to_string().as_bytes(),
    ])
}

/// `["position", position_mint]`
pub fn pda_position(position_mint: impl Borrow<Pubkey>) -> (Pubkey, u8) {
    pda(&[b"position", position_mint.borrow().as_ref()])
}

/// `["oracle", whirlpool]`
pub fn pda_oracle(whirlpool: impl Borrow<Pubkey>) -> (Pubkey, u8) {
    pda(&[b"oracle", whirlpool.borrow().as_ref()])
}

/// `["token_badge", config, mint]`
pub fn pda_token_badge(config: impl Borrow<Pubkey>, mint: impl Borrow<Pubkey>) -> (Pubkey, u8) {
    pda(&[b"token_badge", config.borrow().as_ref(), mint.borrow().as_ref()])
}

/// `["config_extension", config]`
pub fn pda_config_extension(config: impl Borrow<Pubkey>) -> (Pubkey, u8) {
    pda(&[b"config_extension", config.borrow().as_ref()])
}

/// `["position_bundle", position_bundle_mint]`
pub fn pda_position_bundle(bundle_mint: impl Borrow<Pubkey>) -> (Pubkey, u8) {
    pda(&[b"position_bundle", bundle_mint.borrow().as_ref()])
}

/// `["bundled_position", position_bundle_mint, decimal string of bundle_index]`
pub fn pda_bundled_position(bundle_mint: impl Borrow<Pubkey>, index: u8) -> (Pubkey, u8) {
    pda_bundled_position_u16(bundle_mint, index as u16)
}

/// Same as [`pda_bundled_position`] with the full `u16` range of the on-chain `bundle_index`
/// argument (valid indices are 0..=255; larger ones are only useful for negative tests).
pub fn pda_bundled_position_u16(bundle_mint: impl Borrow<Pubkey>, index: u16) -> (Pubkey, u8) {
    pda(&[
        b"bundled_position",
        bundle_mint.borrow().as_ref(),
        index.to_string().as_bytes(),
    ])
}

/// `["lock_config", position]`
pub fn pda_lock_config(position: impl Borrow<Pubkey>) -> (Pubkey, u8) {
    pda(&[b"lock_config", position.borrow().as_ref()])
}

/// Metaplex metadata account: `["metadata", METADATA_PROGRAM_ID, mint]` under `METADATA_PROGRAM_ID`.
pub fn pda_metadata(mint: impl Borrow<Pubkey>) -> (Pubkey, u8) {
    Pubkey::find_program_address(
        &[b"metadata", METADATA_PROGRAM_ID.as_ref(), mint.borrow().as_ref()],
        &METADATA_PROGRAM_ID,
    )
}

/// Associated token account: `[wallet, token_program, mint]` under the ATA program.
/// Used for `position_token_account` / `position_bundle_token_account` of the open/initialize
/// instructions (token_program = spl-token, or token-2022 for `*_with_token_extensions`).
pub fn pda_associated_token(
    wallet: impl Borrow<Pubkey>,
    mint: impl Borrow<Pubkey>,
    token_program: impl Borrow<Pubkey>,
) -> (Pubkey, u8) {
    Pubkey::find_program_address(
        &[
            wallet.borrow().as_ref(),
            token_program.borrow().as_ref(),
            mint.borrow().as_ref(),
        ],
        &ASSOCIATED_TOKEN_PROGRAM_ID,
    )
}

// ------------------------------------------------------------------------------------------
// Small helpers
// ------------------------------------------------------------------------------------------

/// Flip one named slot to writable. The Anchor structs of `swap` / `two_hop_swap` declare the
/// oracle slots read-only, but the handlers accept them writable for adaptive-fee pools.
pub fn make_writable(mut ix: Ix, slot: &str) -> Ix {
    let i = ix.slot(slot).unwrap_or_else(|| panic!("{}: no slot {slot}", ix.name));
    ix.metas[i].writable = true;
    ix
}

fn opt_u16(a: Args, v: Option<u16>) -> Args {
    match v {
        None => a.u8(0),
        Some(x) => a.u8(1).u16(x),
    }
}

fn opt_u32(a: Args, v: Option<u32>) -> Args {
    match v {
        None => a.u8(0),
        Some(x) => a.u8(1).u32(x),
    }
}

/// `Option<RemainingAccountsInfo>`; each tuple is `(accounts_type variant index, length)`.
fn rem_info(a: Args, v: &Option<Vec<(u8, u8)>>) -> Args {
    match v {
        None => a.u8(0),
        Some(slices) => {
            let mut a = a.u8(1).u32(slices.len() as u32);
            for (accounts_type, length) in slices {
                a = a.u8(*accounts_type).u8(*length);
            }
            a
        }
    }
}

/// `accounts!(Name { <flag> <slot>, ... })` defines `pub struct Name { pub <slot>: Pubkey, ... }`,
/// `Name::SLOTS` and `Name::metas()`. `<flag>` is one of the meta constructors `ws`/`rs`/`w`/`r`.
macro_rules! accounts {
    ($name:ident { $($flag:ident $field:ident),* $(,)? }) => {
        #[derive(Clone, Debug)]
        pub struct $name { $(pub $field: Pubkey),* }
        impl $name {
            pub const SLOTS: &'static [&'static str] = &[$(stringify!($field)),*];
            pub fn metas(&self) -> Vec<Meta> {
                vec![$($flag(stringify!($field), self.$field)),*]
            }
            /// Every slot set to a fresh unique key (tests).
            #[cfg(test)]
            fn unique() -> Self {
                $name { $($field: Pubkey::new_unique()),* }
            }
            /// Compare order + flags with the metas Anchor generates for its own clients.
            #[cfg(test)]
            fn check_against_anchor() {
                use anchor_lang::ToAccountMetas;
                let me = Self::unique();
                let theirs = whirlpool::accounts::$name { $($field: me.$field),* }
                    .to_account_metas(None);
                let mine = me.metas();
                assert_eq!(mine.len(), theirs.len(), "{}: slot count", stringify!($name));
                for (m, t) in mine.iter().zip(theirs.iter()) {
                    assert_eq!(m.key, t.pubkey, "{}.{}: order", stringify!($name), m.name);
                    assert_eq!(m.signer, t.is_signer, "{}.{}: signer", stringify!($name), m.name);
                    assert_eq!(m.writable, t.is_writable, "{}.{}: writable", stringify!($name), m.name);
                }
            }
        }
    };
}

// ==========================================================================================
// Builders, in lib.rs order
// ==========================================================================================

// `config` is a fresh keypair (`init` without seeds) => signer.
accounts!(InitializeConfig { ws config, ws funder, r system_program });
impl InitializeConfig {
    pub fn ix(
        &self,
        fee_authority: Pubkey,
        collect_protocol_fees_authority: Pubkey,
        reward_emissions_super_authority: Pubkey,
        default_protocol_fee_rate: u16,
    ) -> Ix {
        Ix::new(
            "initialize_config",
            self.metas(),
            Args::new()
                .pubkey(&fee_authority)
                .pubkey(&collect_protocol_fees_authority)
                .pubkey(&reward_emissions_super_authority)
                .u16(default_protocol_fee_rate)
                .done(),
        )
    }
}

// token_vault_a / token_vault_b: `init` without seeds => fresh keypairs => signers.
accounts!(InitializePool {
    r whirlpools_config,
    r token_mint_a,
    r token_mint_b,
    ws funder,
    w whirlpool,
    ws token_vault_a,
    ws token_vault_b,
    r fee_tier,
    r token_program,
    r system_program,
    r rent,
});
impl InitializePool {
    pub fn ix(&self, bumps: WhirlpoolBumps, tick_spacing: u16, initial_sqrt_price: u128) -> Ix {
        Ix::new(
            "initialize_pool",
            self.metas(),
            Args::new().u8(bumps.whirlpool_bump).u16(tick_spacing).u128(initial_sqrt_price).done(),
        )
    }
}

accounts!(InitializeTickArray { r whirlpool, ws funder, w tick_array, r system_program });
impl InitializeTickArray {
    pub fn ix(&self, start_tick_index: i32) -> Ix {
        Ix::new("initialize_tick_array", self.metas(), Args::new().i32(start_tick_index).done())
    }
}

accounts!(InitializeDynamicTickArray { r whirlpool, ws funder, w tick_array, r system_program });
impl InitializeDynamicTickArray {
    pub fn ix(&self, start_tick_index: i32, idempotent: bool) -> Ix {
        Ix::new(
            "initialize_dynamic_tick_array",
            self.metas(),
            Args::new().i32(start_tick_index).bool(idempotent).done(),
        )
    }
}

accounts!(InitializeFeeTier { r config, w fee_tier, ws funder, rs fee_authority, r system_program });
impl InitializeFeeTier {
    pub fn ix(&self, tick_spacing: u16, default_fee_rate: u16) -> Ix {
        Ix::new(
            "initialize_fee_tier",
            self.metas(),
            Args::new().u16(tick_spacing).u16(default_fee_rate).done(),
        )
    }
}

// reward_vault: `init` without seeds => fresh keypair => signer.
accounts!(InitializeReward {
    rs reward_authority,
    ws funder,
    w whirlpool,
    r reward_mint,
    ws reward_vault,
    r token_program,
    r system_program,
    r rent,
});
impl InitializeReward {
    pub fn ix(&self, reward_index: u8) -> Ix {
        Ix::new("initialize_reward", self.metas(), Args::new().u8(reward_index).done())
    }
}

accounts!(SetRewardEmissions { w whirlpool, rs reward_authority, r reward_vault });
impl SetRewardEmissions {
    pub fn ix(&self, reward_index: u8, emissions_per_second_x64: u128) -> Ix {
        Ix::new(
            "set_reward_emissions",
            self.metas(),
            Args::new().u8(reward_index).u128(emissions_per_second_x64).done(),
        )
    }
}

// position_mint: `init` without seeds => signer. position_token_account: `init` with
// `associated_token::*` => created through the ATA program, writable but NOT a signer.
accounts!(OpenPosition {
    ws funder,
    r owner,
    w position,
    ws position_mint,
    w position_token_account,
    r whirlpool,
    r token_program,
    r system_program,
    r rent,
    r associated_token_program,
});
impl OpenPosition {
    pub fn ix(&self, bumps: OpenPositionBumps, tick_lower_index: i32, tick_upper_index: i32) -> Ix {
        Ix::new(
            "open_position",
            self.metas(),
            Args::new().u8(bumps.position_bump).i32(tick_lower_index).i32(tick_upper_index).done(),
        )
    }
}

accounts!(OpenPositionWithMetadata {
    ws funder,
    r owner,
    w position,
    ws position_mint,
    w position_metadata_account,
    w position_token_account,
    r whirlpool,
    r token_program,
    r system_program,
    r rent,
    r associated_token_program,
    r metadata_program,
    r metadata_update_auth,
});
impl OpenPositionWithMetadata {
    pub fn ix(
        &self,
        bumps: OpenPositionWithMetadataBumps,
        tick_lower_index: i32,
        tick_upper_index: i32,
    ) -> Ix {
        Ix::new(
            "open_position_with_metadata",
            self.metas(),
            Args::new()
                .u8(bumps.position_bump)
                .u8(bumps.metadata_bump)
                .i32(tick_lower_index)
                .i32(tick_upper_index)
                .done(),
        )
    }
}

// Pinocchio-routed (increase_liquidity / decrease_liquidity). Handler iterator:
// next_mut, next_program_token, next_signer, next_mut, next, next_mut x6 -- identical to the
// Anchor struct in order and writability.
accounts!(ModifyLiquidity {
    w whirlpool,
    r token_program,
    rs position_authority,
    w position,
    r position_token_account,
    w token_owner_account_a,
    w token_owner_account_b,
    w token_vault_a,
    w token_vault_b,
    w tick_array_lower,
    w tick_array_upper,
});
impl ModifyLiquidity {
    pub fn increase_liquidity(&self, liquidity_amount: u128, token_max_a: u64, token_max_b: u64) -> Ix {
        Ix::new(
            "increase_liquidity",
            self.metas(),
            Args::new().u128(liquidity_amount).u64(token_max_a).u64(token_max_b).done(),
        )
    }
    pub fn decrease_liquidity(&self, liquidity_amount: u128, token_min_a: u64, token_min_b: u64) -> Ix {
        Ix::new(
            "decrease_liquidity",
            self.metas(),
            Args::new().u128(liquidity_amount).u64(token_min_a).u64(token_min_b).done(),
        )
    }
}

accounts!(UpdateFeesAndRewards { w whirlpool, w position, r tick_array_lower, r tick_array_upper });
impl UpdateFeesAndRewards {
    pub fn ix(&self) -> Ix {
        Ix::new("update_fees_and_rewards", self.metas(), vec![])
    }
}

accounts!(CollectFees {
    r whirlpool,
    rs position_authority,
    w position,
    r position_token_account,
    w token_owner_account_a,
    w token_vault_a,
    w token_owner_account_b,
    w token_vault_b,
    r token_program,
});
impl CollectFees {
    pub fn ix(&self) -> Ix {
        Ix::new("collect_fees", self.metas(), vec![])
    }
}

accounts!(CollectReward {
    r whirlpool,
    rs position_authority,
    w position,
    r position_token_account,
    w reward_owner_account,
    w reward_vault,
    r token_program,
});
impl CollectReward {
    pub fn ix(&self, reward_index: u8) -> Ix {
        Ix::new("collect_reward", self.metas(), Args::new().u8(reward_index).done())
    }
}

accounts!(CollectProtocolFees {
    r whirlpools_config,
    w whirlpool,
    rs collect_protocol_fees_authority,
    w token_vault_a,
    w token_vault_b,
    w token_destination_a,
    w token_destination_b,
    r token_program,
});
impl CollectProtocolFees {
    pub fn ix(&self) -> Ix {
        Ix::new("collect_protocol_fees", self.metas(), vec![])
    }
}

// NOTE: `oracle` is declared WITHOUT `mut` in the Anchor struct, so it is read-only here. For
// adaptive-fee pools the handler needs it writable: either append the oracle as a writable
// remaining account or use `make_writable(ix, "oracle")`.
accounts!(Swap {
    r token_program,
    rs token_authority,
    w whirlpool,
    w token_owner_account_a,
    w token_vault_a,
    w token_owner_account_b,
    w token_vault_b,
    w tick_array_0,
    w tick_array_1,
    w tick_array_2,
    r oracle,
});
impl Swap {
    pub fn ix(
        &self,
        amount: u64,
        other_amount_threshold: u64,
        sqrt_price_limit: u128,
        amount_specified_is_input: bool,
        a_to_b: bool,
    ) -> Ix {
        Ix::new(
            "swap",
            self.metas(),
            Args::new()
                .u64(amount)
                .u64(other_amount_threshold)
                .u128(sqrt_price_limit)
                .bool(amount_specified_is_input)
                .bool(a_to_b)
                .done(),
        )
    }
}

accounts!(ClosePosition {
    rs position_authority,
    w receiver,
    w position,
    w position_mint,
    w position_token_account,
    r token_program,
});
impl ClosePosition {
    pub fn ix(&self) -> Ix {
        Ix::new("close_position", self.metas(), vec![])
    }
}

accounts!(SetDefaultFeeRate { r whirlpools_config, w fee_tier, rs fee_authority });
impl SetDefaultFeeRate {
    pub fn ix(&self, default_fee_rate: u16) -> Ix {
        Ix::new("set_default_fee_rate", self.metas(), Args::new().u16(default_fee_rate).done())
    }
}

accounts!(SetDefaultProtocolFeeRate { w whirlpools_config, rs fee_authority });
impl SetDefaultProtocolFeeRate {
    pub fn ix(&self, default_protocol_fee_rate: u16) -> Ix {
        Ix::new(
            "set_default_protocol_fee_rate",
            self.metas(),
            Args::new().u16(default_protocol_fee_rate).done(),
        )
    }
}

accounts!(SetFeeRate { r whirlpools_config, w whirlpool, rs fee_authority });
impl SetFeeRate {
    pub fn ix(&self, fee_rate: u16) -> Ix {
        Ix::new("set_fee_rate", self.metas(), Args::new().u16(fee_rate).done())
    }
}

accounts!(SetProtocolFeeRate { r whirlpools_config, w whirlpool, rs fee_authority });
impl SetProtocolFeeRate {
    pub fn ix(&self, protocol_fee_rate: u16) -> Ix {
        Ix::new("set_protocol_fee_rate", self.metas(), Args::new().u16(protocol_fee_rate).done())
    }
}

accounts!(SetFeeAuthority { w whirlpools_config, rs fee_authority, r new_fee_authority });
impl SetFeeAuthority {
    pub fn ix(&self) -> Ix {
        Ix::new("set_fee_authority", self.metas(), vec![])
    }
}

accounts!(SetCollectProtocolFeesAuthority {
    w whirlpools_config,
    rs collect_protocol_fees_authority,
    r new_collect_protocol_fees_authority,
});
impl SetCollectProtocolFeesAuthority {
    pub fn ix(&self) -> Ix {
        Ix::new("set_collect_protocol_fees_authority", self.metas(), vec![])
    }
}

accounts!(SetRewardAuthority { w whirlpool, rs reward_authority, r new_reward_authority });
impl SetRewardAuthority {
    pub fn ix(&self, reward_index: u8) -> Ix {
        Ix::new("set_reward_authority", self.metas(), Args::new().u8(reward_index).done())
    }
}

accounts!(SetRewardAuthorityBySuperAuthority {
    r whirlpools_config,
    w whirlpool,
    rs reward_emissions_super_authority,
    r new_reward_authority,
});
impl SetRewardAuthorityBySuperAuthority {
    pub fn ix(&self, reward_index: u8) -> Ix {
        Ix::new(
            "set_reward_authority_by_super_authority",
            self.metas(),
            Args::new().u8(reward_index).done(),
        )
    }
}

accounts!(SetRewardEmissionsSuperAuthority {
    w whirlpools_config,
    rs reward_emissions_super_authority,
    r new_reward_emissions_super_authority,
});
impl SetRewardEmissionsSuperAuthority {
    pub fn ix(&self) -> Ix {
        Ix::new("set_reward_emissions_super_authority", self.metas(), vec![])
    }
}

// NOTE: `oracle_one` / `oracle_two` are declared WITHOUT `mut` in the Anchor struct (see `Swap`).
accounts!(TwoHopSwap {
    r token_program,
    rs token_authority,
    w whirlpool_one,
    w whirlpool_two,
    w token_owner_account_one_a,
    w token_vault_one_a,
    w token_owner_account_one_b,
    w token_vault_one_b,
    w token_owner_account_two_a,
    w token_vault_two_a,
    w token_owner_account_two_b,
    w token_vault_two_b,
    w tick_array_one_0,
    w tick_array_one_1,
    w tick_array_one_2,
    w tick_array_two_0,
    w tick_array_two_1,
    w tick_array_two_2,
    r oracle_one,
    r oracle_two,
});
impl TwoHopSwap {
    #[allow(clippy::too_many_arguments)]
    pub fn ix(
        &self,
        amount: u64,
        other_amount_threshold: u64,
        amount_specified_is_input: bool,
        a_to_b_one: bool,
        a_to_b_two: bool,
        sqrt_price_limit_one: u128,
        sqrt_price_limit_two: u128,
    ) -> Ix {
        Ix::new(
            "two_hop_swap",
            self.metas(),
            Args::new()
                .u64(amount)
                .u64(other_amount_threshold)
                .bool(amount_specified_is_input)
                .bool(a_to_b_one)
                .bool(a_to_b_two)
                .u128(sqrt_price_limit_one)
                .u128(sqrt_price_limit_two)
                .done(),
        )
    }
}

// position_bundle_mint: `init` without seeds => signer. position_bundle_token_account: ATA.
accounts!(InitializePositionBundle {
    w position_bundle,
    ws position_bundle_mint,
    w position_bundle_token_account,
    r position_bundle_owner,
    ws funder,
    r token_program,
    r system_program,
    r rent,
    r associated_token_program,
});
impl InitializePositionBundle {
    pub fn ix(&self) -> Ix {
        Ix::new("initialize_position_bundle", self.metas(), vec![])
    }
}

accounts!(InitializePositionBundleWithMetadata {
    w position_bundle,
    ws position_bundle_mint,
    w position_bundle_metadata,
    w position_bundle_token_account,
    r position_bundle_owner,
    ws funder,
    r metadata_update_auth,
    r token_program,
    r system_program,
    r rent,
    r associated_token_program,
    r metadata_program,
});
impl InitializePositionBundleWithMetadata {
    pub fn ix(&self) -> Ix {
        Ix::new("initialize_position_bundle_with_metadata", self.metas(), vec![])
    }
}

accounts!(DeletePositionBundle {
    w position_bundle,
    w position_bundle_mint,
    w position_bundle_token_account,
    rs position_bundle_owner,
    w receiver,
    r token_program,
});
impl DeletePositionBundle {
    pub fn ix(&self) -> Ix {
        Ix::new("delete_position_bundle", self.metas(), vec![])
    }
}

accounts!(OpenBundledPosition {
    w bundled_position,
    w position_bundle,
    r position_bundle_token_account,
    rs position_bundle_authority,
    r whirlpool,
    ws funder,
    r system_program,
    r rent,
});
impl OpenBundledPosition {
    pub fn ix(&self, bundle_index: u16, tick_lower_index: i32, tick_upper_index: i32) -> Ix {
        Ix::new(
            "open_bundled_position",
            self.metas(),
            Args::new().u16(bundle_index).i32(tick_lower_index).i32(tick_upper_index).done(),
        )
    }
}

accounts!(CloseBundledPosition {
    w bundled_position,
    w position_bundle,
    r position_bundle_token_account,
    rs position_bundle_authority,
    w receiver,
});
impl CloseBundledPosition {
    pub fn ix(&self, bundle_index: u16) -> Ix {
        Ix::new("close_bundled_position", self.metas(), Args::new().u16(bundle_index).done())
    }
}

// position_mint is `#[account(mut)] Signer` (fresh keypair, initialized in the handler).
accounts!(OpenPositionWithTokenExtensions {
    ws funder,
    r owner,
    w position,
    ws position_mint,
    w position_token_account,
    r whirlpool,
    r token_2022_program,
    r system_program,
    r associated_token_program,
    r metadata_update_auth,
});
impl OpenPositionWithTokenExtensions {
    pub fn ix(
        &self,
        tick_lower_index: i32,
        tick_upper_index: i32,
        with_token_metadata_extension: bool,
    ) -> Ix {
        Ix::new(
            "open_position_with_token_extensions",
            self.metas(),
            Args::new()
                .i32(tick_lower_index)
                .i32(tick_upper_index)
                .bool(with_token_metadata_extension)
                .done(),
        )
    }
}

accounts!(ClosePositionWithTokenExtensions {
    rs position_authority,
    w receiver,
    w position,
    w position_mint,
    w position_token_account,
    r token_2022_program,
});
impl ClosePositionWithTokenExtensions {
    pub fn ix(&self) -> Ix {
        Ix::new("close_position_with_token_extensions", self.metas(), vec![])
    }
}

accounts!(LockPosition {
    ws funder,
    rs position_authority,
    r position,
    r position_mint,
    w position_token_account,
    w lock_config,
    r whirlpool,
    r token_2022_program,
    r system_program,
});
impl LockPosition {
    pub fn ix(&self, lock_type: LockType) -> Ix {
        // `LockType` is #[non_exhaustive]; variant index = declaration order.
        #[allow(unreachable_patterns)]
        let variant: u8 = match lock_type {
            LockType::Permanent => 0,
            _ => unimplemented!("unknown LockType variant"),
        };
        Ix::new("lock_position", self.metas(), Args::new().u8(variant).done())
    }
    /// Raw variant byte (for malformed-argument tests).
    pub fn ix_raw(&self, lock_type_variant: u8) -> Ix {
        Ix::new("lock_position", self.metas(), Args::new().u8(lock_type_variant).done())
    }
}

accounts!(ResetPositionRange {
    ws funder,
    rs position_authority,
    r whirlpool,
    w position,
    r position_token_account,
    r system_program,
});
impl ResetPositionRange {
    pub fn ix(&self, new_tick_lower_index: i32, new_tick_upper_index: i32) -> Ix {
        Ix::new(
            "reset_position_range",
            self.metas(),
            Args::new().i32(new_tick_lower_index).i32(new_tick_upper_index).done(),
        )
    }
}

accounts!(TransferLockedPosition {
    rs position_authority,
    w receiver,
    r position,
    r position_mint,
    w position_token_account,
    w destination_token_account,
    w lock_config,
    r token_2022_program,
});
impl TransferLockedPosition {
    pub fn ix(&self) -> Ix {
        Ix::new("transfer_locked_position", self.metas(), vec![])
    }
}

accounts!(InitializeAdaptiveFeeTier {
    r whirlpools_config,
    w adaptive_fee_tier,
    ws funder,
    rs fee_authority,
    r system_program,
});
impl InitializeAdaptiveFeeTier {
    #[allow(clippy::too_many_arguments)]
    pub fn ix(
        &self,
        fee_tier_index: u16,
        tick_spacing: u16,
        initialize_pool_authority: Pubkey,
        delegated_fee_authority: Pubkey,
        default_base_fee_rate: u16,
        filter_period: u16,
        decay_period: u16,
        reduction_factor: u16,
        adaptive_fee_control_factor: u32,
        max_volatility_accumulator: u32,
        tick_group_size: u16,
        major_swap_threshold_ticks: u16,
    ) -> Ix {
        Ix::new(
            "initialize_adaptive_fee_tier",
            self.metas(),
            Args::new()
                .u16(fee_tier_index)
                .u16(tick_spacing)
                .pubkey(&initialize_pool_authority)
                .pubkey(&delegated_fee_authority)
                .u16(default_base_fee_rate)
                .u16(filter_period)
                .u16(decay_period)
                .u16(reduction_factor)
                .u32(adaptive_fee_control_factor)
                .u32(max_volatility_accumulator)
                .u16(tick_group_size)
                .u16(major_swap_threshold_ticks)
                .done(),
        )
    }
}

accounts!(SetDefaultBaseFeeRate { r whirlpools_config, w adaptive_fee_tier, rs fee_authority });
impl SetDefaultBaseFeeRate {
    pub fn ix(&self, default_base_fee_rate: u16) -> Ix {
        Ix::new(
            "set_default_base_fee_rate",
            self.metas(),
            Args::new().u16(default_base_fee_rate).done(),
        )
    }
}

accounts!(SetDelegatedFeeAuthority {
    r whirlpools_config,
    w adaptive_fee_tier,
    rs fee_authority,
    r new_delegated_fee_authority,
});
impl SetDelegatedFeeAuthority {
    pub fn ix(&self) -> Ix {
        Ix::new("set_delegated_fee_authority", self.metas(), vec![])
    }
}

accounts!(SetInitializePoolAuthority {
    r whirlpools_config,
    w adaptive_fee_tier,
    rs fee_authority,
    r new_initialize_pool_authority,
});
impl SetInitializePoolAuthority {
    pub fn ix(&self) -> Ix {
        Ix::new("set_initialize_pool_authority", self.metas(), vec![])
    }
}

accounts!(SetPresetAdaptiveFeeConstants { r whirlpools_config, w adaptive_fee_tier, rs fee_authority });
impl SetPresetAdaptiveFeeConstants {
    #[allow(clippy::too_many_arguments)]
    pub fn ix(
        &self,
        filter_period: u16,
        decay_period: u16,
        reduction_factor: u16,
        adaptive_fee_control_factor: u32,
        max_volatility_accumulator: u32,
        tick_group_size: u16,
        major_swap_threshold_ticks: u16,
    ) -> Ix {
        Ix::new(
            "set_preset_adaptive_fee_constants",
            self.metas(),
            Args::new()
                .u16(filter_period)
                .u16(decay_period)
                .u16(reduction_factor)
                .u32(adaptive_fee_control_factor)
                .u32(max_volatility_accumulator)
                .u16(tick_group_size)
                .u16(major_swap_threshold_ticks)
                .done(),
        )
    }
}

// token_vault_a / token_vault_b are `#[account(mut)] Signer` (fresh keypairs).
// whirlpool and oracle are PDAs (`init` with seeds) => writable, not signers.
accounts!(InitializePoolWithAdaptiveFee {
    r whirlpools_config,
    r token_mint_a,
    r token_mint_b,
    r token_badge_a,
    r token_badge_b,
    ws funder,
    rs initialize_pool_authority,
    w whirlpool,
    w oracle,
    ws token_vault_a,
    ws token_vault_b,
    r adaptive_fee_tier,
    r token_program_a,
    r token_program_b,
    r system_program,
    r rent,
});
impl InitializePoolWithAdaptiveFee {
    pub fn ix(&self, initial_sqrt_price: u128, trade_enable_timestamp: Option<u64>) -> Ix {
        Ix::new(
            "initialize_pool_with_adaptive_fee",
            self.metas(),
            Args::new().u128(initial_sqrt_price).opt_u64(trade_enable_timestamp).done(),
        )
    }
}

accounts!(SetFeeRateByDelegatedFeeAuthority { w whirlpool, r adaptive_fee_tier, rs delegated_fee_authority });
impl SetFeeRateByDelegatedFeeAuthority {
    pub fn ix(&self, fee_rate: u16) -> Ix {
        Ix::new(
            "set_fee_rate_by_delegated_fee_authority",
            self.metas(),
            Args::new().u16(fee_rate).done(),
        )
    }
}

accounts!(SetAdaptiveFeeConstants { r whirlpool, r whirlpools_config, w oracle, rs fee_authority });
impl SetAdaptiveFeeConstants {
    #[allow(clippy::too_many_arguments)]
    pub fn ix(
        &self,
        filter_period: Option<u16>,
        decay_period: Option<u16>,
        reduction_factor: Option<u16>,
        adaptive_fee_control_factor: Option<u32>,
        max_volatility_accumulator: Option<u32>,
        tick_group_size: Option<u16>,
        major_swap_threshold_ticks: Option<u16>,
    ) -> Ix {
        let a = Args::new();
        let a = opt_u16(a, filter_period);
        let a = opt_u16(a, decay_period);
        let a = opt_u16(a, reduction_factor);
        let a = opt_u32(a, adaptive_fee_control_factor);
        let a = opt_u32(a, max_volatility_accumulator);
        let a = opt_u16(a, tick_group_size);
        let a = opt_u16(a, major_swap_threshold_ticks);
        Ix::new("set_adaptive_fee_constants", self.metas(), a.done())
    }
}

accounts!(SetConfigFeatureFlag { w whirlpools_config, rs authority });
impl SetConfigFeatureFlag {
    pub fn ix(&self, feature_flag: ConfigFeatureFlag) -> Ix {
        // `ConfigFeatureFlag` is #[non_exhaustive]; variant index + payload.
        #[allow(unreachable_patterns)]
        let args = match feature_flag {
            ConfigFeatureFlag::TokenBadge(enabled) => Args::new().u8(0).bool(enabled),
            _ => unimplemented!("unknown ConfigFeatureFlag variant"),
        };
        Ix::new("set_config_feature_flag", self.metas(), args.done())
    }
    /// Raw argument bytes (for malformed-argument tests).
    pub fn ix_raw(&self, feature_flag_bytes: &[u8]) -> Ix {
        Ix::new("set_config_feature_flag", self.metas(), feature_flag_bytes.to_vec())
    }
}

accounts!(MigrateRepurposeRewardAuthoritySpace { w whirlpool });
impl MigrateRepurposeRewardAuthoritySpace {
    pub fn ix(&self) -> Ix {
        Ix::new("migrate_repurpose_reward_authority_space", self.metas(), vec![])
    }
}

// ------------------------------------------------------------------------------------------
// V2 instructions (TokenExtensions)
// ------------------------------------------------------------------------------------------

accounts!(CollectFeesV2 {
    r whirlpool,
    rs position_authority,
    w position,
    r position_token_account,
    r token_mint_a,
    r token_mint_b,
    w token_owner_account_a,
    w token_vault_a,
    w token_owner_account_b,
    w token_vault_b,
    r token_program_a,
    r token_program_b,
    r memo_program,
});
impl CollectFeesV2 {
    pub fn ix(&self, remaining_accounts_info: Option<Vec<(u8, u8)>>) -> Ix {
        Ix::new(
            "collect_fees_v2",
            self.metas(),
            rem_info(Args::new(), &remaining_accounts_info).done(),
        )
    }
}

accounts!(CollectProtocolFeesV2 {
    r whirlpools_config,
    w whirlpool,
    rs collect_protocol_fees_authority,
    r token_mint_a,
    r token_mint_b,
    w token_vault_a,
    w token_vault_b,
    w token_destination_a,
    w token_destination_b,
    r token_program_a,
    r token_program_b,
    r memo_program,
});
impl CollectProtocolFeesV2 {
    pub fn ix(&self, remaining_accounts_info: Option<Vec<(u8, u8)>>) -> Ix {
        Ix::new(
            "collect_protocol_fees_v2",
            self.metas(),
            rem_info(Args::new(), &remaining_accounts_info).done(),
        )
    }
}

accounts!(CollectRewardV2 {
    r whirlpool,
    rs position_authority,
    w position,
    r position_token_account,
    w reward_owner_account,
    r reward_mint,
    w reward_vault,
    r reward_token_program,
    r memo_program,
});
impl CollectRewardV2 {
    pub fn ix(&self, reward_index: u8, remaining_accounts_info: Option<Vec<(u8, u8)>>) -> Ix {
        Ix::new(
            "collect_reward_v2",
            self.metas(),
            rem_info(Args::new().u8(reward_index), &remaining_accounts_info).done(),
        )
    }
}

// Pinocchio-routed (decrease_liquidity_v2 / increase_liquidity_v2 /
// increase_liquidity_by_token_amounts_v2). Handler iterator: next_mut,
// next_program_token_or_token_2022 x2, next_program_memo, next_signer, next_mut, next x3,
// next_mut x6 -- identical to the Anchor struct in order and writability.
accounts!(ModifyLiquidityV2 {
    w whirlpool,
    r token_program_a,
    r token_program_b,
    r memo_program,
    rs position_authority,
    w position,
    r position_token_account,
    r token_mint_a,
    r token_mint_b,
    w token_owner_account_a,
    w token_owner_account_b,
    w token_vault_a,
    w token_vault_b,
    w tick_array_lower,
    w tick_array_upper,
});
impl ModifyLiquidityV2 {
    pub fn decrease_liquidity_v2(
        &self,
        liquidity_amount: u128,
        token_min_a: u64,
        token_min_b: u64,
        remaining_accounts_info: Option<Vec<(u8, u8)>>,
    ) -> Ix {
        let a = Args::new().u128(liquidity_amount).u64(token_min_a).u64(token_min_b);
        Ix::new("decrease_liquidity_v2", self.metas(), rem_info(a, &remaining_accounts_info).done())
    }
    pub fn increase_liquidity_v2(
        &self,
        liquidity_amount: u128,
        token_max_a: u64,
        token_max_b: u64,
        remaining_accounts_info: Option<Vec<(u8, u8)>>,
    ) -> Ix {
        let a = Args::new().u128(liquidity_amount).u64(token_max_a).u64(token_max_b);
        Ix::new("increase_liquidity_v2", self.metas(), rem_info(a, &remaining_accounts_info).done())
    }
    pub fn increase_liquidity_by_token_amounts_v2(
        &self,
        method: IncreaseLiquidityMethod,
        remaining_accounts_info: Option<Vec<(u8, u8)>>,
    ) -> Ix {
        let a = match method {
            IncreaseLiquidityMethod::ByTokenAmounts {
                token_max_a,
                token_max_b,
                min_sqrt_price,
                max_sqrt_price,
            } => Args::new()
                .u8(0)
                .u64(token_max_a)
                .u64(token_max_b)
                .u128(min_sqrt_price)
                .u128(max_sqrt_price),
        };
        Ix::new(
            "increase_liquidity_by_token_amounts_v2",
            self.metas(),
            rem_info(a, &remaining_accounts_info).done(),
        )
    }
}

// token_vault_a / token_vault_b are `#[account(mut)] Signer` (fresh keypairs).
accounts!(InitializePoolV2 {
    r whirlpools_config,
    r token_mint_a,
    r token_mint_b,
    r token_badge_a,
    r token_badge_b,
    ws funder,
    w whirlpool,
    ws token_vault_a,
    ws token_vault_b,
    r fee_tier,
    r token_program_a,
    r token_program_b,
    r system_program,
    r rent,
});
impl InitializePoolV2 {
    pub fn ix(&self, tick_spacing: u16, initial_sqrt_price: u128) -> Ix {
        Ix::new(
            "initialize_pool_v2",
            self.metas(),
            Args::new().u16(tick_spacing).u128(initial_sqrt_price).done(),
        )
    }
}

// reward_vault is `#[account(mut)] Signer` (fresh keypair).
accounts!(InitializeRewardV2 {
    rs reward_authority,
    ws funder,
    w whirlpool,
    r reward_mint,
    r reward_token_badge,
    ws reward_vault,
    r reward_token_program,
    r system_program,
    r rent,
});
impl InitializeRewardV2 {
    pub fn ix(&self, reward_index: u8) -> Ix {
        Ix::new("initialize_reward_v2", self.metas(), Args::new().u8(reward_index).done())
    }
}

accounts!(SetRewardEmissionsV2 { w whirlpool, rs reward_authority, r reward_vault });
impl SetRewardEmissionsV2 {
    pub fn ix(&self, reward_index: u8, emissions_per_second_x64: u128) -> Ix {
        Ix::new(
            "set_reward_emissions_v2",
            self.metas(),
            Args::new().u8(reward_index).u128(emissions_per_second_x64).done(),
        )
    }
}

// Unlike `Swap`, the V2 struct declares `oracle` as `mut`.
accounts!(SwapV2 {
    r token_program_a,
    r token_program_b,
    r memo_program,
    rs token_authority,
    w whirlpool,
    r token_mint_a,
    r token_mint_b,
    w token_owner_account_a,
    w token_vault_a,
    w token_owner_account_b,
    w token_vault_b,
    w tick_array_0,
    w tick_array_1,
    w tick_array_2,
    w oracle,
});
impl SwapV2 {
    #[allow(clippy::too_many_arguments)]
    pub fn ix(
        &self,
        amount: u64,
        other_amount_threshold: u64,
        sqrt_price_limit: u128,
        amount_specified_is_input: bool,
        a_to_b: bool,
        remaining_accounts_info: Option<Vec<(u8, u8)>>,
    ) -> Ix {
        let a = Args::new()
            .u64(amount)
            .u64(other_amount_threshold)
            .u128(sqrt_price_limit)
            .bool(amount_specified_is_input)
            .bool(a_to_b);
        Ix::new("swap_v2", self.metas(), rem_info(a, &remaining_accounts_info).done())
    }
}

accounts!(TwoHopSwapV2 {
    w whirlpool_one,
    w whirlpool_two,
    r token_mint_input,
    r token_mint_intermediate,
    r token_mint_output,
    r token_program_input,
    r token_program_intermediate,
    r token_program_output,
    w token_owner_account_input,
    w token_vault_one_input,
    w token_vault_one_intermediate,
    w token_vault_two_intermediate,
    w token_vault_two_output,
    w token_owner_account_output,
    rs token_authority,
    w tick_array_one_0,
    w tick_array_one_1,
    w tick_array_one_2,
    w tick_array_two_0,
    w tick_array_two_1,
    w tick_array_two_2,
    w oracle_one,
    w oracle_two,
    r memo_program,
});
impl TwoHopSwapV2 {
    #[allow(clippy::too_many_arguments)]
    pub fn ix(
        &self,
        amount: u64,
        other_amount_threshold: u64,
        amount_specified_is_input: bool,
        a_to_b_one: bool,
        a_to_b_two: bool,
        sqrt_price_limit_one: u128,
        sqrt_price_limit_two: u128,
        remaining_accounts_info: Option<Vec<(u8, u8)>>,
    ) -> Ix {
        let a = Args::new()
            .u64(amount)
            .u64(other_amount_threshold)
            .bool(amount_specified_is_input)
            .bool(a_to_b_one)
            .bool(a_to_b_two)
            .u128(sqrt_price_limit_one)
            .u128(sqrt_price_limit_two);
        Ix::new("two_hop_swap_v2", self.metas(), rem_info(a, &remaining_accounts_info).done())
    }
}

// Pinocchio-routed. Handler iterator: next_mut, next_program_token_or_token_2022 x2,
// next_program_memo, next_signer (position_authority), next_signer_mut (funder), next_mut,
// next x3, next_mut x8, next_program_system -- identical to the Anchor struct.
accounts!(RepositionLiquidityV2 {
    w whirlpool,
    r token_program_a,
    r token_program_b,
    r memo_program,
    rs position_authority,
    ws funder,
    w position,
    r position_token_account,
    r token_mint_a,
    r token_mint_b,
    w token_owner_account_a,
    w token_owner_account_b,
    w token_vault_a,
    w token_vault_b,
    w existing_tick_array_lower,
    w existing_tick_array_upper,
    w new_tick_array_lower,
    w new_tick_array_upper,
    r system_program,
});
impl RepositionLiquidityV2 {
    pub fn ix(
        &self,
        new_tick_lower_index: i32,
        new_tick_upper_index: i32,
        method: RepositionLiquidityMethod,
        remaining_accounts_info: Option<Vec<(u8, u8)>>,
    ) -> Ix {
        let a = Args::new().i32(new_tick_lower_index).i32(new_tick_upper_index);
        let a = match method {
            RepositionLiquidityMethod::ByLiquidity {
                new_liquidity_amount,
                existing_range_token_min_a,
                existing_range_token_min_b,
                new_range_token_max_a,
                new_range_token_max_b,
            } => a
                .u8(0)
                .u128(new_liquidity_amount)
                .u64(existing_range_token_min_a)
                .u64(existing_range_token_min_b)
                .u64(new_range_token_max_a)
                .u64(new_range_token_max_b),
        };
        Ix::new("reposition_liquidity_v2", self.metas(), rem_info(a, &remaining_accounts_info).done())
    }
}

accounts!(InitializeConfigExtension {
    r config,
    w config_extension,
    ws funder,
    rs fee_authority,
    r system_program,
});
impl InitializeConfigExtension {
    pub fn ix(&self) -> Ix {
        Ix::new("initialize_config_extension", self.metas(), vec![])
    }
}

accounts!(SetConfigExtensionAuthority {
    r whirlpools_config,
    w whirlpools_config_extension,
    rs config_extension_authority,
    r new_config_extension_authority,
});
impl SetConfigExtensionAuthority {
    pub fn ix(&self) -> Ix {
        Ix::new("set_config_extension_authority", self.metas(), vec![])
    }
}

accounts!(SetTokenBadgeAuthority {
    r whirlpools_config,
    w whirlpools_config_extension,
    rs config_extension_authority,
    r new_token_badge_authority,
});
impl SetTokenBadgeAuthority {
    pub fn ix(&self) -> Ix {
        Ix::new("set_token_badge_authority", self.metas(), vec![])
    }
}

accounts!(InitializeTokenBadge {
    r whirlpools_config,
    r whirlpools_config_extension,
    rs token_badge_authority,
    r token_mint,
    w token_badge,
    ws funder,
    r system_program,
});
impl InitializeTokenBadge {
    pub fn ix(&self) -> Ix {
        Ix::new("initialize_token_badge", self.metas(), vec![])
    }
}

accounts!(DeleteTokenBadge {
    r whirlpools_config,
    r whirlpools_config_extension,
    rs token_badge_authority,
    r token_mint,
    w token_badge,
    w receiver,
});
impl DeleteTokenBadge {
    pub fn ix(&self) -> Ix {
        Ix::new("delete_token_badge", self.metas(), vec![])
    }
}

accounts!(SetTokenBadgeAttribute {
    r whirlpools_config,
    r whirlpools_config_extension,
    rs token_badge_authority,
    r token_mint,
    w token_badge,
});
impl SetTokenBadgeAttribute {
    pub fn ix(&self, attribute: TokenBadgeAttribute) -> Ix {
        // `TokenBadgeAttribute` is #[non_exhaustive]; variant index + payload.
        #[allow(unreachable_patterns)]
        let args = match attribute {
            TokenBadgeAttribute::RequireNonTransferablePosition(v) => Args::new().u8(0).bool(v),
            _ => unimplemented!("unknown TokenBadgeAttribute variant"),
        };
        Ix::new("set_token_badge_attribute", self.metas(), args.done())
    }
    /// Raw argument bytes (for malformed-argument tests).
    pub fn ix_raw(&self, attribute_bytes: &[u8]) -> Ix {
        Ix::new("set_token_badge_attribute", self.metas(), attribute_bytes.to_vec())
    }
}

/// Every instruction built in this file, in lib.rs order (everything except `idl_include`).
pub const ALL_INSTRUCTIONS: &[&str] = &[
    "initialize_config",
    "initialize_pool",
    "initialize_tick_array",
    "initialize_dynamic_tick_array",
    "initialize_fee_tier",
    "initialize_reward",
    "set_reward_emissions",
    "open_position",
    "open_position_with_metadata",
    "increase_liquidity",
    "decrease_liquidity",
    "update_fees_and_rewards",
    "collect_fees",
    "collect_reward",
    "collect_protocol_fees",
    "swap",
    "close_position",
    "set_default_fee_rate",
    "set_default_protocol_fee_rate",
    "set_fee_rate",
    "set_protocol_fee_rate",
    "set_fee_authority",
    "set_collect_protocol_fees_authority",
    "set_reward_authority",
    "set_reward_authority_by_super_authority",
    "set_reward_emissions_super_authority",
    "two_hop_swap",
    "initialize_position_bundle",
    "initialize_position_bundle_with_metadata",
    "delete_position_bundle",
    "open_bundled_position",
    "close_bundled_position",
    "open_position_with_token_extensions",
    "close_position_with_token_extensions",
    "lock_position",
    "reset_position_range",
    "transfer_locked_position",
    "initialize_adaptive_fee_tier",
    "set_default_base_fee_rate",
    "set_delegated_fee_authority",
    "set_initialize_pool_authority",
    "set_preset_adaptive_fee_constants",
    "initialize_pool_with_adaptive_fee",
    "set_fee_rate_by_delegated_fee_authority",
    "set_adaptive_fee_constants",
    "set_config_feature_flag",
    "migrate_repurpose_reward_authority_space",
    "collect_fees_v2",
    "collect_protocol_fees_v2",
    "collect_reward_v2",
    "decrease_liquidity_v2",
    "increase_liquidity_v2",
    "increase_liquidity_by_token_amounts_v2",
    "initialize_pool_v2",
    "initialize_reward_v2",
    "set_reward_emissions_v2",
    "swap_v2",
    "two_hop_swap_v2",
    "reposition_liquidity_v2",
    "initialize_config_extension",
    "set_config_extension_authority",
    "set_token_badge_authority",
    "initialize_token_badge",
    "delete_token_badge",
    "set_token_badge_attribute",
];

#[cfg(test)]
mod tests {
    use super::*;
    use anchor_lang::{Discriminator, InstructionData};
    use whirlpool::instruction as wi;
    use whirlpool::util::{AccountsType, RemainingAccountsInfo, RemainingAccountsSlice};

    /// Number of `pub fn` in the `#[program]` block minus `idl_include`.
    const EXPECTED_INSTRUCTION_COUNT: usize = 65;

    fn anchor_discriminators() -> Vec<(&'static str, &'static [u8])> {
        vec![
            ("initialize_config", wi::InitializeConfig::DISCRIMINATOR),
            ("initialize_pool", wi::InitializePool::DISCRIMINATOR),
            ("initialize_tick_array", wi::InitializeTickArray::DISCRIMINATOR),
            ("initialize_dynamic_tick_array", wi::InitializeDynamicTickArray::DISCRIMINATOR),
            ("initialize_fee_tier", wi::InitializeFeeTier::DISCRIMINATOR),
            ("initialize_reward", wi::InitializeReward::DISCRIMINATOR),
            ("set_reward_emissions", wi::SetRewardEmissions::DISCRIMINATOR),
            ("open_position", wi::OpenPosition::DISCRIMINATOR),
            ("open_position_with_metadata", wi::OpenPositionWithMetadata::DISCRIMINATOR),
            ("increase_liquidity", wi::IncreaseLiquidity::DISCRIMINATOR),
            ("decrease_liquidity", wi::DecreaseLiquidity::DISCRIMINATOR),
            ("update_fees_and_rewards", wi::UpdateFeesAndRewards::DISCRIMINATOR),
            ("collect_fees", wi::CollectFees::DISCRIMINATOR),
            ("collect_reward", wi::CollectReward::DISCRIMINATOR),
            ("collect_protocol_fees", wi::CollectProtocolFees::DISCRIMINATOR),
            ("swap", wi::Swap::DISCRIMINATOR),
            ("close_position", wi::ClosePosition::DISCRIMINATOR),
            ("set_default_fee_rate", wi::SetDefaultFeeRate::DISCRIMINATOR),
            ("set_default_protocol_fee_rate", wi::SetDefaultProtocolFeeRate::DISCRIMINATOR),
            ("set_fee_rate", wi::SetFeeRate::DISCRIMINATOR),
            ("set_protocol_fee_rate", wi::SetProtocolFeeRate::DISCRIMINATOR),
            ("set_fee_authority", wi::SetFeeAuthority::DISCRIMINATOR),
            ("set_collect_protocol_fees_authority", wi::SetCollectProtocolFeesAuthority::DISCRIMINATOR),
            ("set_reward_authority", wi::SetRewardAuthority::DISCRIMINATOR),
            ("set_reward_authority_by_super_authority", wi::SetRewardAuthorityBySuperAuthority::DISCRIMINATOR),
            ("set_reward_emissions_super_authority", wi::SetRewardEmissionsSuperAuthority::DISCRIMINATOR),
            ("two_hop_swap", wi::TwoHopSwap::DISCRIMINATOR),
            ("initialize_position_bundle", wi::InitializePositionBundle::DISCRIMINATOR),
            ("initialize_position_bundle_with_metadata", wi::InitializePositionBundleWithMetadata::DISCRIMINATOR),
            ("delete_position_bundle", wi::DeletePositionBundle::DISCRIMINATOR),
            ("open_bundled_position", wi::OpenBundledPosition::DISCRIMINATOR),
            ("close_bundled_position", wi::CloseBundledPosition::DISCRIMINATOR),
            ("open_position_with_token_extensions", wi::OpenPositionWithTokenExtensions::DISCRIMINATOR),
            ("close_position_with_token_extensions", wi::ClosePositionWithTokenExtensions::DISCRIMINATOR),
            ("lock_position", wi::LockPosition::DISCRIMINATOR),
            ("reset_position_range", wi::ResetPositionRange::DISCRIMINATOR),
            ("transfer_locked_position", wi::TransferLockedPosition::DISCRIMINATOR),
            ("initialize_adaptive_fee_tier", wi::InitializeAdaptiveFeeTier::DISCRIMINATOR),
            ("set_default_base_fee_rate", wi::SetDefaultBaseFeeRate::DISCRIMINATOR),
            ("set_delegated_fee_authority", wi::SetDelegatedFeeAuthority::DISCRIMINATOR),
            ("set_initialize_pool_authority", wi::SetInitializePoolAuthority::DISCRIMINATOR),
            ("set_preset_adaptive_fee_constants", wi::SetPresetAdaptiveFeeConstants::DISCRIMINATOR),
            ("initialize_pool_with_adaptive_fee", wi::InitializePoolWithAdaptiveFee::DISCRIMINATOR),
            ("set_fee_rate_by_delegated_fee_authority", wi::SetFeeRateByDelegatedFeeAuthority::DISCRIMINATOR),
            ("set_adaptive_fee_constants", wi::SetAdaptiveFeeConstants::DISCRIMINATOR),
            ("set_config_feature_flag", wi::SetConfigFeatureFlag::DISCRIMINATOR),
            ("migrate_repurpose_reward_authority_space", wi::MigrateRepurposeRewardAuthoritySpace::DISCRIMINATOR),
            ("collect_fees_v2", wi::CollectFeesV2::DISCRIMINATOR),
            ("collect_protocol_fees_v2", wi::CollectProtocolFeesV2::DISCRIMINATOR),
            ("collect_reward_v2", wi::CollectRewardV2::DISCRIMINATOR),
            ("decrease_liquidity_v2", wi::DecreaseLiquidityV2::DISCRIMINATOR),
            ("increase_liquidity_v2", wi::IncreaseLiquidityV2::DISCRIMINATOR),
            ("increase_liquidity_by_token_amounts_v2", wi::IncreaseLiquidityByTokenAmountsV2::DISCRIMINATOR),
            ("initialize_pool_v2", wi::InitializePoolV2::DISCRIMINATOR),
            ("initialize_reward_v2", wi::InitializeRewardV2::DISCRIMINATOR),
            ("set_reward_emissions_v2", wi::SetRewardEmissionsV2::DISCRIMINATOR),
            ("swap_v2", wi::SwapV2::DISCRIMINATOR),
            ("two_hop_swap_v2", wi::TwoHopSwapV2::DISCRIMINATOR),
            ("reposition_liquidity_v2", wi::RepositionLiquidityV2::DISCRIMINATOR),
            ("initialize_config_extension", wi::InitializeConfigExtension::DISCRIMINATOR),
            ("set_config_extension_authority", wi::SetConfigExtensionAuthority::DISCRIMINATOR),
            ("set_token_badge_authority", wi::SetTokenBadgeAuthority::DISCRIMINATOR),
            ("initialize_token_badge", wi::InitializeTokenBadge::DISCRIMINATOR),
            ("delete_token_badge", wi::DeleteTokenBadge::DISCRIMINATOR),
            ("set_token_badge_attribute", wi::SetTokenBadgeAttribute::DISCRIMINATOR),
        ]
    }

    #[test]
    fn all_instructions_count_and_order() {
        assert_eq!(ALL_INSTRUCTIONS.len(), EXPECTED_INSTRUCTION_COUNT);
        let mut sorted = ALL_INSTRUCTIONS.to_vec();
        sorted.sort();
        sorted.dedup();
        assert_eq!(sorted.len(), ALL_INSTRUCTIONS.len(), "duplicate names");
        assert!(!ALL_INSTRUCTIONS.contains(&"idl_include"));
        // The discriminator table is written independently, in lib.rs order.
        let names: Vec<&str> = anchor_discriminators().iter().map(|(n, _)| *n).collect();
        assert_eq!(names, ALL_INSTRUCTIONS);
    }

    #[test]
    fn discriminators_match_anchor() {
        let table = anchor_discriminators();
        assert_eq!(table.len(), ALL_INSTRUCTIONS.len());
        for (name, d) in table {
            assert_eq!(&disc(name)[..], d, "discriminator of {name}");
        }
    }

    /// lib.rs itself is the source of truth for the instruction list.
    #[test]
    fn all_instructions_match_lib_rs() {
        let src = std::fs::read_to_string("/repo/programs/whirlpool/src/lib.rs").unwrap();
        let start = src.find("pub mod whirlpool {").unwrap();
        let mut names = vec![];
        for line in src[start..].lines() {
            if let Some(rest) = line.strip_prefix("    pub fn ") {
                let end = rest.find(|c: char| !(c.is_ascii_alphanumeric() || c == '_')).unwrap();
                names.push(rest[..end].to_string());
            }
        }
        names.retain(|n| n != "idl_include");
        assert_eq!(names, ALL_INSTRUCTIONS);
    }

    #[test]
    fn account_metas_match_anchor_client_metas() {
        InitializeConfig::check_against_anchor();
        InitializePool::check_against_anchor();
        InitializeTickArray::check_against_anchor();
        InitializeDynamicTickArray::check_against_anchor();
        InitializeFeeTier::check_against_anchor();
        InitializeReward::check_against_anchor();
        SetRewardEmissions::check_against_anchor();
        OpenPosition::check_against_anchor();
        OpenPositionWithMetadata::check_against_anchor();
        ModifyLiquidity::check_against_anchor();
        UpdateFeesAndRewards::check_against_anchor();
        CollectFees::check_against_anchor();
        CollectReward::check_against_anchor();
        CollectProtocolFees::check_against_anchor();
        Swap::check_against_anchor();
        ClosePosition::check_against_anchor();
        SetDefaultFeeRate::check_against_anchor();
        SetDefaultProtocolFeeRate::check_against_anchor();
        SetFeeRate::check_against_anchor();
        SetProtocolFeeRate::check_against_anchor();
        SetFeeAuthority::check_against_anchor();
        SetCollectProtocolFeesAuthority::check_against_anchor();
        SetRewardAuthority::check_against_anchor();
        SetRewardAuthorityBySuperAuthority::check_against_anchor();
        SetRewardEmissionsSuperAuthority::check_against_anchor();
        TwoHopSwap::check_against_anchor();
        InitializePositionBundle::check_against_anchor();
        InitializePositionBundleWithMetadata::check_against_anchor();
        DeletePositionBundle::check_against_anchor();
        OpenBundledPosition::check_against_anchor();
        CloseBundledPosition::check_against_anchor();
        OpenPositionWithTokenExtensions::check_against_anchor();
        ClosePositionWithTokenExtensions::check_against_anchor();
        LockPosition::check_against_anchor();
        ResetPositionRange::check_against_anchor();
        TransferLockedPosition::check_against_anchor();
        InitializeAdaptiveFeeTier::check_against_anchor();
        SetDefaultBaseFeeRate::check_against_anchor();
        SetDelegatedFeeAuthority::check_against_anchor();
        SetInitializePoolAuthority::check_against_anchor();
        SetPresetAdaptiveFeeConstants::check_against_anchor();
        InitializePoolWithAdaptiveFee::check_against_anchor();
        SetFeeRateByDelegatedFeeAuthority::check_against_anchor();
        SetAdaptiveFeeConstants::check_against_anchor();
        SetConfigFeatureFlag::check_against_anchor();
        MigrateRepurposeRewardAuthoritySpace::check_against_anchor();
        CollectFeesV2::check_against_anchor();
        CollectProtocolFeesV2::check_against_anchor();
        CollectRewardV2::check_against_anchor();
        ModifyLiquidityV2::check_against_anchor();
        InitializePoolV2::check_against_anchor();
        InitializeRewardV2::check_against_anchor();
        SetRewardEmissionsV2::check_against_anchor();
        SwapV2::check_against_anchor();
        TwoHopSwapV2::check_against_anchor();
        RepositionLiquidityV2::check_against_anchor();
        InitializeConfigExtension::check_against_anchor();
        SetConfigExtensionAuthority::check_against_anchor();
        SetTokenBadgeAuthority::check_against_anchor();
        InitializeTokenBadge::check_against_anchor();
        DeleteTokenBadge::check_against_anchor();
        SetTokenBadgeAttribute::check_against_anchor();
    }

    fn accounts_type_table() -> Vec<(u8, AccountsType)> {
        vec![
            (ACCOUNTS_TYPE_TRANSFER_HOOK_A, AccountsType::TransferHookA),
            (ACCOUNTS_TYPE_TRANSFER_HOOK_B, AccountsType::TransferHookB),
            (ACCOUNTS_TYPE_TRANSFER_HOOK_REWARD, AccountsType::TransferHookReward),
            (ACCOUNTS_TYPE_TRANSFER_HOOK_INPUT, AccountsType::TransferHookInput),
            (ACCOUNTS_TYPE_TRANSFER_HOOK_INTERMEDIATE, AccountsType::TransferHookIntermediate),
            (ACCOUNTS_TYPE_TRANSFER_HOOK_OUTPUT, AccountsType::TransferHookOutput),
            (ACCOUNTS_TYPE_SUPPLEMENTAL_TICK_ARRAYS, AccountsType::SupplementalTickArrays),
            (ACCOUNTS_TYPE_SUPPLEMENTAL_TICK_ARRAYS_ONE, AccountsType::SupplementalTickArraysOne),
            (ACCOUNTS_TYPE_SUPPLEMENTAL_TICK_ARRAYS_TWO, AccountsType::SupplementalTickArraysTwo),
            (ACCOUNTS_TYPE_TRANSFER_HOOK_DEPOSIT_A, AccountsType::TransferHookDepositA),
            (ACCOUNTS_TYPE_TRANSFER_HOOK_DEPOSIT_B, AccountsType::TransferHookDepositB),
            (ACCOUNTS_TYPE_TRANSFER_HOOK_WITHDRAWAL_A, AccountsType::TransferHookWithdrawalA),
            (ACCOUNTS_TYPE_TRANSFER_HOOK_WITHDRAWAL_B, AccountsType::TransferHookWithdrawalB),
        ]
    }

    #[test]
    fn accounts_type_constants_match_borsh_variant_index() {
        use anchor_lang::AnchorSerialize;
        for (i, (c, t)) in accounts_type_table().into_iter().enumerate() {
            assert_eq!(c as usize, i);
            assert_eq!(t.try_to_vec().unwrap(), vec![c]);
        }
    }

    /// (mine, program-side) sample pairs for `Option<RemainingAccountsInfo>`.
    fn rai_samples() -> Vec<(Option<Vec<(u8, u8)>>, Option<RemainingAccountsInfo>)> {
        let all: Vec<(u8, u8)> =
            accounts_type_table().iter().enumerate().map(|(i, (c, _))| (*c, i as u8 + 1)).collect();
        let all_theirs = RemainingAccountsInfo {
            slices: accounts_type_table()
                .into_iter()
                .enumerate()
                .map(|(i, (_, t))| RemainingAccountsSlice { accounts_type: t, length: i as u8 + 1 })
                .collect(),
        };
        vec![
            (None, None),
            (Some(vec![]), Some(RemainingAccountsInfo { slices: vec![] })),
            (Some(all), Some(all_theirs)),
        ]
    }

    fn same(ix: Ix, name: &str, theirs: Vec<u8>) {
        assert_eq!(ix.name, name);
        assert_eq!(ix.data, theirs, "data of {name}");
    }

    #[test]
    fn arg_encoding_matches_anchor_v1() {
        let (k1, k2, k3) = (Pubkey::new_unique(), Pubkey::new_unique(), Pubkey::new_unique());
        same(
            InitializeConfig::unique().ix(k1, k2, k3, 0x1234),
            "initialize_config",
            wi::InitializeConfig {
                fee_authority: k1,
                collect_protocol_fees_authority: k2,
                reward_emissions_super_authority: k3,
                default_protocol_fee_rate: 0x1234,
            }
            .data(),
        );
        same(
            InitializePool::unique().ix(WhirlpoolBumps { whirlpool_bump: 253 }, 64, 1u128 << 64),
            "initialize_pool",
            wi::InitializePool {
                bumps: WhirlpoolBumps { whirlpool_bump: 253 },
                tick_spacing: 64,
                initial_sqrt_price: 1u128 << 64,
            }
            .data(),
        );
        same(
            InitializeTickArray::unique().ix(-5632),
            "initialize_tick_array",
            wi::InitializeTickArray { start_tick_index: -5632 }.data(),
        );
        same(
            InitializeDynamicTickArray::unique().ix(-5632, true),
            "initialize_dynamic_tick_array",
            wi::InitializeDynamicTickArray { start_tick_index: -5632, idempotent: true }.data(),
        );
        same(
            InitializeFeeTier::unique().ix(128, 3000),
            "initialize_fee_tier",
            wi::InitializeFeeTier { tick_spacing: 128, default_fee_rate: 3000 }.data(),
        );
        same(
            InitializeReward::unique().ix(2),
            "initialize_reward",
            wi::InitializeReward { reward_index: 2 }.data(),
        );
        same(
            SetRewardEmissions::unique().ix(1, u128::MAX - 7),
            "set_reward_emissions",
            wi::SetRewardEmissions { reward_index: 1, emissions_per_second_x64: u128::MAX - 7 }.data(),
        );
        same(
            OpenPosition::unique().ix(OpenPositionBumps { position_bump: 254 }, -128, 256),
            "open_position",
            wi::OpenPosition {
                bumps: OpenPositionBumps { position_bump: 254 },
                tick_lower_index: -128,
                tick_upper_index: 256,
            }
            .data(),
        );
        same(
            OpenPositionWithMetadata::unique().ix(
                OpenPositionWithMetadataBumps { position_bump: 254, metadata_bump: 251 },
                -128,
                256,
            ),
            "open_position_with_metadata",
            wi::OpenPositionWithMetadata {
                bumps: OpenPositionWithMetadataBumps { position_bump: 254, metadata_bump: 251 },
                tick_lower_index: -128,
                tick_upper_index: 256,
            }
            .data(),
        );
        same(
            ModifyLiquidity::unique().increase_liquidity(1u128 << 100, 11, 22),
            "increase_liquidity",
            wi::IncreaseLiquidity { liquidity_amount: 1u128 << 100, token_max_a: 11, token_max_b: 22 }.data(),
        );
        same(
            ModifyLiquidity::unique().decrease_liquidity(1u128 << 100, 11, 22),
            "decrease_liquidity",
            wi::DecreaseLiquidity { liquidity_amount: 1u128 << 100, token_min_a: 11, token_min_b: 22 }.data(),
        );
        same(UpdateFeesAndRewards::unique().ix(), "update_fees_and_rewards", wi::UpdateFeesAndRewards {}.data());
        same(CollectFees::unique().ix(), "collect_fees", wi::CollectFees {}.data());
        same(CollectReward::unique().ix(2), "collect_reward", wi::CollectReward { reward_index: 2 }.data());
        same(CollectProtocolFees::unique().ix(), "collect_protocol_fees", wi::CollectProtocolFees {}.data());
        same(
            Swap::unique().ix(1000, 990, 4295048016, true, false),
            "swap",
            wi::Swap {
                amount: 1000,
                other_amount_threshold: 990,
                sqrt_price_limit: 4295048016,
                amount_specified_is_input: true,
                a_to_b: false,
            }
            .data(),
        );
        same(ClosePosition::unique().ix(), "close_position", wi::ClosePosition {}.data());
        same(
            SetDefaultFeeRate::unique().ix(777),
            "set_default_fee_rate",
            wi::SetDefaultFeeRate { default_fee_rate: 777 }.data(),
        );
        same(
            SetDefaultProtocolFeeRate::unique().ix(778),
            "set_default_protocol_fee_rate",
            wi::SetDefaultProtocolFeeRate { default_protocol_fee_rate: 778 }.data(),
        );
        same(SetFeeRate::unique().ix(779), "set_fee_rate", wi::SetFeeRate { fee_rate: 779 }.data());
        same(
            SetProtocolFeeRate::unique().ix(780),
            "set_protocol_fee_rate",
            wi::SetProtocolFeeRate { protocol_fee_rate: 780 }.data(),
        );
        same(SetFeeAuthority::unique().ix(), "set_fee_authority", wi::SetFeeAuthority {}.data());
        same(
            SetCollectProtocolFeesAuthority::unique().ix(),
            "set_collect_protocol_fees_authority",
            wi::SetCollectProtocolFeesAuthority {}.data(),
        );
        same(
            SetRewardAuthority::unique().ix(1),
            "set_reward_authority",
            wi::SetRewardAuthority { reward_index: 1 }.data(),
        );
        same(
            SetRewardAuthorityBySuperAuthority::unique().ix(2),
            "set_reward_authority_by_super_authority",
            wi::SetRewardAuthorityBySuperAuthority { reward_index: 2 }.data(),
        );
        same(
            SetRewardEmissionsSuperAuthority::unique().ix(),
            "set_reward_emissions_super_authority",
            wi::SetRewardEmissionsSuperAuthority {}.data(),
        );
        same(
            TwoHopSwap::unique().ix(1000, 990, true, false, true, 5, 6),
            "two_hop_swap",
            wi::TwoHopSwap {
                amount: 1000,
                other_amount_threshold: 990,
                amount_specified_is_input: true,
                a_to_b_one: false,
                a_to_b_two: true,
                sqrt_price_limit_one: 5,
                sqrt_price_limit_two: 6,
            }
            .data(),
        );
        same(
            InitializePositionBundle::unique().ix(),
            "initialize_position_bundle",
            wi::InitializePositionBundle {}.data(),
        );
        same(
            InitializePositionBundleWithMetadata::unique().ix(),
            "initialize_position_bundle_with_metadata",
            wi::InitializePositionBundleWithMetadata {}.data(),
        );
        same(DeletePositionBundle::unique().ix(), "delete_position_bundle", wi::DeletePositionBundle {}.data());
        same(
            OpenBundledPosition::unique().ix(255, -128, 256),
            "open_bundled_position",
            wi::OpenBundledPosition { bundle_index: 255, tick_lower_index: -128, tick_upper_index: 256 }.data(),
        );
        same(
            CloseBundledPosition::unique().ix(300),
            "close_bundled_position",
            wi::CloseBundledPosition { bundle_index: 300 }.data(),
        );
        same(
            OpenPositionWithTokenExtensions::unique().ix(-128, 256, true),
            "open_position_with_token_extensions",
            wi::OpenPositionWithTokenExtensions {
                tick_lower_index: -128,
                tick_upper_index: 256,
                with_token_metadata_extension: true,
            }
            .data(),
        );
        same(
            ClosePositionWithTokenExtensions::unique().ix(),
            "close_position_with_token_extensions",
            wi::ClosePositionWithTokenExtensions {}.data(),
        );
        same(
            LockPosition::unique().ix(LockType::Permanent),
            "lock_position",
            wi::LockPosition { lock_type: LockType::Permanent }.data(),
        );
        assert_eq!(LockPosition::unique().ix_raw(0).data, LockPosition::unique().ix(LockType::Permanent).data);
        same(
            ResetPositionRange::unique().ix(-256, 512),
            "reset_position_range",
            wi::ResetPositionRange { new_tick_lower_index: -256, new_tick_upper_index: 512 }.data(),
        );
        same(
            TransferLockedPosition::unique().ix(),
            "transfer_locked_position",
            wi::TransferLockedPosition {}.data(),
        );
    }

    #[test]
    fn arg_encoding_matches_anchor_adaptive_fee_and_admin() {
        let (k1, k2) = (Pubkey::new_unique(), Pubkey::new_unique());
        same(
            InitializeAdaptiveFeeTier::unique().ix(1025, 64, k1, k2, 3000, 30, 600, 500, 4000, 350000, 64, 32),
            "initialize_adaptive_fee_tier",
            wi::InitializeAdaptiveFeeTier {
                fee_tier_index: 1025,
                tick_spacing: 64,
                initialize_pool_authority: k1,
                delegated_fee_authority: k2,
                default_base_fee_rate: 3000,
                filter_period: 30,
                decay_period: 600,
                reduction_factor: 500,
                adaptive_fee_control_factor: 4000,
                max_volatility_accumulator: 350000,
                tick_group_size: 64,
                major_swap_threshold_ticks: 32,
            }
            .data(),
        );
        same(
            SetDefaultBaseFeeRate::unique().ix(3001),
            "set_default_base_fee_rate",
            wi::SetDefaultBaseFeeRate { default_base_fee_rate: 3001 }.data(),
        );
        same(
            SetDelegatedFeeAuthority::unique().ix(),
            "set_delegated_fee_authority",
            wi::SetDelegatedFeeAuthority {}.data(),
        );
        same(
            SetInitializePoolAuthority::unique().ix(),
            "set_initialize_pool_authority",
            wi::SetInitializePoolAuthority {}.data(),
        );
        same(
            SetPresetAdaptiveFeeConstants::unique().ix(30, 600, 500, 4000, 350000, 64, 32),
            "set_preset_adaptive_fee_constants",
            wi::SetPresetAdaptiveFeeConstants {
                filter_period: 30,
                decay_period: 600,
                reduction_factor: 500,
                adaptive_fee_control_factor: 4000,
                max_volatility_accumulator: 350000,
                tick_group_size: 64,
                major_swap_threshold_ticks: 32,
            }
            .data(),
        );
        for ts in [None, Some(1_700_000_000u64)] {
            same(
                InitializePoolWithAdaptiveFee::unique().ix(1u128 << 64, ts),
                "initialize_pool_with_adaptive_fee",
                wi::InitializePoolWithAdaptiveFee { initial_sqrt_price: 1u128 << 64, trade_enable_timestamp: ts }
                    .data(),
            );
        }
        same(
            SetFeeRateByDelegatedFeeAuthority::unique().ix(4321),
            "set_fee_rate_by_delegated_fee_authority",
            wi::SetFeeRateByDelegatedFeeAuthority { fee_rate: 4321 }.data(),
        );
        same(
            SetAdaptiveFeeConstants::unique().ix(Some(30), None, Some(500), Some(4000), None, Some(64), None),
            "set_adaptive_fee_constants",
            wi::SetAdaptiveFeeConstants {
                filter_period: Some(30),
                decay_period: None,
                reduction_factor: Some(500),
                adaptive_fee_control_factor: Some(4000),
                max_volatility_accumulator: None,
                tick_group_size: Some(64),
                major_swap_threshold_ticks: None,
            }
            .data(),
        );
        same(
            SetAdaptiveFeeConstants::unique().ix(None, Some(600), None, None, Some(350000), None, Some(32)),
            "set_adaptive_fee_constants",
            wi::SetAdaptiveFeeConstants {
                filter_period: None,
                decay_period: Some(600),
                reduction_factor: None,
                adaptive_fee_control_factor: None,
                max_volatility_accumulator: Some(350000),
                tick_group_size: None,
                major_swap_threshold_ticks: Some(32),
            }
            .data(),
        );
        for b in [false, true] {
            same(
                SetConfigFeatureFlag::unique().ix(ConfigFeatureFlag::TokenBadge(b)),
                "set_config_feature_flag",
                wi::SetConfigFeatureFlag { feature_flag: ConfigFeatureFlag::TokenBadge(b) }.data(),
            );
            same(
                SetTokenBadgeAttribute::unique().ix(TokenBadgeAttribute::RequireNonTransferablePosition(b)),
                "set_token_badge_attribute",
                wi::SetTokenBadgeAttribute { attribute: TokenBadgeAttribute::RequireNonTransferablePosition(b) }
                    .data(),
            );
        }
        same(
            MigrateRepurposeRewardAuthoritySpace::unique().ix(),
            "migrate_repurpose_reward_authority_space",
            wi::MigrateRepurposeRewardAuthoritySpace {}.data(),
        );
        same(
            InitializeConfigExtension::unique().ix(),
            "initialize_config_extension",
            wi::InitializeConfigExtension {}.data(),
        );
        same(
            SetConfigExtensionAuthority::unique().ix(),
            "set_config_extension_authority",
            wi::SetConfigExtensionAuthority {}.data(),
        );
        same(
            SetTokenBadgeAuthority::unique().ix(),
            "set_token_badge_authority",
            wi::SetTokenBadgeAuthority {}.data(),
        );
        same(InitializeTokenBadge::unique().ix(), "initialize_token_badge", wi::InitializeTokenBadge {}.data());
        same(DeleteTokenBadge::unique().ix(), "delete_token_badge", wi::DeleteTokenBadge {}.data());
    }

    #[test]
    fn arg_encoding_matches_anchor_v2() {
        for (mine, theirs) in rai_samples() {
            same(
                CollectFeesV2::unique().ix(mine.clone()),
                "collect_fees_v2",
                wi::CollectFeesV2 { remaining_accounts_info: theirs.clone() }.data(),
            );
            same(
                CollectProtocolFeesV2::unique().ix(mine.clone()),
                "collect_protocol_fees_v2",
                wi::CollectProtocolFeesV2 { remaining_accounts_info: theirs.clone() }.data(),
            );
            same(
                CollectRewardV2::unique().ix(2, mine.clone()),
                "collect_reward_v2",
                wi::CollectRewardV2 { reward_index: 2, remaining_accounts_info: theirs.clone() }.data(),
            );
            same(
                ModifyLiquidityV2::unique().decrease_liquidity_v2(1u128 << 99, 5, 6, mine.clone()),
                "decrease_liquidity_v2",
                wi::DecreaseLiquidityV2 {
                    liquidity_amount: 1u128 << 99,
                    token_min_a: 5,
                    token_min_b: 6,
                    remaining_accounts_info: theirs.clone(),
                }
                .data(),
            );
            same(
                ModifyLiquidityV2::unique().increase_liquidity_v2(1u128 << 99, 5, 6, mine.clone()),
                "increase_liquidity_v2",
                wi::IncreaseLiquidityV2 {
                    liquidity_amount: 1u128 << 99,
                    token_max_a: 5,
                    token_max_b: 6,
                    remaining_accounts_info: theirs.clone(),
                }
                .data(),
            );
            let m = IncreaseLiquidityMethod::ByTokenAmounts {
                token_max_a: 1_000_001,
                token_max_b: 2_000_002,
                min_sqrt_price: 4295048016,
                max_sqrt_price: 79226673515401279992447579055,
            };
            same(
                ModifyLiquidityV2::unique().increase_liquidity_by_token_amounts_v2(m.clone(), mine.clone()),
                "increase_liquidity_by_token_amounts_v2",
                wi::IncreaseLiquidityByTokenAmountsV2 { method: m, remaining_accounts_info: theirs.clone() }.data(),
            );
            same(
                SwapV2::unique().ix(1000, 990, 4295048016, false, true, mine.clone()),
                "swap_v2",
                wi::SwapV2 {
                    amount: 1000,
                    other_amount_threshold: 990,
                    sqrt_price_limit: 4295048016,
                    amount_specified_is_input: false,
                    a_to_b: true,
                    remaining_accounts_info: theirs.clone(),
                }
                .data(),
            );
            same(
                TwoHopSwapV2::unique().ix(1000, 990, true, false, true, 5, 6, mine.clone()),
                "two_hop_swap_v2",
                wi::TwoHopSwapV2 {
                    amount: 1000,
                    other_amount_threshold: 990,
                    amount_specified_is_input: true,
                    a_to_b_one: false,
                    a_to_b_two: true,
                    sqrt_price_limit_one: 5,
                    sqrt_price_limit_two: 6,
                    remaining_accounts_info: theirs.clone(),
                }
                .data(),
            );
            let r = RepositionLiquidityMethod::ByLiquidity {
                new_liquidity_amount: 1u128 << 70,
                existing_range_token_min_a: 1,
                existing_range_token_min_b: 2,
                new_range_token_max_a: 3,
                new_range_token_max_b: 4,
            };
            same(
                RepositionLiquidityV2::unique().ix(-256, 512, r.clone(), mine.clone()),
                "reposition_liquidity_v2",
                wi::RepositionLiquidityV2 {
                    new_tick_lower_index: -256,
                    new_tick_upper_index: 512,
                    method: r,
                    remaining_accounts_info: theirs.clone(),
                }
                .data(),
            );
        }
        same(
            InitializePoolV2::unique().ix(64, 1u128 << 64),
            "initialize_pool_v2",
            wi::InitializePoolV2 { tick_spacing: 64, initial_sqrt_price: 1u128 << 64 }.data(),
        );
        same(
            InitializeRewardV2::unique().ix(1),
            "initialize_reward_v2",
            wi::InitializeRewardV2 { reward_index: 1 }.data(),
        );
        same(
            SetRewardEmissionsV2::unique().ix(1, 12345678901234567890123),
            "set_reward_emissions_v2",
            wi::SetRewardEmissionsV2 { reward_index: 1, emissions_per_second_x64: 12345678901234567890123 }.data(),
        );
    }

    #[test]
    fn well_known_ids_and_pdas() {
        assert_eq!(METADATA_PROGRAM_ID, anchor_spl::metadata::ID);
        assert_eq!(ASSOCIATED_TOKEN_PROGRAM_ID, anchor_spl::associated_token::ID);
        assert_eq!(NFT_UPDATE_AUTH, whirlpool::constants::nft::whirlpool_nft_update_auth::ID);

        let (cfg, ma, mb, wallet) =
            (Pubkey::new_unique(), Pubkey::new_unique(), Pubkey::new_unique(), Pubkey::new_unique());
        // by value and by reference are both accepted
        assert_eq!(pda_whirlpool(cfg, ma, mb, 64), pda_whirlpool(&cfg, &ma, &mb, 64));
        assert_eq!(
            pda_whirlpool(cfg, ma, mb, 64).0,
            Pubkey::find_program_address(
                &[b"whirlpool", cfg.as_ref(), ma.as_ref(), mb.as_ref(), &64u16.to_le_bytes()],
                &whirlpool::ID
            )
            .0
        );
        assert_eq!(pda_fee_tier(cfg, 1025), pda_adaptive_fee_tier(cfg, 1025));
        assert_eq!(
            pda_tick_array(cfg, -5632).0,
            Pubkey::find_program_address(&[b"tick_array", cfg.as_ref(), b"-5632"], &whirlpool::ID).0
        );
        assert_eq!(
            pda_bundled_position(ma, 17).0,
            Pubkey::find_program_address(&[b"bundled_position", ma.as_ref(), b"17"], &whirlpool::ID).0
        );
        assert_eq!(pda_bundled_position(ma, 255), pda_bundled_position_u16(ma, 255));
        assert_eq!(
            pda_associated_token(wallet, ma, spl_token::ID).0,
            anchor_spl::associated_token::get_associated_token_address(&wallet, &ma)
        );
        assert_eq!(
            pda_associated_token(wallet, ma, spl_token_2022::ID).0,
            anchor_spl::associated_token::get_associated_token_address_with_program_id(
                &wallet,
                &ma,
                &spl_token_2022::ID
            )
        );
        assert_eq!(
            pda_metadata(ma).0,
            Pubkey::find_program_address(
                &[b"metadata", anchor_spl::metadata::ID.as_ref(), ma.as_ref()],
                &anchor_spl::metadata::ID
            )
            .0
        );
        // the remaining helpers are plain two-seed PDAs; just make sure they are callable
        let _ = (pda_position(ma), pda_oracle(cfg), pda_token_badge(cfg, ma), pda_config_extension(cfg));
        let _ = (pda_position_bundle(ma), pda_lock_config(ma));
    }

    #[test]
    fn make_writable_flips_only_the_named_slot() {
        let ix = Swap::unique().ix(1, 0, 0, true, true);
        let before = ix.clone();
        let after = make_writable(ix, "oracle");
        for (b, a) in before.metas.iter().zip(after.metas.iter()) {
            assert_eq!(b.key, a.key);
            assert_eq!(b.signer, a.signer);
            assert_eq!(a.writable, b.writable || b.name == "oracle");
        }
    }
}
