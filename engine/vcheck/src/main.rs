use vcheck::report::Tier;

fn main() {
    let args: Vec<String> = std::env::args().collect();
    if args.len() < 2 {
        eprintln!("usage: vcheck <Cxx> [--tier quick|thorough] [--seed N] [--replay file]");
        std::process::exit(2);
    }
    let id = args[1].to_uppercase();
    let mut tier = match std::env::var("VERIF_TIER").as_deref() {
        Ok("thorough") => Tier::Thorough,
        _ => Tier::Quick,
    };
    let mut seed: u64 = std::env::var("VERIF_SEED").ok().and_then(|s| s.parse().ok()).unwrap_or(20260924);
    let mut i = 2;
    while i < args.len() {
        match args[i].as_str() {
            "--tier" => {
                tier = if args[i + 1] == "thorough" { Tier::Thorough } else { Tier::Quick };
                i += 1;
            }
            "--seed" => {
                seed = args[i + 1].parse().expect("seed");
                i += 1;
            }
            "--replay" => {
                // runs are deterministic in (property, tier, seed): a replay re-runs the recorded pair and must
                // report the recorded signature again
                let v: serde_json::Value = std::fs::read_to_string(&args[i + 1]).ok().and_then(|s| serde_json::from_str(&s).ok()).expect("replay file");
                seed = v["seed"].as_u64().expect("seed in replay file");
                tier = if v["tier"].as_str() == Some("thorough") { Tier::Thorough } else { Tier::Quick };
                eprintln!("replaying {} tier={} seed={seed}; recorded signature: {}", v["property"], tier.name(), v["signature"]);
                if let Some(c) = v["replay"]["cmd"].as_str() {
                    eprintln!("sanitizer lane command: {c}");
                }
                i += 1;
            }
            _ => {}
        }
        i += 1;
    }
    if id != "SMOKE" {
        vcheck::report::capture_stdout();
    }
    let code = match id.as_str() {
        "SMOKE" => vcheck::checks::smoke::run(),
        "C01" => vcheck::checks::hchecks::c01(tier, seed),
        "C03" => vcheck::checks::hchecks::c03(tier, seed),
        "C06" => vcheck::checks::hchecks::c06(tier, seed),
        "C07" => vcheck::checks::hchecks::c07(tier, seed),
        "C02" => vcheck::checks::c02::run(tier, seed),
        "C04" => vcheck::checks::c04::run(tier, seed),
        "C05" => vcheck::checks::c05::run(tier, seed),
        "C08" => vcheck::checks::c08::run(tier, seed),
        "C12" => vcheck::checks::hchecks::c12(tier, seed),
        "C17" => vcheck::checks::hchecks::c17(tier, seed),
        "C10" => vcheck::checks::hchecks::c10(tier, seed),
        "C11" => vcheck::checks::hchecks::c11(tier, seed),
        "C14" => vcheck::checks::hchecks::c14(tier, seed),
        "C16" => vcheck::checks::c16::run(tier, seed),
        "C15" => vcheck::checks::c15::run(tier, seed),
        "C18" => vcheck::checks::hchecks::c18(tier, seed),
        "C19" => vcheck::checks::c19::run(tier, seed),
        "C09" => vcheck::checks::c09::run(tier, seed),
        "C13" => vcheck::checks::c13::run(tier, seed),
        _ => {
            vcheck::report::out(&format!("INCONCLUSIVE property={id} reason=unknown check"));
            2
        }
    };
    std::process::exit(code);
}
