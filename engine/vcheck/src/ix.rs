//! Instruction builders for every instruction of the whirlpool program.
//!
//! Every builder returns an [`Ix`] whose account slots are *named* exactly like the
//! fields of the corresponding `#[derive(Accounts)]` struct (or, for the Pinocchio
//! handlers, the names used in the handler's account iterator), in the on-chain order,
//! followed by remaining accounts named `remaining_<n>`. Named slots are what the
//! authority (C04) and account-substitution (C15) enumerations mutate.
use solana_program::instruction::{AccountMeta, Instruction};
use solana_program::pubkey::Pubkey;

#[derive(Clone, Debug, PartialEq, Eq)]
pub struct Meta {
    pub name: &'static str,
    pub key: Pubkey,
    pub signer: bool,
    pub writable: bool,
}

#[derive(Clone, Debug, PartialEq, Eq)]
pub struct Ix {
    pub name: &'static str,
    pub metas: Vec<Meta>,
    pub data: Vec<u8>,
}

pub fn disc(name: &str) -> [u8; 8] {
    let h = solana_program::hash::hash(format!("global:{name}").as_bytes());
    h.to_bytes()[..8].try_into().unwrap()
}

pub fn w(name: &'static str, key: Pubkey) -> Meta {
    Meta { name, key, signer: false, writable: true }
}
pub fn r(name: &'static str, key: Pubkey) -> Meta {
    Meta { name, key, signer: false, writable: false }
}
pub fn ws(name: &'static str, key: Pubkey) -> Meta {
    Meta { name, key, signer: true, writable: true }
}
pub fn rs(name: &'static str, key: Pubkey) -> Meta {
    Meta { name, key, signer: true, writable: false }
}

impl Ix {
    pub fn new(name: &'static str, metas: Vec<Meta>, args: Vec<u8>) -> Ix {
        let mut data = disc(name).to_vec();
        data.extend_from_slice(&args);
        Ix { name, metas, data }
    }
    pub fn instruction(&self) -> Instruction {
        Instruction {
            program_id: whirlpool::ID,
            accounts: self
                .metas
                .iter()
                .map(|m| AccountMeta { pubkey: m.key, is_signer: m.signer, is_writable: m.writable })
                .collect(),
            data: self.data.clone(),
        }
    }
    /// All keys flagged as signer (the transaction's signature set for an honest submitter).
    pub fn signers(&self) -> Vec<Pubkey> {
        let mut v: Vec<Pubkey> = self.metas.iter().filter(|m| m.signer).map(|m| m.key).collect();
        v.sort();
        v.dedup();
        v
    }
    pub fn slot(&self, name: &str) -> Option<usize> {
        self.metas.iter().position(|m| m.name == name)
    }
    pub fn key(&self, name: &str) -> Pubkey {
        self.metas[self.slot(name).unwrap_or_else(|| panic!("{}: no slot {name}", self.name))].key
    }
    pub fn with_key(mut self, name: &str, key: Pubkey) -> Ix {
        let i = self.slot(name).unwrap_or_else(|| panic!("{}: no slot {name}", self.name));
        self.metas[i].key = key;
        self
    }
    /// Append remaining accounts (named `remaining_<n>`).
    pub fn with_remaining(mut self, extra: Vec<Meta>) -> Ix {
        self.metas.extend(extra);
        self
    }
}

pub const REMAINING_NAMES: [&str; 16] = [
    "remaining_0", "remaining_1", "remaining_2", "remaining_3", "remaining_4", "remaining_5",
    "remaining_6", "remaining_7", "remaining_8", "remaining_9", "remaining_10", "remaining_11",
    "remaining_12", "remaining_13", "remaining_14", "remaining_15",
];

/// Borsh argument writer.
#[derive(Default)]
pub struct Args(pub Vec<u8>);
impl Args {
    pub fn new() -> Self { Args(vec![]) }
    pub fn u8(mut self, v: u8) -> Self { self.0.push(v); self }
    pub fn bool(mut self, v: bool) -> Self { self.0.push(v as u8); self }
    pub fn u16(mut self, v: u16) -> Self { self.0.extend_from_slice(&v.to_le_bytes()); self }
    pub fn u32(mut self, v: u32) -> Self { self.0.extend_from_slice(&v.to_le_bytes()); self }
    pub fn i32(mut self, v: i32) -> Self { self.0.extend_from_slice(&v.to_le_bytes()); self }
    pub fn u64(mut self, v: u64) -> Self { self.0.extend_from_slice(&v.to_le_bytes()); self }
    pub fn u128(mut self, v: u128) -> Self { self.0.extend_from_slice(&v.to_le_bytes()); self }
    pub fn pubkey(mut self, v: &Pubkey) -> Self { self.0.extend_from_slice(v.as_ref()); self }
    pub fn opt_u64(mut self, v: Option<u64>) -> Self {
        match v { None => self.0.push(0), Some(x) => { self.0.push(1); self.0.extend_from_slice(&x.to_le_bytes()); } }
        self
    }
    pub fn bytes(mut self, v: &[u8]) -> Self { self.0.extend_from_slice(v); self }
    pub fn done(self) -> Vec<u8> { self.0 }
}

pub mod build;
