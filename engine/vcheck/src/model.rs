//! Exact (arbitrary precision) reference arithmetic. Independent of whirlpool's math code.
use num_bigint::{BigInt, BigUint};
use num_integer::Integer;
use num_traits::{One, ToPrimitive, Zero};

pub fn bu(x: u128) -> BigUint {
    BigUint::from(x)
}
pub fn q64() -> BigUint {
    BigUint::one() << 64
}

pub fn div_floor(n: &BigUint, d: &BigUint) -> BigUint {
    n / d
}
pub fn div_ceil(n: &BigUint, d: &BigUint) -> BigUint {
    let (q, r) = n.div_rem(d);
    if r.is_zero() {
        q
    } else {
        q + 1u32
    }
}

fn order(p0: u128, p1: u128) -> (u128, u128) {
    if p0 <= p1 {
        (p0, p1)
    } else {
        (p1, p0)
    }
}

/// Exact token-A amount for liquidity `l` between two sqrt prices: L·2^64·Δp/(p_lo·p_hi) as (num, den).
pub fn amount_a_frac(p0: u128, p1: u128, l: u128) -> (BigUint, BigUint) {
    let (lo, hi) = order(p0, p1);
    ((bu(l) << 64) * bu(hi - lo), bu(lo) * bu(hi))
}
/// Exact token-B amount: L·Δp/2^64 as (num, den).
pub fn amount_b_frac(p0: u128, p1: u128, l: u128) -> (BigUint, BigUint) {
    let (lo, hi) = order(p0, p1);
    (bu(l) * bu(hi - lo), q64())
}
pub fn amount_a(p0: u128, p1: u128, l: u128, round_up: bool) -> BigUint {
    let (n, d) = amount_a_frac(p0, p1, l);
    if d.is_zero() {
        return BigUint::zero();
    }
    if round_up {
        div_ceil(&n, &d)
    } else {
        div_floor(&n, &d)
    }
}
pub fn amount_b(p0: u128, p1: u128, l: u128, round_up: bool) -> BigUint {
    let (n, d) = amount_b_frac(p0, p1, l);
    if round_up {
        div_ceil(&n, &d)
    } else {
        div_floor(&n, &d)
    }
}

/// Price reached by adding (`input`) / removing (`!input`) `amount` of token A at liquidity `l`,
/// rounded up (the safe side for both cases). None when the pool cannot supply that much A.
pub fn next_price_from_a(p0: u128, l: u128, amount: u64, input: bool) -> Option<BigUint> {
    let num = (bu(l) * bu(p0)) << 64;
    let l64 = bu(l) << 64;
    let prod = bu(amount as u128) * bu(p0);
    let den: BigUint = if input {
        l64 + prod
    } else {
        if l64 <= prod {
            return None;
        }
        l64 - prod
    };
    if den.is_zero() {
        return None;
    }
    Some(div_ceil(&num, &den))
}
/// Price reached by adding / removing `amount` of token B, rounded down. None if it would go below zero.
pub fn next_price_from_b(p0: u128, l: u128, amount: u64, input: bool) -> Option<BigInt> {
    if l == 0 {
        return None;
    }
    let ax = bu(amount as u128) << 64;
    if input {
        Some(BigInt::from(bu(p0) + div_floor(&ax, &bu(l))))
    } else {
        Some(BigInt::from(bu(p0)) - BigInt::from(div_ceil(&ax, &bu(l))))
    }
}

pub fn to_u128(x: &BigUint) -> Option<u128> {
    x.to_u128()
}
pub fn to_u64(x: &BigUint) -> Option<u64> {
    x.to_u64()
}

/// ceil(a·r/(10^6−r))
pub fn fee_on_input(amount_in: u64, rate: u32) -> BigUint {
    let n = bu(amount_in as u128) * bu(rate as u128);
    let d = bu(1_000_000u128 - rate as u128);
    div_ceil(&n, &d)
}

/// Token amounts for `l` liquidity of a position [pl, pu) at pool state (tick_current, sqrt_price).
/// Returns (a, b), rounded up (deposit) or down (withdraw).
pub fn position_amounts(
    tick_current: i32,
    sqrt_price: u128,
    tick_lower: i32,
    tick_upper: i32,
    p_lower: u128,
    p_upper: u128,
    l: u128,
    round_up: bool,
) -> (BigUint, BigUint) {
    if tick_current < tick_lower {
        (amount_a(p_lower, p_upper, l, round_up), BigUint::zero())
    } else if tick_current < tick_upper {
        (amount_a(sqrt_price, p_upper, l, round_up), amount_b(p_lower, sqrt_price, l, round_up))
    } else {
        (BigUint::zero(), amount_b(p_lower, p_upper, l, round_up))
    }
}
