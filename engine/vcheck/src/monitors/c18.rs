//! C18 Positions are opened, closed, re-ranged, locked and bundled only consistently.
//! Lifecycle rules taken from the property statement, evaluated on decoded pre/post states.
use crate::codec::{self, MAX_TICK_INDEX, MIN_TICK_INDEX};
use crate::hist::{ix_brief, Monitor};
use crate::ix::build as b;
use crate::report::Acc;
use crate::svm::Bank;
use crate::world::{Obs, World};
use serde_json::json;
use solana_program::pubkey::Pubkey;
use whirlpool::math::sqrt_price_from_tick_index;

#[derive(Default)]
pub struct C18;

fn frozen(bank: &Bank, token_account: &Pubkey) -> bool {
    bank.data(token_account).and_then(codec::TokenAccount::decode).map(|t| t.state == 2).unwrap_or(false)
}

fn valid_range(lo: i32, hi: i32, spacing: u16) -> bool {
    let s = spacing as i32;
    let usable = |t: i32| (MIN_TICK_INDEX..=MAX_TICK_INDEX).contains(&t) && t % s == 0;
    if !(usable(lo) && usable(hi) && lo < hi) {
        return false;
    }
    if spacing >= codec::FULL_RANGE_ONLY_TICK_SPACING_THRESHOLD {
        return lo == MIN_TICK_INDEX / s * s && hi == MAX_TICK_INDEX / s * s;
    }
    true
}

/// Nearest usable tick at or above / at or below the price (the model's own derivation of the sentinel rule).
fn usable_at_or_above(price: u128, spacing: u16) -> Option<i32> {
    let s = spacing as i32;
    let (mut lo, mut hi) = (MIN_TICK_INDEX / s, MAX_TICK_INDEX / s);
    if sqrt_price_from_tick_index(hi * s) < price {
        return None;
    }
    while lo < hi {
        let mid = lo + (hi - lo) / 2;
        if sqrt_price_from_tick_index(mid * s) >= price {
            hi = mid;
        } else {
            lo = mid + 1;
        }
    }
    Some(lo * s)
}
fn usable_at_or_below(price: u128, spacing: u16) -> Option<i32> {
    let s = spacing as i32;
    let (mut lo, mut hi) = (MIN_TICK_INDEX / s, MAX_TICK_INDEX / s);
    if sqrt_price_from_tick_index(lo * s) > price {
        return None;
    }
    while lo < hi {
        let mid = lo + (hi - lo + 1) / 2;
        if sqrt_price_from_tick_index(mid * s) <= price {
            lo = mid;
        } else {
            hi = mid - 1;
        }
    }
    Some(lo * s)
}

fn is_empty(p: &codec::Position) -> bool {
    p.liquidity == 0 && p.fee_owed_a == 0 && p.fee_owed_b == 0 && p.reward_infos.iter().all(|r| r.amount_owed == 0)
}

/// indexes of the bundled positions that exist in the bank for this bundle mint
fn open_bundled(bank: &Bank, bundle_mint: &Pubkey) -> Vec<u16> {
    (0..256u16).filter(|i| bank.data(&b::pda_bundled_position_u16(*bundle_mint, *i).0).map(codec::Position::is).unwrap_or(false)).collect()
}

impl Monitor for C18 {
    fn after(&mut self, w: &mut World, obs: &Obs, acc: &mut Acc) {
        let name = obs.ix.name;
        let fail = |acc: &mut Acc, sig: &str, detail: String| {
            acc.violation(format!("c18:{sig}:{name}"), detail, json!({"instruction": ix_brief(&obs.ix)}));
        };
        let ok = obs.ok();
        let slot = |n: &str| obs.ix.slot(n).map(|i| obs.ix.metas[i].key);
        // ------------------------------------------------------------------ opening
        if name == "open_position" || name == "open_position_with_metadata" || name == "open_position_with_token_extensions" || name == "open_bundled_position" {
            let Some(pool) = slot("whirlpool").and_then(|k| obs.pre.data(&k).and_then(codec::Pool::decode)) else { return };
            // requested bounds
            let off = match name {
                "open_position" => 9,
                "open_position_with_metadata" => 10,
                "open_bundled_position" => 10,
                _ => 8,
            };
            let (rlo, rhi) = (i32::from_le_bytes(obs.ix.data[off..off + 4].try_into().unwrap()), i32::from_le_bytes(obs.ix.data[off + 4..off + 8].try_into().unwrap()));
            let full_only = pool.tick_spacing >= codec::FULL_RANGE_ONLY_TICK_SPACING_THRESHOLD;
            // model: resolve bounds left to be derived from the price
            let expected: Option<(i32, i32)> = if full_only || (rlo != i32::MIN && rhi != i32::MAX) {
                Some((rlo, rhi))
            } else if rlo == i32::MIN && rhi == i32::MAX {
                None
            } else if rlo == i32::MIN {
                usable_at_or_above(pool.sqrt_price, pool.tick_spacing).map(|l| (l, rhi))
            } else {
                usable_at_or_below(pool.sqrt_price, pool.tick_spacing).map(|u| (rlo, u))
            };
            let expected = expected.filter(|(l, h)| valid_range(*l, *h, pool.tick_spacing));
            let sentinel = rlo == i32::MIN || rhi == i32::MAX;
            acc.count("opens_seen");
            if sentinel {
                acc.count("opens_with_derived_bound");
            }
            let posk = slot("position").or(slot("bundled_position")).unwrap();
            if ok {
                let Some(np) = w.bank.data(&posk).and_then(codec::Position::decode) else {
                    fail(acc, "open_without_position", "open succeeded but no position account exists".into());
                    return;
                };
                match expected {
                    None => fail(acc, "invalid_range_accepted", format!("opened [{}, {}) from request ({rlo}, {rhi}) on spacing {}: not a valid range", np.tick_lower_index, np.tick_upper_index, pool.tick_spacing)),
                    Some((l, h)) => {
                        if (np.tick_lower_index, np.tick_upper_index) != (l, h) {
                            fail(acc, "range_resolution", format!("request ({rlo}, {rhi}) at price {} (spacing {}) opened [{}, {}) but the nearest usable ticks keeping the position on one side give [{l}, {h})", pool.sqrt_price, pool.tick_spacing, np.tick_lower_index, np.tick_upper_index));
                        }
                    }
                }
                if np.liquidity != 0 || !is_empty(&np) || np.fee_growth_checkpoint_a != 0 || np.fee_growth_checkpoint_b != 0 || np.reward_infos.iter().any(|r| r.growth_inside_checkpoint != 0) {
                    fail(acc, "fresh_position_not_blank", "a freshly opened position carries liquidity, owed amounts or checkpoints".into());
                }
                if Some(np.whirlpool) != slot("whirlpool") {
                    fail(acc, "fresh_position_not_blank", format!("a freshly opened position references pool {} instead of the pool it was opened on", np.whirlpool));
                }
                if name != "open_bundled_position" {
                    // exactly one position token, no mint authority left
                    let mintk = slot("position_mint").unwrap();
                    let tak = slot("position_token_account").unwrap();
                    let mint = w.bank.data(&mintk).and_then(codec::Mint::decode);
                    let ta = w.bank.data(&tak).and_then(codec::TokenAccount::decode);
                    match (mint, ta) {
                        (Some(m), Some(t)) => {
                            if m.supply != 1 || m.mint_authority.is_some() || m.decimals != 0 || t.amount != 1 || t.mint != mintk || Some(t.owner) != slot("owner") {
                                fail(acc, "position_token", format!("after opening: supply {} mint authority {:?} decimals {} holder amount {} holder {} (expected exactly one token held by the owner, no authority)", m.supply, m.mint_authority, m.decimals, t.amount, t.owner));
                            }
                            if np.position_mint != mintk {
                                fail(acc, "position_token", "position does not reference its mint".into());
                            }
                        }
                        _ => fail(acc, "position_token", "mint or token account missing after opening".into()),
                    }
                }
            } else if expected.is_some() && !sentinel {
                acc.count("opens_failed_with_valid_range"); // other legitimate reasons exist (e.g. bundle index in use)
            }
            acc.situation(format!("{name}:{ok}:{}:{}", sentinel, expected.is_some()));
        }
        // ------------------------------------------------------------------ closing
        if name == "close_position" || name == "close_position_with_token_extensions" || name == "close_bundled_position" {
            let posk = slot("position").or(slot("bundled_position")).unwrap();
            let Some(pp) = obs.pre.data(&posk).and_then(codec::Position::decode) else { return };
            acc.count("closes_seen");
            let locked = slot("position_token_account").map(|t| frozen(&obs.pre, &t)).unwrap_or(false);
            if ok {
                acc.count("closes_ok");
                if !is_empty(&pp) {
                    fail(acc, "closed_non_empty", format!("closed a position with liquidity {} owed fees ({}, {}) owed rewards {:?}", pp.liquidity, pp.fee_owed_a, pp.fee_owed_b, pp.reward_infos.iter().map(|r| r.amount_owed).collect::<Vec<_>>()));
                }
                if locked {
                    fail(acc, "closed_locked", "closed a locked position".into());
                }
                if w.bank.get(&posk).is_some() {
                    fail(acc, "closed_but_exists", "position account still exists after close".into());
                }
                // a bundled position is closed through its bundle (which clears the bundle's bit): the plain close
                // instructions must not accept it with the bundle mint standing in for a position mint
                if name != "close_bundled_position" {
                    let bundle = crate::ix::build::pda_position_bundle(pp.position_mint).0;
                    if obs.pre.data(&bundle).and_then(codec::PositionBundle::decode).is_some() {
                        fail(acc, "bundled_position_closed_outside_its_bundle", format!("{name} closed bundled position {posk} of bundle mint {}: the bundle still marks the index as open", pp.position_mint));
                    }
                }
            } else if !is_empty(&pp) {
                acc.count("closes_rejected_non_empty");
            }
            acc.situation(format!("{name}:{ok}:{}:{locked}", is_empty(&pp)));
        }
        // ------------------------------------------------------------------ locked positions
        if let (Some(tak), Some(posk)) = (slot("position_token_account"), slot("position")) {
            let locked = frozen(&obs.pre, &tak);
            if locked {
                let removes = name.starts_with("decrease_liquidity") || name == "reset_position_range" || name == "reposition_liquidity_v2" || name.starts_with("close_position");
                if removes {
                    acc.count("forbidden_ops_on_locked");
                    if ok {
                        fail(acc, "locked_position_modified", format!("{name} succeeded on a locked position"));
                    }
                }
                let allowed = name.starts_with("increase_liquidity") || name.starts_with("collect_fees") || name.starts_with("collect_reward");
                if allowed && !ok {
                    // would it have worked on the same position if it were not locked?
                    let mut bk = obs.pre.clone();
                    if let Some(mut a) = bk.get(&tak).cloned() {
                        a.data[108] = 1; // AccountState::Initialized
                        bk.set(tak, a);
                        let (o, _) = w.simulate(&bk, &obs.ix);
                        acc.count("allowed_ops_on_locked_probed");
                        if o.ok() {
                            fail(acc, "lock_blocks_allowed_operation", format!("{name} fails on the locked position ({:?}) but succeeds on the same state when not locked", obs.out.err));
                        }
                    }
                } else if allowed {
                    acc.count("allowed_ops_on_locked_ok");
                }
            }
            let _ = posk;
        }
        // ------------------------------------------------------------------ locking
        if name == "lock_position" {
            let posk = slot("position").unwrap();
            let tak = slot("position_token_account").unwrap();
            let Some(pp) = obs.pre.data(&posk).and_then(codec::Position::decode) else { return };
            acc.count("locks_seen");
            if ok {
                acc.count("locks_ok");
                if pp.liquidity == 0 {
                    fail(acc, "locked_without_liquidity", "locked a position that holds no liquidity".into());
                }
                if !frozen(&w.bank, &tak) {
                    fail(acc, "lock_not_effective", "lock_position succeeded but the position token is not frozen".into());
                }
                let lc = w.bank.data(&slot("lock_config").unwrap()).and_then(codec::LockConfig::decode);
                if lc.map(|l| l.position != posk).unwrap_or(true) {
                    fail(acc, "lock_config", "no lock config for the locked position".into());
                }
            }
        }
        if name == "transfer_locked_position" && ok {
            let dest = slot("destination_token_account").unwrap();
            let src = slot("position_token_account").unwrap();
            acc.count("locked_transfers_ok");
            if !frozen(&w.bank, &dest) || codec::TokenAccount::decode(w.bank.data(&dest).unwrap_or(&[])).map(|t| t.amount) != Some(1) {
                fail(acc, "transfer_unlocked", "after transfer_locked_position the destination does not hold the frozen position token".into());
            }
            if !frozen(&obs.pre, &src) {
                fail(acc, "transfer_of_unlocked", "transfer_locked_position moved a position that was not locked".into());
            }
        }
        // ------------------------------------------------------------------ re-ranging
        if name == "reset_position_range" || name == "reposition_liquidity_v2" {
            let posk = slot("position").unwrap();
            let Some(pp) = obs.pre.data(&posk).and_then(codec::Position::decode) else { return };
            let Some(pool) = obs.pre.data(&pp.whirlpool).and_then(codec::Pool::decode) else { return };
            let (nlo, nhi) = (i32::from_le_bytes(obs.ix.data[8..12].try_into().unwrap()), i32::from_le_bytes(obs.ix.data[12..16].try_into().unwrap()));
            acc.count("reranges_seen");
            if ok {
                acc.count("reranges_ok");
                let np = w.bank.data(&posk).and_then(codec::Position::decode).unwrap_or_default();
                if !valid_range(nlo, nhi, pool.tick_spacing) {
                    fail(acc, "invalid_range_accepted", format!("re-ranged to ({nlo}, {nhi}) on spacing {}", pool.tick_spacing));
                }
                if (nlo, nhi) == (pp.tick_lower_index, pp.tick_upper_index) {
                    fail(acc, "same_range_accepted", "re-ranged to the same range".into());
                }
                if (np.tick_lower_index, np.tick_upper_index) != (nlo, nhi) {
                    fail(acc, "range_not_applied", format!("requested ({nlo}, {nhi}) stored [{}, {})", np.tick_lower_index, np.tick_upper_index));
                }
                if name == "reset_position_range" {
                    if !is_empty(&pp) {
                        fail(acc, "reranged_non_empty", format!("reset the range of a position with liquidity {} owed ({}, {})", pp.liquidity, pp.fee_owed_a, pp.fee_owed_b));
                    }
                    if np.fee_growth_checkpoint_a != 0 || np.fee_growth_checkpoint_b != 0 || np.reward_infos.iter().any(|r| r.growth_inside_checkpoint != 0) {
                        fail(acc, "checkpoints_not_reset", "growth checkpoints survive a range reset".into());
                    }
                } else {
                    // owed fees and rewards survive the reposition (they can only grow by what accrued)
                    if np.fee_owed_a < pp.fee_owed_a || np.fee_owed_b < pp.fee_owed_b || (0..3).any(|k| np.reward_infos[k].amount_owed < pp.reward_infos[k].amount_owed) {
                        fail(acc, "owed_amounts_lost", format!("owed before ({}, {}) after ({}, {})", pp.fee_owed_a, pp.fee_owed_b, np.fee_owed_a, np.fee_owed_b));
                    }
                }
            } else if name == "reset_position_range" && is_empty(&pp) && valid_range(nlo, nhi, pool.tick_spacing) && (nlo, nhi) != (pp.tick_lower_index, pp.tick_upper_index) {
                acc.count("valid_resets_rejected");
            }
            acc.situation(format!("{name}:{ok}:{}:{}", is_empty(&pp), valid_range(nlo, nhi, pool.tick_spacing)));
        }
        // ------------------------------------------------------------------ bundles
        if name == "open_bundled_position" || name == "close_bundled_position" || name == "delete_position_bundle" {
            let bundlek = slot("position_bundle").unwrap();
            if let Some(pre_b) = obs.pre.data(&bundlek).and_then(codec::PositionBundle::decode) {
                let pre_open = open_bundled(&obs.pre, &pre_b.position_bundle_mint);
                if name == "delete_position_bundle" {
                    acc.count("bundle_deletes_seen");
                    if ok && !pre_open.is_empty() {
                        fail(acc, "bundle_deleted_with_open_positions", format!("bundle deleted while positions {:?} are open", pre_open));
                    }
                    if ok {
                        acc.count("bundle_deletes_ok");
                    }
                } else if ok {
                    let post_b = w.bank.data(&bundlek).and_then(codec::PositionBundle::decode);
                    let now_open = open_bundled(&w.bank, &pre_b.position_bundle_mint);
                    acc.count("bundle_bitmap_checks");
                    match post_b {
                        Some(pb) => {
                            let marked: Vec<u16> = (0..256u16).filter(|i| pb.is_open(*i)).collect();
                            if marked != now_open {
                                fail(acc, "bundle_bitmap", format!("bitmap marks {:?} but the open bundled positions are {:?}", marked, now_open));
                            }
                        }
                        None => fail(acc, "bundle_bitmap", "bundle account vanished".into()),
                    }
                }
            }
        }
    }
}
