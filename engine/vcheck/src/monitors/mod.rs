pub mod c01;
pub mod c05;
pub mod c07;
pub mod c10;
pub mod c11;
pub mod c12;
pub mod c14;
pub mod c18;
pub mod swapmon;
pub mod twohop;

use crate::svm::TxOutcome;
use whirlpool::verif::{Event, StepRecord};

/// Swap step records of an outcome, grouped per `swap()` call.
pub fn swaps_of(out: &TxOutcome) -> Vec<(SwapBeginInfo, Vec<StepRecord>)> {
    let mut v: Vec<(SwapBeginInfo, Vec<StepRecord>)> = vec![];
    for e in &out.hook {
        match e {
            Event::SwapBegin { amount, sqrt_price_limit, amount_specified_is_input, a_to_b, timestamp, sqrt_price, tick_current_index, liquidity } => v.push((
                SwapBeginInfo {
                    amount: *amount,
                    sqrt_price_limit: *sqrt_price_limit,
                    exact_in: *amount_specified_is_input,
                    a_to_b: *a_to_b,
                    timestamp: *timestamp,
                    sqrt_price: *sqrt_price,
                    tick_current_index: *tick_current_index,
                    liquidity: *liquidity,
                },
                vec![],
            )),
            Event::SwapStep(s) => {
                if let Some(l) = v.last_mut() {
                    l.1.push(s.clone())
                }
            }
            Event::LogData(_) => {}
        }
    }
    v
}

#[derive(Clone, Debug)]
pub struct SwapBeginInfo {
    pub amount: u64,
    pub sqrt_price_limit: u128,
    pub exact_in: bool,
    pub a_to_b: bool,
    pub timestamp: u64,
    pub sqrt_price: u128,
    pub tick_current_index: i32,
    pub liquidity: u128,
}

pub fn crossings(out: &TxOutcome) -> usize {
    swaps_of(out).iter().map(|(_, s)| s.iter().filter(|r| matches!(r.crossed, Some((_, true, _)))).count()).sum()
}

pub fn bucket(n: usize) -> &'static str {
    match n {
        0 => "0",
        1 => "1",
        2..=4 => "2-4",
        5..=19 => "5-19",
        _ => "20+",
    }
}
