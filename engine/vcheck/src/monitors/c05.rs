//! C05 Tradable liquidity at any price equals the sum of positions covering it.
use super::{bucket, crossings};
use crate::codec;
use crate::hist::Monitor;
use crate::report::Acc;
use crate::world::{Obs, World};
use serde_json::json;
use std::collections::BTreeMap;

#[derive(Default)]
pub struct C05 {
    pub checks: u64,
}

/// Returns a list of (signature, detail) for one pool.
pub fn check_pool(bank: &crate::svm::Bank, pool_key: &solana_program::pubkey::Pubkey, acc: &mut Acc) -> Vec<(String, String)> {
    let mut out = vec![];
    let Some(pool) = bank.data(pool_key).and_then(codec::Pool::decode) else { return out };
    let positions = World::scan_positions(bank, pool_key);
    let arrays = World::scan_tick_arrays(bank, pool_key);
    let s = pool.tick_spacing as i32;
    // expected per-tick sums from the positions
    let mut net: BTreeMap<i32, i128> = BTreeMap::new();
    let mut gross: BTreeMap<i32, u128> = BTreeMap::new();
    let mut in_range: u128 = 0;
    let mut n_in_range = 0usize;
    for (_, p) in &positions {
        if p.liquidity == 0 {
            continue;
        }
        *net.entry(p.tick_lower_index).or_insert(0) += p.liquidity as i128;
        *net.entry(p.tick_upper_index).or_insert(0) -= p.liquidity as i128;
        *gross.entry(p.tick_lower_index).or_insert(0) += p.liquidity;
        *gross.entry(p.tick_upper_index).or_insert(0) += p.liquidity;
        if p.tick_lower_index <= pool.tick_current_index && pool.tick_current_index < p.tick_upper_index {
            in_range += p.liquidity;
            n_in_range += 1;
        }
    }
    // the tick the sums are taken at is the tick of the stored price: price(tick) <= sqrt_price <= price(tick + 1),
    // the upper end only in the state a downward crossing leaves behind (price exactly on the crossed tick)
    {
        use whirlpool::math::sqrt_price_from_tick_index as price_of;
        let t = pool.tick_current_index;
        let in_bounds = (codec::MIN_TICK_INDEX - 1..=codec::MAX_TICK_INDEX).contains(&t);
        let lower_ok = t < codec::MIN_TICK_INDEX || price_of(t) <= pool.sqrt_price;
        let upper_ok = t >= codec::MAX_TICK_INDEX || pool.sqrt_price <= price_of(t + 1);
        acc.count("tick_price_consistency_checks");
        if !in_bounds || !lower_ok || !upper_ok {
            out.push(("current_tick_not_the_tick_of_the_price".to_string(), format!("tick_current_index {t} but sqrt_price {} (tick of that price: {})", pool.sqrt_price, whirlpool::math::tick_index_from_sqrt_price(&pool.sqrt_price))));
        }
    }
    // every tick has ONE home: tick arrays start at multiples of 88 x spacing (the array that contains MIN included),
    // so no two arrays of a pool overlap - otherwise the net / gross of a tick is split between two accounts
    {
        let tia = 88 * s as i64;
        for start in arrays.keys() {
            let st = *start as i64;
            acc.count("tick_array_start_checks");
            if st.rem_euclid(tia) != 0 || st > codec::MAX_TICK_INDEX as i64 || st + tia <= codec::MIN_TICK_INDEX as i64 {
                out.push(("tick_array_at_invalid_start".to_string(), format!("the pool owns a tick array starting at {st}, which is not a valid start index for spacing {s} (88 x spacing = {tia})")));
            }
        }
    }
    acc.count("pool_liquidity_checks");
    if in_range > 0 {
        acc.count("pool_liquidity_checks_nonzero");
    }
    if pool.liquidity != in_range {
        out.push((
            "pool_liquidity".to_string(),
            format!("pool.liquidity {} != sum of {} positions covering tick {} = {}", pool.liquidity, n_in_range, pool.tick_current_index, in_range),
        ));
    }
    let mut seen: BTreeMap<i32, bool> = BTreeMap::new();
    let (mut n_fixed, mut n_dyn) = (0, 0);
    for (start, (key, ta)) in &arrays {
        let ta = match ta {
            Ok(t) => t,
            Err(e) => {
                out.push(("malformed_tick_array".into(), format!("tick array {key} (start {start}): {e}")));
                continue;
            }
        };
        if ta.dynamic { n_dyn += 1 } else { n_fixed += 1 }
        for (i, t) in ta.ticks.iter().enumerate() {
            let idx = start + i as i32 * s;
            let en = net.get(&idx).copied().unwrap_or(0);
            let eg = gross.get(&idx).copied().unwrap_or(0);
            acc.count("tick_checks");
            if eg > 0 {
                acc.count("tick_checks_nonzero");
                seen.insert(idx, true);
            }
            if t.initialized != (eg > 0) {
                out.push(("tick_initialized_flag".into(), format!("tick {idx}: initialized={} but gross liquidity of positions bounded by it = {eg}", t.initialized)));
            } else if t.liquidity_net != en || t.liquidity_gross != eg {
                out.push(("tick_net_gross".into(), format!("tick {idx}: stored net {} gross {} != position sums net {en} gross {eg}", t.liquidity_net, t.liquidity_gross)));
            }
        }
    }
    for (idx, g) in &gross {
        if *g > 0 && !seen.contains_key(idx) {
            out.push(("tick_missing".into(), format!("tick {idx} bounds positions with liquidity {g} but no tick array holds it")));
        }
    }
    acc.situation(format!("pos{}:inr{}:fx{}:dy{}", bucket(positions.len()), bucket(n_in_range), bucket(n_fixed), bucket(n_dyn)));
    out
}

impl Monitor for C05 {
    fn after(&mut self, w: &mut World, obs: &Obs, acc: &mut Acc) {
        if !obs.ok() {
            return;
        }
        let x = crossings(&obs.out);
        if x > 0 {
            acc.add("tick_crossings", x as u64);
        }
        let pools: Vec<_> = w.pools.iter().map(|p| p.key).collect();
        for pk in pools {
            // only pools touched by this instruction
            if !obs.ix.metas.iter().any(|m| m.key == pk) {
                continue;
            }
            if let Some(st) = w.bank.data(&pk).and_then(codec::Pool::decode) {
                if obs.ix.name.contains("swap") {
                    let on_tick = whirlpool::math::sqrt_price_from_tick_index(st.tick_current_index) == st.sqrt_price
                        || (st.tick_current_index < codec::MAX_TICK_INDEX && whirlpool::math::sqrt_price_from_tick_index(st.tick_current_index + 1) == st.sqrt_price);
                    if on_tick {
                        acc.count("swaps_ending_on_tick");
                    }
                    if st.sqrt_price == codec::MIN_SQRT_PRICE_X64 || st.sqrt_price == codec::MAX_SQRT_PRICE_X64 {
                        acc.count("swaps_ending_at_bound");
                    }
                }
            }
            self.checks += 1;
            let v = check_pool(&w.bank, &pk, acc);
            acc.situation(format!("{}:x{}", obs.ix.name, bucket(x)));
            for (sig, detail) in v {
                acc.violation(
                    format!("c05:{sig}:after:{}", obs.ix.name),
                    detail,
                    json!({"pool": pk.to_string(), "instruction": crate::hist::ix_brief(&obs.ix)}),
                );
            }
        }
    }
}
