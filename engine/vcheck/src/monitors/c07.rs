//! C07 A position earns its pro-rata share of fees only while the price is in range.
//! Shadow ledger in exact arithmetic, independent of the program's accumulators.
use super::swaps_of;
use crate::codec;
use crate::hist::{ix_brief, Monitor};
use crate::model::bu;
use crate::report::Acc;
use crate::svm::Bank;
use crate::world::{Obs, World};
use num_bigint::BigUint;
use num_traits::Zero;
use serde_json::json;
use solana_program::pubkey::Pubkey;
use std::collections::BTreeMap;

const SCALE: u32 = 192;

#[derive(Default, Clone)]
struct Entry {
    /// lower / upper bounds of the exactly earned amount, scaled by 2^192, per token
    lo: [BigUint; 2],
    hi: [BigUint; 2],
    steps: [u64; 2],
}

#[derive(Default)]
pub struct C07 {
    ledger: BTreeMap<Pubkey, Entry>,
}

/// (pool, begin, steps) for every swap computation of the instruction.
pub fn attribute_swaps(obs: &Obs) -> Vec<(Pubkey, super::SwapBeginInfo, Vec<whirlpool::verif::StepRecord>)> {
    let sw = swaps_of(&obs.out);
    let mut out = vec![];
    if obs.ix.name == "swap" || obs.ix.name == "swap_v2" {
        for (b, s) in sw {
            out.push((obs.ix.key("whirlpool"), b, s));
        }
    } else if obs.ix.name.starts_with("two_hop_swap") {
        let (p1, p2) = (obs.ix.key("whirlpool_one"), obs.ix.key("whirlpool_two"));
        let st = |k: &Pubkey| obs.pre.data(k).and_then(codec::Pool::decode);
        let (s1, s2) = (st(&p1), st(&p2));
        for (i, (b, s)) in sw.into_iter().enumerate() {
            let m = |p: &Option<codec::Pool>| p.as_ref().map(|p| p.sqrt_price == b.sqrt_price && p.liquidity == b.liquidity && p.tick_current_index == b.tick_current_index).unwrap_or(false);
            let k = match (m(&s1), m(&s2)) {
                (true, false) => p1,
                (false, true) => p2,
                // identical states: exact-in computes leg one first, exact-out leg two first
                _ => {
                    if (i == 0) == b.exact_in { p1 } else { p2 }
                }
            };
            out.push((k, b, s));
        }
    }
    out
}

fn inside_growth(bank: &Bank, pool: &codec::Pool, pool_key: &Pubkey, p: &codec::Position) -> Option<(u128, u128)> {
    let arrays = World::scan_tick_arrays(bank, pool_key);
    let tick = |idx: i32| -> Option<codec::Tick> {
        let start = crate::world::array_start(idx, pool.tick_spacing);
        let ta = arrays.get(&start)?.1.as_ref().ok()?;
        ta.ticks.get(((idx - start) / pool.tick_spacing as i32) as usize).copied()
    };
    let (tl, tu) = (tick(p.tick_lower_index)?, tick(p.tick_upper_index)?);
    let f = |g: u128, ol: u128, ou: u128| {
        let below = if pool.tick_current_index >= p.tick_lower_index { ol } else { g.wrapping_sub(ol) };
        let above = if pool.tick_current_index < p.tick_upper_index { ou } else { g.wrapping_sub(ou) };
        g.wrapping_sub(below).wrapping_sub(above)
    };
    Some((f(pool.fee_growth_global_a, tl.fee_growth_outside_a, tu.fee_growth_outside_a), f(pool.fee_growth_global_b, tl.fee_growth_outside_b, tu.fee_growth_outside_b)))
}

impl Monitor for C07 {
    fn after(&mut self, w: &mut World, obs: &Obs, acc: &mut Acc) {
        if !obs.ok() {
            return;
        }
        // ---------- accrual: swap steps ----------
        for (pool_key, begin, steps) in attribute_swaps(obs) {
            let Some(pre) = obs.pre.data(&pool_key).and_then(codec::Pool::decode) else { continue };
            let positions = World::scan_positions(&obs.pre, &pool_key);
            let token = if begin.a_to_b { 0 } else { 1 };
            let mut tick_before = begin.tick_current_index;
            for s in &steps {
                let cut = (s.fee_amount as u128) * (pre.protocol_fee_rate as u128) / 10_000;
                let lp = s.fee_amount as u128 - cut;
                if s.liquidity > 0 && lp > 0 {
                    for (k, p) in &positions {
                        if p.liquidity == 0 || !(p.tick_lower_index <= tick_before && tick_before < p.tick_upper_index) {
                            continue;
                        }
                        let e = self.ledger.entry(*k).or_default();
                        let num = (bu(lp) * bu(p.liquidity)) << SCALE;
                        let q = &num / bu(s.liquidity);
                        let exact = (&q * bu(s.liquidity)) == num;
                        e.lo[token] += &q;
                        e.hi[token] += if exact { q } else { q + 1u32 };
                        e.steps[token] += 1;
                        acc.count("accrual_steps");
                    }
                }
                tick_before = s.tick_index_after;
            }
        }
        // ---------- settlement: any instruction that changed a position's checkpoints / owed fees ----------
        for m in &obs.ix.metas {
            let (Some(pre_d), Some(post_d)) = (obs.pre.data(&m.key), w.bank.data(&m.key)) else { continue };
            let (Some(pp), Some(np)) = (codec::Position::decode(pre_d), codec::Position::decode(post_d)) else { continue };
            // (a fee-and-reward update that succeeds is a settlement even when it leaves the position's bytes alone)
            if pre_d == post_d && !(obs.ix.name == "update_fees_and_rewards" && m.key == obs.ix.key("position")) {
                continue;
            }
            let is_collect = obs.ix.name == "collect_fees" || obs.ix.name == "collect_fees_v2";
            if is_collect {
                // collection pays out what was credited and leaves the checkpoints alone
                if np.fee_owed_a != 0 || np.fee_owed_b != 0 {
                    acc.violation(format!("c07:owed_not_reset:{}", obs.ix.name), format!("fee_owed after collection ({}, {})", np.fee_owed_a, np.fee_owed_b), json!({"instruction": ix_brief(&obs.ix)}));
                }
                let plain = obs.pre.data(&pp.whirlpool).and_then(codec::Pool::decode).map(|p| super::swapmon::plain_pool(&obs.pre, &p)).unwrap_or(false);
                if plain {
                    let (ua, ub) = (obs.ix.key("token_owner_account_a"), obs.ix.key("token_owner_account_b"));
                    let ga = super::swapmon::bal(&w.bank, &ua) as i128 - super::swapmon::bal(&obs.pre, &ua) as i128;
                    let gb = super::swapmon::bal(&w.bank, &ub) as i128 - super::swapmon::bal(&obs.pre, &ub) as i128;
                    acc.count("fee_collections");
                    if ua != ub && (ga != pp.fee_owed_a as i128 || gb != pp.fee_owed_b as i128) {
                        acc.violation(format!("c07:collected_amount:{}", obs.ix.name), format!("fee_owed ({}, {}) but owner received ({ga}, {gb})", pp.fee_owed_a, pp.fee_owed_b), json!({"instruction": ix_brief(&obs.ix)}));
                    }
                }
                continue;
            }
            if obs.ix.name == "reset_position_range" || obs.ix.name.starts_with("close_") {
                self.ledger.remove(&m.key);
                continue;
            }
            // credited since the previous settlement
            let credited = [np.fee_owed_a.wrapping_sub(pp.fee_owed_a), np.fee_owed_b.wrapping_sub(pp.fee_owed_b)];
            let e = self.ledger.remove(&m.key).unwrap_or_default();
            // exemption named in the statement: L * growth delta leaves 128 bits => nothing is credited
            let pool_pre = obs.pre.data(&pp.whirlpool).and_then(codec::Pool::decode);
            let mut exempt = [false, false];
            if let Some(pool_pre) = &pool_pre {
                // the program first applies the time-independent part: growth inside as of the pre-state
                if let Some((ia, ib)) = inside_growth(&obs.pre, pool_pre, &pp.whirlpool, &pp) {
                    let d = [ia.wrapping_sub(pp.fee_growth_checkpoint_a), ib.wrapping_sub(pp.fee_growth_checkpoint_b)];
                    for t in 0..2 {
                        if (bu(pp.liquidity) * bu(d[t])).bits() > 128 {
                            exempt[t] = true;
                            acc.count("overflow_exemptions");
                        }
                    }
                }
            }
            acc.count("position_settlements");
            for t in 0..2 {
                let name = if t == 0 { "A" } else { "B" };
                let c = BigUint::from(credited[t]) << SCALE;
                if !e.hi[t].is_zero() {
                    acc.count("position_settlements_with_earned_fees");
                }
                if c > e.hi[t] {
                    acc.violation(
                        format!("c07:credited_more_than_earned:{}", obs.ix.name),
                        format!("position {} token {name}: credited {} but its exact pro-rata share of the in-range LP fees since the last update is {} (+{}/2^192) over {} steps; liquidity {} range [{}, {})", m.key, credited[t], &e.hi[t] >> SCALE, &e.hi[t] & ((BigUint::from(1u8) << SCALE) - 1u8), e.steps[t], pp.liquidity, pp.tick_lower_index, pp.tick_upper_index),
                        json!({"instruction": ix_brief(&obs.ix), "position": m.key.to_string()}),
                    );
                    continue;
                }
                if exempt[t] {
                    continue;
                }
                // shortfall bound: 1 + n_steps * L / 2^64
                let short = &e.lo[t] - c.min(e.lo[t].clone());
                let bound = (BigUint::from(1u8) << SCALE) + ((bu(pp.liquidity) * BigUint::from(e.steps[t])) << (SCALE - 64));
                if short > bound {
                    acc.violation(
                        format!("c07:credited_too_little:{}", obs.ix.name),
                        format!("position {} token {name}: credited {} but exact share is {}; shortfall exceeds 1 + {}*L/2^64 (L = {})", m.key, credited[t], &e.lo[t] >> SCALE, e.steps[t], pp.liquidity),
                        json!({"instruction": ix_brief(&obs.ix), "position": m.key.to_string()}),
                    );
                }
            }
            acc.situation(format!("{}:earned{}{}:L{}", obs.ix.name, !e.hi[0].is_zero() as u8, !e.hi[1].is_zero() as u8, crate::rnd::bitlen(pp.liquidity) / 16));
        }
    }
}
