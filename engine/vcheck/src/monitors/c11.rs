//! C11 Rewards accrue at the set emission rate, pro rata to in-range liquidity.
use super::swapmon::bal;
use crate::codec;
use crate::hist::{ix_brief, Monitor};
use crate::model::bu;
use crate::report::Acc;
use crate::world::{Obs, World};
use num_bigint::BigUint;
use num_traits::Zero;
use serde_json::json;
use solana_program::pubkey::Pubkey;
use std::collections::BTreeMap;

const SCALE: u32 = 192;

#[derive(Default, Clone)]
struct Entry {
    /// per reward: upper bound (all intervals), lower bound (only intervals the program does not drop), scaled 2^192
    hi: [BigUint; 3],
    lo: [BigUint; 3],
    intervals: [u64; 3],
}

#[derive(Default)]
pub struct C11 {
    ledger: BTreeMap<Pubkey, Entry>,
    /// per pool: clock of the last successful instruction that carries the clock into the reward bookkeeping
    /// (every instruction that can change in-range liquidity is one). Accrual since then is owed at the
    /// liquidity the pool had since then - whatever timestamp the program itself remembered.
    settled_at: BTreeMap<Pubkey, u64>,
}

/// instructions that carry the clock into the pool's reward bookkeeping
fn carries_timestamp(name: &str) -> bool {
    name.contains("swap") || name.contains("liquidity") || name == "update_fees_and_rewards" || name.starts_with("set_reward_emissions")
}

impl Monitor for C11 {
    fn after(&mut self, w: &mut World, obs: &Obs, acc: &mut Acc) {
        let name = obs.ix.name;
        let fail = |acc: &mut Acc, sig: &str, detail: String| {
            acc.violation(format!("c11:{sig}:{name}"), detail, json!({"instruction": ix_brief(&obs.ix), "clock": obs.pre.clock.unix_timestamp}));
        };
        let now = obs.pre.clock.unix_timestamp as u64;
        // ---------- an operation carrying a timestamp earlier than the last update fails ----------
        if carries_timestamp(name) {
            for m in &obs.ix.metas {
                if let Some(pre) = obs.pre.data(&m.key).and_then(codec::Pool::decode) {
                    if now < pre.reward_last_updated_timestamp {
                        acc.count("earlier_timestamp_attempts");
                        if obs.ok() {
                            fail(acc, "earlier_timestamp_accepted", format!("clock {now} < reward_last_updated_timestamp {} but the instruction succeeded", pre.reward_last_updated_timestamp));
                        }
                    }
                }
            }
        }
        if !obs.ok() {
            return;
        }
        // ---------- per pool touched: growth update over the elapsed interval ----------
        for m in &obs.ix.metas {
            let (Some(pre), Some(post)) = (obs.pre.data(&m.key).and_then(codec::Pool::decode), w.bank.data(&m.key).and_then(codec::Pool::decode)) else { continue };
            let pool_key = m.key;
            let advanced = post.reward_last_updated_timestamp != pre.reward_last_updated_timestamp;
            for k in 0..3 {
                let (rp, rq) = (&pre.reward_infos[k], &post.reward_infos[k]);
                let delta = rq.growth_global_x64.wrapping_sub(rp.growth_global_x64);
                // nothing accrues while in-range liquidity is zero or for uninitialized rewards
                if (pre.liquidity == 0 || !rp.initialized()) && delta != 0 {
                    fail(acc, "growth_without_liquidity_or_reward", format!("reward {k}: growth advanced by {delta} with pool liquidity {} initialized {}", pre.liquidity, rp.initialized()));
                }
                if !advanced {
                    if delta != 0 {
                        fail(acc, "growth_without_time", format!("reward {k}: growth advanced by {delta} without a timestamp update"));
                    }
                    continue;
                }
            }
            let shadow = self.settled_at.get(&pool_key).copied();
            if carries_timestamp(name) {
                self.settled_at.insert(pool_key, now);
            }
            if !advanced || post.reward_last_updated_timestamp != now {
                if advanced {
                    fail(acc, "timestamp_not_clock", format!("reward_last_updated_timestamp {} but clock {now}", post.reward_last_updated_timestamp));
                }
                continue;
            }
            // the interval the pool really spent at pre.liquidity: since the later of the program's own
            // timestamp and the last clock-carrying instruction the monitor saw
            let since = pre.reward_last_updated_timestamp.max(shadow.unwrap_or(0)).min(now);
            if since > pre.reward_last_updated_timestamp {
                acc.count("reward_intervals_with_stale_program_timestamp");
            }
            let dt = now - since;
            acc.count("reward_intervals");
            if dt == 0 || pre.liquidity == 0 {
                continue;
            }
            let positions = World::scan_positions(&obs.pre, &pool_key);
            for k in 0..3 {
                let rp = &pre.reward_infos[k];
                if !rp.initialized() || rp.emissions_per_second_x64 == 0 {
                    continue;
                }
                let prod = bu(dt as u128) * bu(rp.emissions_per_second_x64);
                let dropped = prod.bits() > 128;
                let exp_delta: u128 = if dropped { 0 } else { num_traits::ToPrimitive::to_u128(&(&prod / bu(pre.liquidity))).unwrap_or(0) };
                let got = post.reward_infos[k].growth_global_x64.wrapping_sub(rp.growth_global_x64);
                acc.count("reward_intervals_emitting");
                if dropped {
                    acc.count("reward_intervals_dropped_by_overflow");
                }
                // the growth itself is never inflated beyond emissions x elapsed / liquidity
                // (how far it may fall short is judged on the credited amounts below)
                if got > exp_delta {
                    fail(acc, "growth_rate", format!("reward {k}: growth advanced by {got} over {dt}s at {} per second with liquidity {}: exact value floors to {exp_delta}", rp.emissions_per_second_x64, pre.liquidity));
                }
                for (pk, p) in &positions {
                    if p.liquidity == 0 || !(p.tick_lower_index <= pre.tick_current_index && pre.tick_current_index < p.tick_upper_index) {
                        continue;
                    }
                    let e = self.ledger.entry(*pk).or_default();
                    // share = dt * e * L_i / (L_pool * 2^64)
                    let num = (&prod * bu(p.liquidity)) << (SCALE - 64);
                    let q = &num / bu(pre.liquidity);
                    let exact = (&q * bu(pre.liquidity)) == num;
                    e.hi[k] += if exact { q.clone() } else { &q + 1u32 };
                    if !dropped {
                        e.lo[k] += q;
                        e.intervals[k] += 1;
                    }
                    acc.count("accrual_records");
                }
            }
        }
        // ---------- settlement: instructions that change a position's reward bookkeeping ----------
        let is_collect = name == "collect_reward" || name == "collect_reward_v2";
        for m in &obs.ix.metas {
            let (Some(pre_d), Some(post_d)) = (obs.pre.data(&m.key), w.bank.data(&m.key)) else { continue };
            let (Some(pp), Some(np)) = (codec::Position::decode(pre_d), codec::Position::decode(post_d)) else { continue };
            if is_collect {
                let idx = obs.ix.data[8] as usize;
                if idx >= 3 {
                    continue;
                }
                let vault = obs.ix.key("reward_vault");
                let dest = obs.ix.key("reward_owner_account");
                let owed = pp.reward_infos[idx].amount_owed;
                let vbal = bal(&obs.pre, &vault);
                let pay = owed.min(vbal);
                let got = bal(&w.bank, &dest) as i128 - bal(&obs.pre, &dest) as i128;
                let paid = vbal as i128 - bal(&w.bank, &vault) as i128;
                acc.count("reward_collections");
                if owed > vbal {
                    acc.count("reward_collections_underfunded");
                }
                // (transfer-fee reward mints: the receiver gets less than the vault pays; judged on the vault side)
                if paid != pay as i128 || got > pay as i128 || (got != pay as i128 && obs.pre.get(&vault).map(|a| a.owner) == Some(spl_token::ID)) {
                    fail(acc, "collect_amount", format!("reward {idx}: owed {owed}, vault {vbal}: vault paid {paid}, receiver got {got}, expected min = {pay}"));
                }
                if np.reward_infos[idx].amount_owed != owed - pay {
                    fail(acc, "collect_remainder", format!("reward {idx}: owed {owed}, paid {pay}, remaining owed {}", np.reward_infos[idx].amount_owed));
                }
                for j in 0..3 {
                    if j != idx && np.reward_infos[j] != pp.reward_infos[j] {
                        fail(acc, "collect_touched_other_reward", format!("collecting reward {idx} changed reward {j}"));
                    }
                }
                continue;
            }
            if pre_d == post_d {
                continue;
            }
            if name == "reset_position_range" || name.starts_with("close_") {
                self.ledger.remove(&m.key);
                continue;
            }
            if name == "collect_fees" || name == "collect_fees_v2" {
                continue;
            }
            let e = self.ledger.remove(&m.key).unwrap_or_default();
            acc.count("position_settlements");
            for k in 0..3 {
                let credited = np.reward_infos[k].amount_owed.wrapping_sub(pp.reward_infos[k].amount_owed);
                let c = BigUint::from(credited) << SCALE;
                if !e.hi[k].is_zero() {
                    acc.count("position_settlements_with_earned_rewards");
                }
                if c > e.hi[k] {
                    fail(acc, "credited_more_than_earned", format!("position {} reward {k}: credited {credited} but its exact pro-rata share of the emissions since the last update is {} (liquidity {}, range [{}, {}), {} intervals)", m.key, &e.hi[k] >> SCALE, pp.liquidity, pp.tick_lower_index, pp.tick_upper_index, e.intervals[k]));
                    continue;
                }
                // exemptions: the position's own product or amount leaves the 128/64-bit ranges
                let exact_amount = &e.lo[k] >> SCALE;
                if exact_amount.bits() > 64 {
                    acc.count("amount_overflow_exemptions");
                    continue;
                }
                // growth delta of this position = credited-worthy growth; L * delta >= 2^128 => dropped.
                // (delta <= 2^64 * amount / L + intervals, so the product bound below is conservative)
                let prod_bits = ((&e.lo[k] >> (SCALE - 64)) + bu(pp.liquidity) * BigUint::from(e.intervals[k])).bits();
                if prod_bits > 128 {
                    acc.count("amount_overflow_exemptions");
                    continue;
                }
                let short = &e.lo[k] - c.clone().min(e.lo[k].clone());
                let bound = (BigUint::from(1u8) << SCALE) + ((bu(pp.liquidity) * BigUint::from(e.intervals[k])) << (SCALE - 64));
                if short > bound {
                    fail(acc, "credited_too_little", format!("position {} reward {k}: credited {credited} but exact share is {}; shortfall exceeds 1 + {}*L/2^64 (L = {})", m.key, exact_amount, e.intervals[k], pp.liquidity));
                }
            }
            acc.situation(format!("{name}:earned{}{}{}", !e.hi[0].is_zero() as u8, !e.hi[1].is_zero() as u8, !e.hi[2].is_zero() as u8));
        }
        // ---------- set_reward_emissions: requires a day of emissions in the vault ----------
        if name.starts_with("set_reward_emissions") && !name.contains("super") {
            let idx = obs.ix.data[8] as usize;
            let e = u128::from_le_bytes(obs.ix.data[9..25].try_into().unwrap());
            // the vault that counts is the one recorded for the reward, whatever account the instruction names
            let named = obs.ix.key("reward_vault");
            let vault = obs.pre.data(&obs.ix.key("whirlpool")).and_then(codec::Pool::decode).and_then(|p| p.reward_infos.get(idx).map(|r| r.vault)).unwrap_or(named);
            if named != vault {
                fail(acc, "emissions_judged_on_another_account", format!("reward {idx}: the instruction names {named} as reward vault, the reward's vault is {vault}"));
            }
            let need = (bu(86_400) * bu(e)) >> 64;
            acc.count("emission_changes");
            if BigUint::from(bal(&obs.pre, &vault)) < need {
                fail(acc, "emissions_without_funding", format!("reward {idx}: emissions {e} need {need} per day but the vault holds {}", bal(&obs.pre, &vault)));
            }
            if let Some(post) = w.bank.data(&obs.ix.key("whirlpool")).and_then(codec::Pool::decode) {
                if idx < 3 && post.reward_infos[idx].emissions_per_second_x64 != e {
                    fail(acc, "emissions_not_stored", format!("reward {idx}: stored {} requested {e}", post.reward_infos[idx].emissions_per_second_x64));
                }
            }
            // funding threshold probes on clones: exactly `need` suffices, one less does not
            if need.bits() <= 64 {
                let need64 = num_traits::ToPrimitive::to_u64(&need).unwrap();
                for (amt, must_ok) in [(need64, true), (need64.wrapping_sub(1), false)] {
                    if !must_ok && need64 == 0 {
                        continue;
                    }
                    let mut bk = obs.pre.clone();
                    if let Some(a) = bk.get(&vault).cloned() {
                        let mut a = a;
                        a.data[64..72].copy_from_slice(&amt.to_le_bytes());
                        bk.set(vault, a);
                    }
                    let (o, _) = w.simulate(&bk, &obs.ix);
                    acc.count("funding_probes");
                    if o.ok() != must_ok {
                        fail(acc, "funding_threshold", format!("reward {idx}: a day of emissions is {need64}; with a vault balance of {amt} the call {}", if o.ok() { "succeeded" } else { "failed" }));
                    }
                }
            }
        }
    }
}
