//! C01 Pool solvency.
use super::swapmon::{bal, parse_swap, plain_pool};
use crate::codec;
use crate::hist::{ix_brief, Monitor};
use crate::model::*;
use crate::report::Acc;
use crate::svm::Bank;
use crate::world::{Obs, World};
use num_bigint::BigUint;
use num_traits::Zero;
use rand::seq::SliceRandom;
use rand::Rng;
use serde_json::json;
use solana_program::pubkey::Pubkey;
use std::collections::BTreeMap;
use whirlpool::math::sqrt_price_from_tick_index;

pub struct C01 {
    /// drain the pool on a clone after every `drain_every`-th successful instruction
    pub drain_every: u32,
    n: u32,
    /// trader segment tracking per pool: consecutive successful swaps by one signer with no other
    /// successful instruction on that pool in between
    seg: BTreeMap<Pubkey, Segment>,
}
struct Segment {
    authority: Pubkey,
    acct_a: Pubkey,
    acct_b: Pubkey,
    /// net token movement of the trader over the swaps of the segment
    da: i128,
    db: i128,
    swaps: u32,
}
impl C01 {
    pub fn new(drain_every: u32) -> C01 {
        C01 { drain_every, n: 0, seg: BTreeMap::new() }
    }
}

fn tick_of(arrays: &BTreeMap<i32, (Pubkey, Result<codec::TickArray, String>)>, idx: i32, spacing: u16) -> Option<codec::Tick> {
    let start = crate::world::array_start(idx, spacing);
    let ta = arrays.get(&start)?.1.as_ref().ok()?;
    let off = ((idx - start) / spacing as i32) as usize;
    ta.ticks.get(off).copied()
}

/// Oracle A: static claim inequality, exact arithmetic. Returns violations.
pub fn claims(bank: &Bank, pool_key: &Pubkey, acc: &mut Acc) -> Vec<(String, String)> {
    let mut out = vec![];
    let Some(pool) = bank.data(pool_key).and_then(codec::Pool::decode) else { return out };
    if !plain_pool(bank, &pool) {
        return out;
    }
    let positions = World::scan_positions(bank, pool_key);
    let arrays = World::scan_tick_arrays(bank, pool_key);
    let mut claim_a = BigUint::from(pool.protocol_fee_owed_a);
    let mut claim_b = BigUint::from(pool.protocol_fee_owed_b);
    let mut nonzero = 0;
    for (_, p) in &positions {
        claim_a += p.fee_owed_a;
        claim_b += p.fee_owed_b;
        if p.liquidity == 0 {
            continue;
        }
        nonzero += 1;
        let (pl, pu) = (sqrt_price_from_tick_index(p.tick_lower_index), sqrt_price_from_tick_index(p.tick_upper_index));
        let (wa, wb) = position_amounts(pool.tick_current_index, pool.sqrt_price, p.tick_lower_index, p.tick_upper_index, pl, pu, p.liquidity, false);
        claim_a += wa;
        claim_b += wb;
        // pending fees, computed the way the accumulators define them (wrapping arithmetic)
        let (Some(tl), Some(tu)) = (tick_of(&arrays, p.tick_lower_index, pool.tick_spacing), tick_of(&arrays, p.tick_upper_index, pool.tick_spacing)) else { continue };
        let inside = |g: u128, ol: u128, ou: u128| -> u128 {
            let below = if pool.tick_current_index >= p.tick_lower_index { ol } else { g.wrapping_sub(ol) };
            let above = if pool.tick_current_index < p.tick_upper_index { ou } else { g.wrapping_sub(ou) };
            g.wrapping_sub(below).wrapping_sub(above)
        };
        let ia = inside(pool.fee_growth_global_a, tl.fee_growth_outside_a, tu.fee_growth_outside_a);
        let ib = inside(pool.fee_growth_global_b, tl.fee_growth_outside_b, tu.fee_growth_outside_b);
        let pend = |inside: u128, cp: u128| -> BigUint {
            let d = inside.wrapping_sub(cp);
            let prod = bu(p.liquidity) * bu(d);
            if prod.bits() > 128 {
                BigUint::zero() // the program credits nothing when the product leaves u128 (C07 exemption)
            } else {
                prod >> 64
            }
        };
        claim_a += pend(ia, p.fee_growth_checkpoint_a);
        claim_b += pend(ib, p.fee_growth_checkpoint_b);
    }
    let (va, vb) = (bal(bank, &pool.token_vault_a), bal(bank, &pool.token_vault_b));
    acc.count("claim_checks");
    if nonzero > 0 {
        acc.count("claim_checks_with_liquidity");
    }
    // how close the observed states come to the boundary of the inequality (evidence only)
    let slack = |v: u64, c: &BigUint| -> &'static str {
        let v = BigUint::from(v);
        if v < *c {
            "short"
        } else {
            let d = v - c;
            if d.is_zero() {
                "exact"
            } else if d <= BigUint::from(positions.len() as u64 + 1) {
                "within_rounding"
            } else {
                "loose"
            }
        }
    };
    let (sa, sb) = (slack(va, &claim_a), slack(vb, &claim_b));
    acc.count(&format!("claim_slack_a_{sa}"));
    acc.count(&format!("claim_slack_b_{sb}"));
    acc.situation(format!("claims:pos{}:a_{sa}:b_{sb}:tick{}", super::bucket(nonzero), pool.tick_current_index.div_euclid(150_000)));
    if BigUint::from(va) < claim_a {
        out.push(("claims_exceed_vault_a".into(), format!("vault A holds {va} but outstanding claims are {claim_a} ({} positions)", positions.len())));
    }
    if BigUint::from(vb) < claim_b {
        out.push(("claims_exceed_vault_b".into(), format!("vault B holds {vb} but outstanding claims are {claim_b} ({} positions)", positions.len())));
    }
    out
}

/// Oracle B: on a clone, withdraw everything in a random order; every step must succeed.
pub fn drain(w: &mut World, bank: &Bank, p: usize, acc: &mut Acc) -> Vec<(String, String)> {
    let mut out = vec![];
    let pool_key = w.pools[p].key;
    let Some(pool) = bank.data(&pool_key).and_then(codec::Pool::decode) else { return out };
    if !plain_pool(bank, &pool) {
        return out;
    }
    let mut idx: Vec<usize> = (0..w.positions.len())
        .filter(|i| w.positions[*i].pool == p && bank.get(&w.positions[*i].position).is_some())
        .collect();
    idx.shuffle(&mut w.r);
    let protocol_first = w.r.gen_bool(0.3);
    let mut steps: Vec<(String, crate::ix::Ix)> = vec![];
    let cp_v2: bool = w.r.gen();
    let cp = w.collect_protocol_fees_ix(p, 0, cp_v2);
    if protocol_first {
        steps.push(("collect_protocol_fees".into(), cp.clone()));
    }
    for i in idx {
        let Some(pos) = bank.data(&w.positions[i].position).and_then(codec::Position::decode) else { continue };
        // a bundled position address can be closed and opened again on another pool: stale entries of the workload's
        // list (same address, other pool or other bundle slot already closed) are not this pool's positions
        if pos.whirlpool != pool_key || w.positions[i].closed {
            continue;
        }
        // the bank is the truth: this runs before the workload's own bookkeeping has seen the instruction just executed
        // (a reposition changes the range, a lock freezes the position token account: state byte 108 == 2)
        w.positions[i].lower = pos.tick_lower_index;
        w.positions[i].upper = pos.tick_upper_index;
        let frozen = bank.data(&w.positions[i].token_account).map(|d| d.len() > 108 && d[108] == 2).unwrap_or(false);
        if w.positions[i].locked || frozen {
            acc.count("drain_skipped_locked_positions");
            continue;
        }
        if pos.liquidity > 0 {
            if w.r.gen() {
                steps.push((format!("update_fees_and_rewards[{i}]"), w.update_fees_ix(i)));
            }
            let ix = if w.r.gen() { w.modify_v1(i).decrease_liquidity(pos.liquidity, 0, 0) } else { w.modify_v2(i).decrease_liquidity_v2(pos.liquidity, 0, 0, None) };
            steps.push((format!("decrease_liquidity[{i}] L={}", pos.liquidity), ix));
        }
        let v2 = w.r.gen();
        steps.push((format!("collect_fees[{i}]"), w.collect_fees_ix(i, v2)));
    }
    if !protocol_first {
        steps.push(("collect_protocol_fees".into(), cp));
    }
    acc.count("drains");
    // building the instructions may have created token accounts for the receivers: start from the
    // given state plus those (set-up only) accounts
    let mut b = bank.clone();
    for (k, a) in &w.bank.accts {
        if !b.accts.contains_key(k) {
            b.accts.insert(*k, a.clone());
        }
    }
    for (name, ix) in steps {
        let (o, b2) = w.simulate(&b, &ix);
        acc.count("drain_steps");
        if !o.ok() {
            out.push((
                format!("drain_failed:{}", ix.name),
                format!("withdrawing everything: step {name} failed with {:?}; vaults hold ({}, {})", o.err, bal(&b, &pool.token_vault_a), bal(&b, &pool.token_vault_b)),
            ));
            break;
        }
        b = b2;
    }
    out
}

impl Monitor for C01 {
    fn after(&mut self, w: &mut World, obs: &Obs, acc: &mut Acc) {
        // ---- oracle C: trader segments (a party that only swaps, nobody else in between) ----
        if obs.ok() {
            let swap = parse_swap(&obs.ix).filter(|c| c.owner_a != c.owner_b);
            for p in 0..w.pools.len() {
                let pk = w.pools[p].key;
                if !obs.ix.metas.iter().any(|m| m.key == pk) {
                    continue;
                }
                match &swap {
                    Some(c) if c.pool == pk => {
                        let fresh = match self.seg.get(&pk) {
                            Some(e) => e.authority != c.authority || e.acct_a != c.owner_a || e.acct_b != c.owner_b,
                            None => true,
                        };
                        if fresh {
                            self.seg.insert(pk, Segment { authority: c.authority, acct_a: c.owner_a, acct_b: c.owner_b, da: 0, db: 0, swaps: 0 });
                        }
                        let e = self.seg.get_mut(&pk).unwrap();
                        e.swaps += 1;
                        e.da += bal(&w.bank, &e.acct_a) as i128 - bal(&obs.pre, &e.acct_a) as i128;
                        e.db += bal(&w.bank, &e.acct_b) as i128 - bal(&obs.pre, &e.acct_b) as i128;
                        let (da, db) = (e.da, e.db);
                        acc.count("trader_segment_checks");
                        if e.swaps >= 2 {
                            acc.count("trader_segment_checks_multi");
                        }
                        if plain_pool(&w.bank, &codec::Pool::decode(w.bank.data(&pk).unwrap()).unwrap()) && da >= 0 && db >= 0 && (da > 0 || db > 0) {
                            acc.violation(
                                format!("c01:trader_extracted_value:{}", obs.ix.name),
                                format!("after {} consecutive swaps (nobody else touched the pool) the trader holds {da:+} of token A and {db:+} of token B", e.swaps),
                                json!({"instruction": ix_brief(&obs.ix), "trader": c.authority.to_string()}),
                            );
                        }
                    }
                    _ => {
                        self.seg.remove(&pk);
                    }
                }
            }
        }
        if !obs.ok() {
            return;
        }
        let touched: Vec<usize> = (0..w.pools.len()).filter(|p| obs.ix.metas.iter().any(|m| m.key == w.pools[*p].key)).collect();
        for p in touched {
            let pk = w.pools[p].key;
            for (sig, detail) in claims(&w.bank, &pk, acc) {
                acc.violation(format!("c01:{sig}:after:{}", obs.ix.name), detail, json!({"pool": pk.to_string(), "instruction": ix_brief(&obs.ix)}));
            }
            self.n += 1;
            if self.n % self.drain_every == 0 {
                let bank = w.bank.clone();
                for (sig, detail) in drain(w, &bank, p, acc) {
                    acc.violation(format!("c01:{sig}:after:{}", obs.ix.name), detail, json!({"pool": pk.to_string(), "instruction": ix_brief(&obs.ix)}));
                }
            }
            acc.situation(format!("{}:{}", obs.ix.name, super::bucket(super::crossings(&obs.out))));
        }
    }
    fn end(&mut self, w: &mut World, acc: &mut Acc) {
        for p in 0..w.pools.len() {
            let bank = w.bank.clone();
            let pk = w.pools[p].key;
            for (sig, detail) in drain(w, &bank, p, acc) {
                acc.violation(format!("c01:{sig}:at_end"), detail, json!({"pool": pk.to_string()}));
            }
        }
    }
}
