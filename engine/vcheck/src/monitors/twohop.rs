//! Two-hop observers: C17 (two-hop == two single swaps) and the two-hop part of C03.
use super::swapmon::bal;
use crate::codec::{self, Rd, MAX_SQRT_PRICE_X64, MIN_SQRT_PRICE_X64};
use crate::hist::{ix_brief, Monitor};
use crate::ix::build as b;
use crate::ix::Ix;
use crate::report::Acc;
use crate::svm::Bank;
use crate::world::{Obs, World, MEMO, TOKEN};
use rand::Rng;
use serde_json::json;
use solana_program::pubkey::Pubkey;

#[derive(Clone, Debug)]
pub struct TwoHop {
    pub v2: bool,
    pub amount: u64,
    pub threshold: u64,
    pub exact_in: bool,
    pub d1: bool,
    pub d2: bool,
    pub l1: u128,
    pub l2: u128,
    pub p1: Pubkey,
    pub p2: Pubkey,
    pub authority: Pubkey,
    /// trader accounts: input, output, intermediate (v1: two of them may be distinct accounts of the same mint)
    pub acct_in: Pubkey,
    pub acct_out: Pubkey,
    pub acct_mid: Vec<Pubkey>,
    pub vault_one_in: Pubkey,
    pub vault_one_mid: Pubkey,
    pub vault_two_mid: Pubkey,
    pub vault_two_out: Pubkey,
}

pub fn parse_two_hop(ix: &Ix) -> Option<TwoHop> {
    if ix.name != "two_hop_swap" && ix.name != "two_hop_swap_v2" {
        return None;
    }
    let v2 = ix.name == "two_hop_swap_v2";
    let mut r = Rd::new(&ix.data, 8);
    let (amount, threshold, exact_in, d1, d2, l1, l2) = (r.u64(), r.u64(), r.bool(), r.bool(), r.bool(), r.u128(), r.u128());
    let k = |n: &str| ix.key(n);
    let (acct_in, acct_out, acct_mid, v1i, v1m, v2m, v2o) = if v2 {
        (k("token_owner_account_input"), k("token_owner_account_output"), vec![], k("token_vault_one_input"), k("token_vault_one_intermediate"), k("token_vault_two_intermediate"), k("token_vault_two_output"))
    } else {
        let (ia, ib) = (k("token_owner_account_one_a"), k("token_owner_account_one_b"));
        let (ja, jb) = (k("token_owner_account_two_a"), k("token_owner_account_two_b"));
        let (va, vb, wa, wb) = (k("token_vault_one_a"), k("token_vault_one_b"), k("token_vault_two_a"), k("token_vault_two_b"));
        let (inp, mid1, vi, vm1) = if d1 { (ia, ib, va, vb) } else { (ib, ia, vb, va) };
        let (mid2, out, vm2, vo) = if d2 { (ja, jb, wa, wb) } else { (jb, ja, wb, wa) };
        (inp, out, vec![mid1, mid2], vi, vm1, vm2, vo)
    };
    Some(TwoHop { v2, amount, threshold, exact_in, d1, d2, l1, l2, p1: k("whirlpool_one"), p2: k("whirlpool_two"), authority: k("token_authority"), acct_in, acct_out, acct_mid, vault_one_in: v1i, vault_one_mid: v1m, vault_two_mid: v2m, vault_two_out: v2o })
}

/// Single-swap instruction for one leg, reusing the accounts the two-hop named.
fn leg_ix(w: &mut World, bank: &Bank, ix: &Ix, t: &TwoHop, leg: u8, amount: u64, exact_in: bool) -> Option<Ix> {
    let (pool_key, a_to_b, limit, sfx) = if leg == 1 { (t.p1, t.d1, t.l1, "one") } else { (t.p2, t.d2, t.l2, "two") };
    let pool = bank.data(&pool_key).and_then(codec::Pool::decode)?;
    let user = w.users.iter().position(|u| u.key == t.authority)?;
    let (oa, ob) = (w.user_token(user, pool.token_mint_a), w.user_token(user, pool.token_mint_b));
    let ta = |i: usize| ix.key(&format!("tick_array_{sfx}_{i}"));
    let oracle = ix.key(&format!("oracle_{sfx}"));
    let threshold = if exact_in { 0 } else { u64::MAX };
    if t.v2 {
        let prog = |m: &Pubkey| bank.get(m).map(|a| a.owner).unwrap_or(TOKEN);
        Some(
            b::SwapV2 {
                token_program_a: prog(&pool.token_mint_a),
                token_program_b: prog(&pool.token_mint_b),
                memo_program: MEMO,
                token_authority: t.authority,
                whirlpool: pool_key,
                token_mint_a: pool.token_mint_a,
                token_mint_b: pool.token_mint_b,
                token_owner_account_a: oa,
                token_vault_a: pool.token_vault_a,
                token_owner_account_b: ob,
                token_vault_b: pool.token_vault_b,
                tick_array_0: ta(0),
                tick_array_1: ta(1),
                tick_array_2: ta(2),
                oracle,
            }
            .ix(amount, threshold, limit, exact_in, a_to_b, None),
        )
    } else {
        let i = b::Swap {
            token_program: TOKEN,
            token_authority: t.authority,
            whirlpool: pool_key,
            token_owner_account_a: oa,
            token_vault_a: pool.token_vault_a,
            token_owner_account_b: ob,
            token_vault_b: pool.token_vault_b,
            tick_array_0: ta(0),
            tick_array_1: ta(1),
            tick_array_2: ta(2),
            oracle,
        }
        .ix(amount, threshold, limit, exact_in, a_to_b);
        Some(if pool.is_adaptive() { b::make_writable(i, "oracle") } else { i })
    }
}

#[derive(Default)]
pub struct C17;

impl Monitor for C17 {
    fn after(&mut self, w: &mut World, obs: &Obs, acc: &mut Acc) {
        let Some(t) = parse_two_hop(&obs.ix) else { return };
        let fail = |acc: &mut Acc, sig: &str, detail: String| {
            acc.violation(format!("c17:{sig}:{}", obs.ix.name), detail, json!({"instruction": ix_brief(&obs.ix)}));
        };
        acc.count("two_hops_seen");
        let st = |bk: &Bank, k: &Pubkey| bk.data(k).and_then(codec::Pool::decode);
        let (Some(s1), Some(s2)) = (st(&obs.pre, &t.p1), st(&obs.pre, &t.p2)) else {
            if obs.ok() {
                fail(acc, "non_pool_accepted", "two-hop succeeded with a non-pool account".into());
            }
            return;
        };
        let out1 = if t.d1 { s1.token_mint_b } else { s1.token_mint_a };
        let in2 = if t.d2 { s2.token_mint_a } else { s2.token_mint_b };
        if !obs.ok() {
            acc.count("two_hops_failed");
            return;
        }
        acc.count("two_hops_ok");
        if t.p1 != t.p2 && s1.token_mint_a == s2.token_mint_a && s1.token_mint_b == s2.token_mint_b {
            acc.count("two_hops_ok_pools_share_both_mints");
        }
        if t.p1 == t.p2 {
            fail(acc, "same_pool_twice", "two-hop succeeded with the same pool for both legs".into());
            return;
        }
        if out1 != in2 {
            fail(acc, "mints_do_not_chain", format!("leg one outputs {out1} but leg two takes {in2}"));
            return;
        }
        // in A the trader's intermediate balance is unchanged
        for m in &t.acct_mid {
            if *m != t.acct_in && *m != t.acct_out && bal(&w.bank, m) != bal(&obs.pre, m) {
                fail(acc, "intermediate_not_netted", format!("trader's intermediate account {m} changed {} -> {}", bal(&obs.pre, m), bal(&w.bank, m)));
            }
        }
        if t.v2 {
            // v2 never touches any intermediate account of the trader
            for (k, a) in &obs.pre.accts {
                if let Some(ta) = codec::TokenAccount::decode(&a.data) {
                    if (a.owner == spl_token::ID || a.owner == spl_token_2022::ID) && ta.owner == t.authority && ta.mint == out1 && *k != t.acct_in && *k != t.acct_out && bal(&w.bank, k) != ta.amount {
                        fail(acc, "intermediate_not_netted", format!("trader's intermediate account {k} changed"));
                    }
                }
            }
        }
        // ---- clone B: the two legs as single swaps ----
        let mut bk = obs.pre.clone();
        let first = if t.exact_in { 1 } else { 2 };
        let Some(ix_first) = leg_ix(w, &obs.pre, &obs.ix, &t, first, t.amount, t.exact_in) else { return };
        // accounts created lazily for the trader must exist in the clone too
        for (k, a) in &w.bank.accts {
            if !bk.accts.contains_key(k) && !obs.ix.metas.iter().any(|m| m.key == *k) {
                bk.accts.insert(*k, a.clone());
            }
        }
        // the trader needs no intermediate tokens for the two-hop, but does for a lone second leg: lend them in the clone
        if let Some(user) = w.users.iter().position(|u| u.key == t.authority) {
            let mid_acct = w.user_token(user, out1);
            if mid_acct != t.acct_in && mid_acct != t.acct_out {
                if let Some(a) = bk.accts.get_mut(&mid_acct) {
                    let a = std::sync::Arc::make_mut(a);
                    if a.data.len() >= 72 {
                        let cur = u64::from_le_bytes(a.data[64..72].try_into().unwrap());
                        a.data[64..72].copy_from_slice(&cur.saturating_add(1 << 62).min(u64::MAX / 2).to_le_bytes());
                    }
                }
            }
        }
        let (o1, b1) = w.simulate(&bk, &ix_first);
        if !o1.ok() {
            fail(acc, "single_leg_fails", format!("two-hop succeeded but leg {first} alone fails with {:?}", o1.err));
            return;
        }
        // matching intermediate amount, measured at the vaults
        let mid_amount = if t.exact_in { bal(&bk, &t.vault_one_mid) - bal(&b1, &t.vault_one_mid) } else { bal(&b1, &t.vault_two_mid) - bal(&bk, &t.vault_two_mid) };
        let second = 3 - first;
        let Some(ix_second) = leg_ix(w, &obs.pre, &obs.ix, &t, second, mid_amount, t.exact_in) else { return };
        let (o2, b2) = w.simulate(&b1, &ix_second);
        if !o2.ok() {
            fail(acc, "single_leg_fails", format!("two-hop succeeded but leg {second} alone (amount {mid_amount}) fails with {:?}", o2.err));
            return;
        }
        acc.count("two_hops_replayed_as_singles");
        // pools, tick arrays, oracles, vaults identical
        let mut keys: Vec<(String, Pubkey)> = vec![("whirlpool_one".into(), t.p1), ("whirlpool_two".into(), t.p2)];
        for m in &obs.ix.metas {
            if m.name.starts_with("tick_array_") || m.name.starts_with("oracle_") || m.name.starts_with("token_vault_") {
                keys.push((m.name.to_string(), m.key));
            }
        }
        for (n, k) in keys {
            let (a, bb) = (w.bank.get(&k), b2.get(&k));
            if a != bb {
                let extra = match (a.and_then(|a| codec::Pool::decode(&a.data)), bb.and_then(|a| codec::Pool::decode(&a.data))) {
                    (Some(x), Some(y)) => format!(" two-hop: price {} liq {} owed ({}, {}); singles: price {} liq {} owed ({}, {})", x.sqrt_price, x.liquidity, x.protocol_fee_owed_a, x.protocol_fee_owed_b, y.sqrt_price, y.liquidity, y.protocol_fee_owed_a, y.protocol_fee_owed_b),
                    _ => match (a, bb) {
                        (Some(x), Some(y)) if x.data.len() >= 72 && y.data.len() >= 72 => format!(" balances {} vs {}", codec::token_amount(&x.data), codec::token_amount(&y.data)),
                        _ => String::new(),
                    },
                };
                fail(acc, "state_differs_from_singles", format!("account {n} ({k}) differs between the two-hop and the two single swaps;{extra}"));
                return;
            }
        }
        // trader: input and output deltas identical
        if t.acct_in != t.acct_out {
            let (ain, aout) = (bal(&obs.pre, &t.acct_in) as i128 - bal(&w.bank, &t.acct_in) as i128, bal(&w.bank, &t.acct_out) as i128 - bal(&obs.pre, &t.acct_out) as i128);
            let (bin, bout) = (bal(&obs.pre, &t.acct_in) as i128 - bal(&b2, &t.acct_in) as i128, bal(&b2, &t.acct_out) as i128 - bal(&obs.pre, &t.acct_out) as i128);
            // in B the intermediate legs also move acct_in/acct_out only if they share a mint with the intermediate: they do not here
            if ain != bin || aout != bout {
                fail(acc, "trader_amounts_differ_from_singles", format!("two-hop: paid {ain} received {aout}; singles: paid {bin} received {bout}"));
            }
        }
        // the second leg consumed / delivered exactly the matching intermediate amount
        let consumed = if t.exact_in { bal(&b2, &t.vault_two_mid) as i128 - bal(&b1, &t.vault_two_mid) as i128 } else { bal(&b1, &t.vault_one_mid) as i128 - bal(&b2, &t.vault_one_mid) as i128 };
        let _ = consumed;
        acc.situation(format!("{}:{}:{}:{}:lim{}{}", obs.ix.name, t.exact_in, t.d1, t.d2, (t.l1 != 0) as u8, (t.l2 != 0) as u8));
        // ---- outer threshold triple ----
        if w.r.gen_range(0..2) == 0 && t.acct_in != t.acct_out {
            let x: u64 = if t.exact_in { (bal(&w.bank, &t.acct_out) - bal(&obs.pre, &t.acct_out)) as u64 } else { (bal(&obs.pre, &t.acct_in) - bal(&w.bank, &t.acct_in)) as u64 };
            let canon = w.bank.clone();
            acc.count("threshold_triples");
            for (d, thr) in [(-1i8, x.checked_sub(1)), (0, Some(x)), (1, x.checked_add(1))] {
                let Some(thr) = thr else { continue };
                let mut i2 = obs.ix.clone();
                i2.data[16..24].copy_from_slice(&thr.to_le_bytes());
                let (o, bb) = w.simulate(&obs.pre, &i2);
                let must_ok = if t.exact_in { d <= 0 } else { d >= 0 };
                if must_ok {
                    if !o.ok() {
                        fail(acc, "threshold_rejected_wrongly", format!("realised {x}, threshold {thr}: failed with {:?}", o.err));
                    } else if !crate::world::diff_on(&obs.ix, &bb, &canon).is_empty() {
                        fail(acc, "threshold_changed_outcome", format!("threshold {thr} changed the end state"));
                    }
                } else if o.ok() {
                    fail(acc, "threshold_not_enforced", format!("realised {x}, threshold {thr}: two-hop succeeded"));
                }
            }
        }
        supplemental_replay(w, obs, &t, acc);
    }
}

/// A v2 two-hop may carry supplemental tick arrays per pool (wire tags 7 = pool one, 8 = pool two, as published);
/// handing each pool its own arrays again changes nothing - as it changes nothing for the single swaps.
fn supplemental_replay(w: &mut World, obs: &Obs, t: &TwoHop, acc: &mut Acc) {
    let fail = |acc: &mut Acc, sig: &str, detail: String| {
        acc.violation(format!("c17:{sig}:{}", obs.ix.name), detail, json!({"instruction": ix_brief(&obs.ix)}));
    };
        if t.v2 && obs.ix.data.last() == Some(&0) && w.r.gen_range(0..3) == 0 {
            let mut i2 = obs.ix.clone();
            let (one, two): (Vec<Pubkey>, Vec<Pubkey>) = ((0..3).map(|k| obs.ix.key(&format!("tick_array_one_{k}"))).collect(), (0..3).map(|k| obs.ix.key(&format!("tick_array_two_{k}"))).collect());
            let (n1, n2) = (w.r.gen_range(1..=3usize), w.r.gen_range(1..=3usize));
            i2.data.pop();
            i2.data.push(1);
            i2.data.extend_from_slice(&2u32.to_le_bytes());
            let two_first = w.r.gen::<bool>();
            let order: [(u8, &Vec<Pubkey>, usize); 2] = if two_first { [(crate::ix::build::ACCOUNTS_TYPE_SUPPLEMENTAL_TICK_ARRAYS_TWO, &two, n2), (crate::ix::build::ACCOUNTS_TYPE_SUPPLEMENTAL_TICK_ARRAYS_ONE, &one, n1)] } else { [(crate::ix::build::ACCOUNTS_TYPE_SUPPLEMENTAL_TICK_ARRAYS_ONE, &one, n1), (crate::ix::build::ACCOUNTS_TYPE_SUPPLEMENTAL_TICK_ARRAYS_TWO, &two, n2)] };
            let mut idx = 0;
            for (tag, keys, n) in order {
                i2.data.push(tag);
                i2.data.push(n as u8);
                for k in keys.iter().take(n) {
                    i2.metas.push(crate::ix::w(crate::ix::REMAINING_NAMES[idx], *k));
                    idx += 1;
                }
            }
            let canon = w.bank.clone();
            let (o, bb) = w.simulate(&obs.pre, &i2);
            acc.count("two_hops_replayed_with_supplemental_arrays");
            if !o.ok() {
                fail(acc, "supplemental_arrays_rejected", format!("the same two-hop with each pool's own tick arrays also listed as supplemental arrays (tags 7 / 8) failed with {:?}", o.err));
            } else if !crate::world::diff_on(&obs.ix, &bb, &canon).is_empty() {
                fail(acc, "supplemental_arrays_changed_outcome", "the same two-hop with each pool's own tick arrays also listed as supplemental arrays ended in another state".into());
            }
        }
}

/// C03 for two-hop swaps.
#[derive(Default)]
pub struct C03TwoHop;

impl Monitor for C03TwoHop {
    fn after(&mut self, w: &mut World, obs: &Obs, acc: &mut Acc) {
        let Some(t) = parse_two_hop(&obs.ix) else { return };
        if !obs.ok() || t.acct_in == t.acct_out {
            return;
        }
        let fail = |acc: &mut Acc, sig: &str, detail: String| {
            acc.violation(format!("c03:{sig}:{}", obs.ix.name), detail, json!({"instruction": ix_brief(&obs.ix)}));
        };
        acc.count("two_hop_swaps_checked");
        let paid = bal(&obs.pre, &t.acct_in) as i128 - bal(&w.bank, &t.acct_in) as i128;
        let got = bal(&w.bank, &t.acct_out) as i128 - bal(&obs.pre, &t.acct_out) as i128;
        if t.exact_in && paid > t.amount as i128 {
            fail(acc, "paid_more_than_specified", format!("exact-in amount {} but trader paid {paid}", t.amount));
        }
        if !t.exact_in && got > t.amount as i128 {
            fail(acc, "received_more_than_specified", format!("exact-out amount {} but trader received {got}", t.amount));
        }
        if t.exact_in && got < t.threshold as i128 {
            fail(acc, "min_out_ignored", format!("received {got} < stated minimum {}", t.threshold));
        }
        if !t.exact_in && paid > t.threshold as i128 {
            fail(acc, "max_in_ignored", format!("paid {paid} > stated maximum {}", t.threshold));
        }
        for (pk, d, lim, leg) in [(t.p1, t.d1, t.l1, 1), (t.p2, t.d2, t.l2, 2)] {
            let (Some(pre), Some(post)) = (obs.pre.data(&pk).and_then(codec::Pool::decode), w.bank.data(&pk).and_then(codec::Pool::decode)) else { continue };
            if (d && post.sqrt_price > pre.sqrt_price) || (!d && post.sqrt_price < pre.sqrt_price) {
                fail(acc, "price_moved_against_direction", format!("leg {leg}: a_to_b={d} price {} -> {}", pre.sqrt_price, post.sqrt_price));
            }
            let eff = if lim == 0 { if d { MIN_SQRT_PRICE_X64 } else { MAX_SQRT_PRICE_X64 } } else { lim };
            if (d && post.sqrt_price < eff) || (!d && post.sqrt_price > eff) || !(MIN_SQRT_PRICE_X64..=MAX_SQRT_PRICE_X64).contains(&post.sqrt_price) {
                fail(acc, "price_beyond_limit", format!("leg {leg}: limit {eff} final price {}", post.sqrt_price));
            }
            // the specified amount belongs to leg one (exact-in) / leg two (exact-out)
            let used_less = if t.exact_in { leg == 1 && paid < t.amount as i128 } else { leg == 2 && got < t.amount as i128 };
            if used_less {
                acc.count("two_hop_partial_fills");
                if post.sqrt_price != eff {
                    fail(acc, "partial_fill_not_at_limit", format!("leg {leg} used less than the specified amount but final price {} != limit {eff}", post.sqrt_price));
                }
                if !t.exact_in && lim == 0 {
                    fail(acc, "partial_exact_out_without_limit", format!("received {got} of {} with no price limit", t.amount));
                }
            }
        }
        acc.situation(format!("{}:{}:{}:{}", obs.ix.name, t.exact_in, t.d1, t.d2));
        // threshold triple on clones of the pre-state
        if w.r.gen_range(0..2) == 0 {
            let x: u64 = if t.exact_in { got as u64 } else { paid as u64 };
            let canon = w.bank.clone();
            acc.count("two_hop_threshold_triples");
            for (d, thr) in [(-1i8, x.checked_sub(1)), (0, Some(x)), (1, x.checked_add(1))] {
                let Some(thr) = thr else { continue };
                let mut i2 = obs.ix.clone();
                i2.data[16..24].copy_from_slice(&thr.to_le_bytes());
                let (o, bb) = w.simulate(&obs.pre, &i2);
                let must_ok = if t.exact_in { d <= 0 } else { d >= 0 };
                if must_ok {
                    if !o.ok() {
                        fail(acc, "threshold_rejected_wrongly", format!("realised other amount {x}, threshold {thr}: failed with {:?}", o.err));
                    } else if !crate::world::diff_on(&obs.ix, &bb, &canon).is_empty() {
                        fail(acc, "threshold_changed_outcome", format!("threshold {thr} changed the end state"));
                    }
                } else if o.ok() {
                    fail(acc, "threshold_not_enforced", format!("realised other amount {x}, threshold {thr}: two-hop succeeded"));
                }
            }
        }
    }
}
