//! Swap observers: C06 (fee split / conservation / event) and C03 (amount, limit, slippage bounds).
use super::{bucket, swaps_of};
use crate::codec::{self, event_disc, Rd, MAX_SQRT_PRICE_X64, MIN_SQRT_PRICE_X64};
use crate::hist::{ec, ix_brief, Monitor};
use crate::ix::Ix;
use crate::model::*;
use crate::report::Acc;
use crate::svm::Bank;
use crate::world::{Obs, World};
use num_bigint::BigUint;
use num_traits::ToPrimitive;
use rand::Rng;
use serde_json::json;
use solana_program::pubkey::Pubkey;
use whirlpool::errors::ErrorCode as E;

#[derive(Clone, Debug)]
pub struct SwapCall {
    pub v2: bool,
    pub amount: u64,
    pub threshold: u64,
    pub limit: u128,
    pub exact_in: bool,
    pub a_to_b: bool,
    pub pool: Pubkey,
    pub owner_a: Pubkey,
    pub owner_b: Pubkey,
    pub vault_a: Pubkey,
    pub vault_b: Pubkey,
    pub authority: Pubkey,
}

pub fn parse_swap(ix: &Ix) -> Option<SwapCall> {
    if ix.name != "swap" && ix.name != "swap_v2" {
        return None;
    }
    let mut r = Rd::new(&ix.data, 8);
    Some(SwapCall {
        v2: ix.name == "swap_v2",
        amount: r.u64(),
        threshold: r.u64(),
        limit: r.u128(),
        exact_in: r.bool(),
        a_to_b: r.bool(),
        pool: ix.key("whirlpool"),
        owner_a: ix.key("token_owner_account_a"),
        owner_b: ix.key("token_owner_account_b"),
        vault_a: ix.key("token_vault_a"),
        vault_b: ix.key("token_vault_b"),
        authority: ix.key("token_authority"),
    })
}

pub fn bal(b: &Bank, k: &Pubkey) -> u64 {
    b.data(k).map(codec::token_amount).unwrap_or(0)
}

#[derive(Clone, Debug, Default)]
pub struct Traded {
    pub whirlpool: Pubkey,
    pub a_to_b: bool,
    pub pre_sqrt_price: u128,
    pub post_sqrt_price: u128,
    pub input_amount: u64,
    pub output_amount: u64,
    pub input_transfer_fee: u64,
    pub output_transfer_fee: u64,
    pub lp_fee: u64,
    pub protocol_fee: u64,
}
pub fn traded_events(events: &[Vec<u8>]) -> Vec<Traded> {
    let d = event_disc("Traded");
    events
        .iter()
        .filter(|e| e.len() == 8 + 32 + 1 + 32 + 48 && e[..8] == d)
        .map(|e| {
            let mut r = Rd::new(e, 8);
            Traded {
                whirlpool: r.pk(),
                a_to_b: r.bool(),
                pre_sqrt_price: r.u128(),
                post_sqrt_price: r.u128(),
                input_amount: r.u64(),
                output_amount: r.u64(),
                input_transfer_fee: r.u64(),
                output_transfer_fee: r.u64(),
                lp_fee: r.u64(),
                protocol_fee: r.u64(),
            }
        })
        .collect()
}

/// Is this pool over two plain (fee-less) mints? (C06 conservation is stated for those; C16 covers the rest.)
pub fn plain_pool(bank: &Bank, pool: &codec::Pool) -> bool {
    let plain = |m: &Pubkey| bank.get(m).map(|a| a.owner == spl_token::ID || a.data.len() == 82).unwrap_or(false);
    plain(&pool.token_mint_a) && plain(&pool.token_mint_b)
}

// =====================================================================================
// C06
// =====================================================================================
#[derive(Default)]
pub struct C06;

impl Monitor for C06 {
    fn after(&mut self, w: &mut World, obs: &Obs, acc: &mut Acc) {
        if !obs.ok() {
            return;
        }
        let fail = |acc: &mut Acc, sig: &str, detail: String| {
            acc.violation(format!("c06:{sig}:{}", obs.ix.name), detail, json!({"instruction": ix_brief(&obs.ix)}));
        };
        if obs.ix.name == "collect_protocol_fees" || obs.ix.name == "collect_protocol_fees_v2" {
            let pk = obs.ix.key("whirlpool");
            let (Some(pre), Some(post)) = (obs.pre.data(&pk).and_then(codec::Pool::decode), w.bank.data(&pk).and_then(codec::Pool::decode)) else { return };
            if !plain_pool(&w.bank, &pre) {
                return;
            }
            let (va, vb) = (obs.ix.key("token_vault_a"), obs.ix.key("token_vault_b"));
            let (da, db) = (obs.ix.key("token_destination_a"), obs.ix.key("token_destination_b"));
            acc.count("protocol_fee_collections");
            if pre.protocol_fee_owed_a > 0 || pre.protocol_fee_owed_b > 0 {
                acc.count("protocol_fee_collections_nonzero");
            }
            let paid_a = bal(&w.bank, &da) as i128 - bal(&obs.pre, &da) as i128;
            let paid_b = bal(&w.bank, &db) as i128 - bal(&obs.pre, &db) as i128;
            let out_a = bal(&obs.pre, &va) as i128 - bal(&w.bank, &va) as i128;
            let out_b = bal(&obs.pre, &vb) as i128 - bal(&w.bank, &vb) as i128;
            if paid_a != pre.protocol_fee_owed_a as i128 || paid_b != pre.protocol_fee_owed_b as i128 || out_a != paid_a || out_b != paid_b {
                fail(acc, "protocol_fee_payout", format!("owed ({}, {}) but destination received ({paid_a}, {paid_b}) and vaults paid ({out_a}, {out_b})", pre.protocol_fee_owed_a, pre.protocol_fee_owed_b));
            }
            if post.protocol_fee_owed_a != 0 || post.protocol_fee_owed_b != 0 {
                fail(acc, "protocol_fee_not_reset", format!("owed after collection ({}, {})", post.protocol_fee_owed_a, post.protocol_fee_owed_b));
            }
            acc.situation(format!("cpf:{}:{}", (pre.protocol_fee_owed_a > 0) as u8, (pre.protocol_fee_owed_b > 0) as u8));
            return;
        }
        if let Some(t) = super::twohop::parse_two_hop(&obs.ix) {
            two_hop_legs(w, obs, &t, acc);
            return;
        }
        let Some(c) = parse_swap(&obs.ix) else { return };
        let (Some(pre), Some(post)) = (obs.pre.data(&c.pool).and_then(codec::Pool::decode), w.bank.data(&c.pool).and_then(codec::Pool::decode)) else { return };
        // pools over fee-bearing Token-2022 mints: the split of the curve input and the pool's bookkeeping are judged the
        // same way; what the trader hands over additionally carries the token program's fee (the details are C16's)
        let fee_pool = !plain_pool(&w.bank, &pre);
        if fee_pool {
            acc.count("swaps_checked_on_transfer_fee_pools");
        }
        let sw = swaps_of(&obs.out);
        if sw.len() != 1 {
            fail(acc, "hook_missing", format!("{} swap computations recorded for one swap instruction", sw.len()));
            return;
        }
        let (begin, steps) = &sw[0];
        acc.count("swaps_checked");
        if steps.len() > 1 {
            acc.count("multi_step_swaps");
        }
        let adaptive = pre.is_adaptive();
        // --- per step ---
        let mut sum_in = BigUint::default();
        let mut sum_out = BigUint::default();
        let mut sum_fee = BigUint::default();
        let mut sum_cut: u128 = 0;
        let mut growth: u128 = 0;
        let mut zero_liq_steps = 0;
        for (k, s) in steps.iter().enumerate() {
            if !adaptive && s.total_fee_rate != pre.fee_rate as u32 {
                fail(acc, "step_rate", format!("step {k}: rate {} on a static pool with fee_rate {}", s.total_fee_rate, pre.fee_rate));
            }
            let reached = s.next_price == s.bounded_sqrt_price_target;
            let expect_fee: BigUint = if begin.exact_in && !reached {
                BigUint::from(s.amount_remaining_before.wrapping_sub(s.amount_in))
            } else {
                fee_on_input(s.amount_in, s.total_fee_rate)
            };
            if BigUint::from(s.fee_amount) != expect_fee {
                fail(acc, "step_fee", format!("step {k}: fee {} != expected {expect_fee} (in {}, rate {}, remaining {}, reached_target {reached})", s.fee_amount, s.amount_in, s.total_fee_rate, s.amount_remaining_before));
            }
            let cut = (s.fee_amount as u128) * (pre.protocol_fee_rate as u128) / 10_000;
            if pre.protocol_fee_rate > 2_500 || pre.fee_rate > 60_000 {
                fail(acc, "rates_out_of_bounds", format!("the swap ran on a pool with protocol fee rate {} (limit 2500) and fee rate {} (limit 60000): the protocol's share of a fee would be {cut} of {}", pre.protocol_fee_rate, pre.fee_rate, s.fee_amount));
                break;
            }
            sum_cut += cut;
            if s.liquidity > 0 {
                let lp = s.fee_amount as u128 - cut;
                growth = growth.wrapping_add((lp << 64) / s.liquidity);
            } else {
                zero_liq_steps += 1;
            }
            sum_in += s.amount_in;
            sum_out += s.amount_out;
            sum_fee += s.fee_amount;
        }
        if zero_liq_steps > 0 && steps.len() > zero_liq_steps {
            acc.count("swaps_over_zero_liquidity_gap");
        }
        // --- what left the trader, what entered the vault ---
        let (in_user, out_user, in_vault, out_vault) = if c.a_to_b { (c.owner_a, c.owner_b, c.vault_a, c.vault_b) } else { (c.owner_b, c.owner_a, c.vault_b, c.vault_a) };
        let paid = bal(&obs.pre, &in_user) as i128 - bal(&w.bank, &in_user) as i128;
        let got = bal(&w.bank, &out_user) as i128 - bal(&obs.pre, &out_user) as i128;
        let vin = bal(&w.bank, &in_vault) as i128 - bal(&obs.pre, &in_vault) as i128;
        let vout = bal(&obs.pre, &out_vault) as i128 - bal(&w.bank, &out_vault) as i128;
        let total_in = (&sum_in + &sum_fee).to_i128().unwrap();
        let total_out = sum_out.to_i128().unwrap();
        if in_user != out_user && !fee_pool {
            if paid != total_in || vin != total_in {
                fail(acc, "input_conservation", format!("sum(in+fee) over steps = {total_in}, trader paid {paid}, vault received {vin}"));
            }
            if got != total_out || vout != total_out {
                fail(acc, "output_conservation", format!("sum(out) over steps = {total_out}, trader received {got}, vault paid {vout}"));
            }
        } else if in_user != out_user {
            // exactly the curve amount plus fee reaches the vault (the trader pays the token program's fee on top: the
            // program asks for the amount whose fee-reduced value is what the curve consumed, and re-verifies it)
            if vin != total_in || paid < vin {
                fail(acc, "input_conservation", format!("sum(in+fee) over steps = {total_in} but the vault received {vin} (trader paid {paid}) on a transfer-fee pool"));
            }
            // unless the trader's own exact-in amount was used up entirely, what is taken from the trader is the SMALLEST
            // amount that leaves curve amount + fee after the token program's fee: one unit less would not have sufficed
            // (in particular nothing is taken for a swap that consumed nothing)
            let in_mint = if c.a_to_b { pre.token_mint_a } else { pre.token_mint_b };
            let chosen_by_trader = c.exact_in && paid == c.amount as i128;
            if !chosen_by_trader && paid > 0 && paid <= u64::MAX as i128 {
                let below = (paid - 1) as u64;
                let delivers = below as i128 - crate::checks::c16::mint_fee(&obs.pre, &in_mint, below) as i128;
                acc.count("fee_pool_requests_checked_for_minimality");
                if delivers >= total_in {
                    fail(acc, "trader_overcharged", format!("the swap consumed {total_in} (curve amount + fee) and the trader was charged {paid}, but {below} would already have delivered {delivers} after the token program's fee"));
                }
            }
            if vout != total_out || got > vout {
                fail(acc, "output_conservation", format!("sum(out) over steps = {total_out}, vault paid {vout}, trader received {got} on a transfer-fee pool"));
            }
        }
        // nothing else leaves the trader's accounts
        for (k, a) in &obs.pre.accts {
            if *k == in_user || *k == out_user || *k == in_vault || *k == out_vault {
                continue;
            }
            if a.owner == spl_token::ID || a.owner == spl_token_2022::ID {
                if let Some(t) = codec::TokenAccount::decode(&a.data) {
                    if t.owner == c.authority {
                        let now = bal(&w.bank, k);
                        if now != t.amount {
                            fail(acc, "other_account_touched", format!("token account {k} of the trader changed {} -> {now}", t.amount));
                        }
                    }
                }
            }
        }
        let lam_pre = obs.pre.get(&c.authority).map(|a| a.lamports).unwrap_or(0);
        let lam_post = w.bank.get(&c.authority).map(|a| a.lamports).unwrap_or(0);
        if lam_post < lam_pre {
            fail(acc, "lamports_taken", format!("trader lamports {lam_pre} -> {lam_post}"));
        }
        // --- pool bookkeeping ---
        let (owed_in_pre, owed_in_post, owed_out_pre, owed_out_post, g_in_pre, g_in_post, g_out_pre, g_out_post) = if c.a_to_b {
            (pre.protocol_fee_owed_a, post.protocol_fee_owed_a, pre.protocol_fee_owed_b, post.protocol_fee_owed_b, pre.fee_growth_global_a, post.fee_growth_global_a, pre.fee_growth_global_b, post.fee_growth_global_b)
        } else {
            (pre.protocol_fee_owed_b, post.protocol_fee_owed_b, pre.protocol_fee_owed_a, post.protocol_fee_owed_a, pre.fee_growth_global_b, post.fee_growth_global_b, pre.fee_growth_global_a, post.fee_growth_global_a)
        };
        if owed_in_post.wrapping_sub(owed_in_pre) as u128 != sum_cut & (u64::MAX as u128) {
            fail(acc, "protocol_share", format!("protocol fee owed grew by {} but sum of floor(fee*{}/10000) over steps = {sum_cut}", owed_in_post.wrapping_sub(owed_in_pre), pre.protocol_fee_rate));
        }
        if owed_out_post != owed_out_pre {
            fail(acc, "protocol_share_other_token", format!("protocol fee owed of the output token changed {owed_out_pre} -> {owed_out_post}"));
        }
        if g_in_post.wrapping_sub(g_in_pre) != growth {
            fail(acc, "lp_share", format!("fee growth of the input token advanced by {} but sum over steps of floor((fee - protocol share)*2^64/L) = {growth}", g_in_post.wrapping_sub(g_in_pre)));
        }
        if g_out_post != g_out_pre {
            fail(acc, "lp_share_other_token", format!("fee growth of the output token changed {g_out_pre} -> {g_out_post}"));
        }
        // --- trade record ---
        let ev = traded_events(&obs.out.events);
        if ev.len() != 1 {
            fail(acc, "event_missing", format!("{} Traded events", ev.len()));
        } else if fee_pool {
            // user-facing amounts of the record are C16's; the fee split it reports is judged here
            let e = &ev[0];
            let lp_total = sum_fee.to_u128().unwrap() - sum_cut;
            if e.lp_fee as u128 != lp_total || e.protocol_fee as u128 != sum_cut || e.pre_sqrt_price != pre.sqrt_price || e.post_sqrt_price != post.sqrt_price {
                fail(acc, "event_mismatch", format!("Traded {e:?} vs observed lp {lp_total} protocol {sum_cut} pre {} post {}", pre.sqrt_price, post.sqrt_price));
            }
            // ... and so are the amounts that moved and what the token program withheld on either side
            if in_user != out_user && (e.input_amount as i128 != paid || e.output_amount as i128 != vout || e.input_transfer_fee as i128 != paid - vin || e.output_transfer_fee as i128 != vout - got) {
                fail(acc, "event_mismatch", format!("Traded reports in {} (withheld {}) out {} (withheld {}); observed: trader paid {paid}, vault received {vin}, vault paid {vout}, trader received {got}", e.input_amount, e.input_transfer_fee, e.output_amount, e.output_transfer_fee));
            }
        } else {
            let e = &ev[0];
            let lp_total = sum_fee.to_u128().unwrap() - sum_cut;
            let ok = e.whirlpool == c.pool
                && e.a_to_b == c.a_to_b
                && e.pre_sqrt_price == pre.sqrt_price
                && e.post_sqrt_price == post.sqrt_price
                && e.input_amount as i128 == total_in
                && e.output_amount as i128 == total_out
                && e.input_transfer_fee == 0
                && e.output_transfer_fee == 0
                && e.lp_fee as u128 == lp_total
                && e.protocol_fee as u128 == sum_cut;
            if !ok {
                fail(acc, "event_mismatch", format!("Traded {e:?} vs observed in {total_in} out {total_out} lp {lp_total} protocol {sum_cut} pre {} post {}", pre.sqrt_price, post.sqrt_price));
            }
        }
        acc.situation(format!("{}:{}:{}:steps{}:pf{}:fr{}:ad{}", obs.ix.name, c.exact_in, c.a_to_b, bucket(steps.len()), pre.protocol_fee_rate, pre.fee_rate, adaptive));
    }
}

/// C06 for the two legs of a successful two-hop over plain mints: each pool books the protocol share and
/// the LP share of its own leg on its own input token, nothing on its output token, the vaults move by the
/// step sums, and each leg has its own trade record.
fn two_hop_legs(w: &mut World, obs: &Obs, t: &super::twohop::TwoHop, acc: &mut Acc) {
    let fail = |acc: &mut Acc, sig: &str, detail: String| {
        acc.violation(format!("c06:{sig}:{}", obs.ix.name), detail, json!({"instruction": ix_brief(&obs.ix)}));
    };
    if t.p1 == t.p2 {
        // one pool named for both legs (the program refuses it today). If such a two-hop ever goes through, the fees of
        // BOTH recorded computations must have been booked on that pool: protocol share and LP share per input token
        acc.count("two_hops_over_one_pool_that_succeeded");
        let (Some(pre), Some(post)) = (obs.pre.data(&t.p1).and_then(codec::Pool::decode), w.bank.data(&t.p1).and_then(codec::Pool::decode)) else { return };
        let (mut cut, mut growth) = ([0u128; 2], [0u128; 2]);
        for (begin, steps) in swaps_of(&obs.out) {
            let k = if begin.a_to_b { 0 } else { 1 };
            for s in steps.iter() {
                let c = (s.fee_amount as u128) * (pre.protocol_fee_rate as u128) / 10_000;
                cut[k] += c;
                if s.liquidity > 0 {
                    growth[k] = growth[k].wrapping_add(((s.fee_amount as u128 - c) << 64) / s.liquidity);
                }
            }
        }
        let got_cut = [post.protocol_fee_owed_a.wrapping_sub(pre.protocol_fee_owed_a) as u128, post.protocol_fee_owed_b.wrapping_sub(pre.protocol_fee_owed_b) as u128];
        let got_growth = [post.fee_growth_global_a.wrapping_sub(pre.fee_growth_global_a), post.fee_growth_global_b.wrapping_sub(pre.fee_growth_global_b)];
        if got_cut != cut || got_growth != growth {
            fail(acc, "one_pool_twice_fees_not_booked", format!("both legs ran on pool {}: the recorded steps give protocol shares {:?} and LP growth {:?} (token A, token B), the pool booked {:?} and {:?}", t.p1, cut, growth, got_cut, got_growth));
        }
        return;
    }
    let st = |bk: &Bank, k: &Pubkey| bk.data(k).and_then(codec::Pool::decode);
    let (Some(pre1), Some(post1), Some(pre2), Some(post2)) = (st(&obs.pre, &t.p1), st(&w.bank, &t.p1), st(&obs.pre, &t.p2), st(&w.bank, &t.p2)) else { return };
    if !plain_pool(&w.bank, &pre1) || !plain_pool(&w.bank, &pre2) {
        return;
    }
    let sw = swaps_of(&obs.out);
    if sw.len() != 2 {
        fail(acc, "hook_missing", format!("{} swap computations recorded for one two-hop instruction", sw.len()));
        return;
    }
    // exact-in computes leg one first, exact-out leg two first
    let (i1, i2) = if t.exact_in { (0, 1) } else { (1, 0) };
    let ev = traded_events(&obs.out.events);
    if ev.len() != 2 {
        fail(acc, "event_missing", format!("{} Traded events for a two-hop", ev.len()));
    }
    let mut totals = vec![];
    for (leg, pk, pre, post, d, idx) in [(1, t.p1, &pre1, &post1, t.d1, i1), (2, t.p2, &pre2, &post2, t.d2, i2)] {
        let (begin, steps) = &sw[idx];
        if begin.a_to_b != d || begin.sqrt_price != pre.sqrt_price || begin.liquidity != pre.liquidity {
            fail(acc, "hook_missing", format!("leg {leg}: recorded computation does not start from the pool's state"));
            return;
        }
        let adaptive = pre.is_adaptive();
        let (mut sum_in, mut sum_out, mut sum_fee, mut sum_cut, mut growth) = (0u128, 0u128, 0u128, 0u128, 0u128);
        for (k, s) in steps.iter().enumerate() {
            if !adaptive && s.total_fee_rate != pre.fee_rate as u32 {
                fail(acc, "step_rate", format!("leg {leg} step {k}: rate {} on a static pool with fee_rate {}", s.total_fee_rate, pre.fee_rate));
            }
            let reached = s.next_price == s.bounded_sqrt_price_target;
            let expect_fee: BigUint = if begin.exact_in && !reached { BigUint::from(s.amount_remaining_before.wrapping_sub(s.amount_in)) } else { fee_on_input(s.amount_in, s.total_fee_rate) };
            if BigUint::from(s.fee_amount) != expect_fee {
                fail(acc, "step_fee", format!("leg {leg} step {k}: fee {} != expected {expect_fee}", s.fee_amount));
            }
            let cut = (s.fee_amount as u128) * (pre.protocol_fee_rate as u128) / 10_000;
            sum_cut += cut;
            if s.liquidity > 0 {
                growth = growth.wrapping_add(((s.fee_amount as u128 - cut) << 64) / s.liquidity);
            }
            sum_in += s.amount_in as u128;
            sum_out += s.amount_out as u128;
            sum_fee += s.fee_amount as u128;
        }
        let (owed_in_pre, owed_in_post, owed_out_pre, owed_out_post, g_in_pre, g_in_post, g_out_pre, g_out_post) = if d {
            (pre.protocol_fee_owed_a, post.protocol_fee_owed_a, pre.protocol_fee_owed_b, post.protocol_fee_owed_b, pre.fee_growth_global_a, post.fee_growth_global_a, pre.fee_growth_global_b, post.fee_growth_global_b)
        } else {
            (pre.protocol_fee_owed_b, post.protocol_fee_owed_b, pre.protocol_fee_owed_a, post.protocol_fee_owed_a, pre.fee_growth_global_b, post.fee_growth_global_b, pre.fee_growth_global_a, post.fee_growth_global_a)
        };
        if owed_in_post.wrapping_sub(owed_in_pre) as u128 != sum_cut & (u64::MAX as u128) {
            fail(acc, "protocol_share", format!("leg {leg}: protocol fee owed on the input token grew by {} but sum of floor(fee*{}/10000) over steps = {sum_cut}", owed_in_post.wrapping_sub(owed_in_pre), pre.protocol_fee_rate));
        }
        if owed_out_post != owed_out_pre {
            fail(acc, "protocol_share_other_token", format!("leg {leg}: protocol fee owed of the output token changed {owed_out_pre} -> {owed_out_post}"));
        }
        if g_in_post.wrapping_sub(g_in_pre) != growth {
            fail(acc, "lp_share", format!("leg {leg}: fee growth of the input token advanced by {} but the steps give {growth}", g_in_post.wrapping_sub(g_in_pre)));
        }
        if g_out_post != g_out_pre {
            fail(acc, "lp_share_other_token", format!("leg {leg}: fee growth of the output token changed {g_out_pre} -> {g_out_post}"));
        }
        if let Some(e) = ev.iter().find(|e| e.whirlpool == pk) {
            let ok = e.a_to_b == d
                && e.pre_sqrt_price == pre.sqrt_price
                && e.post_sqrt_price == post.sqrt_price
                && e.input_amount as u128 == sum_in + sum_fee
                && e.output_amount as u128 == sum_out
                && e.input_transfer_fee == 0
                && e.output_transfer_fee == 0
                && e.lp_fee as u128 == sum_fee - sum_cut
                && e.protocol_fee as u128 == sum_cut;
            if !ok {
                fail(acc, "event_mismatch", format!("leg {leg}: Traded {e:?} vs observed in {} out {sum_out} lp {} protocol {sum_cut}", sum_in + sum_fee, sum_fee - sum_cut));
            }
        } else if ev.len() == 2 {
            fail(acc, "event_missing", format!("leg {leg}: no Traded event names pool {pk}"));
        }
        acc.count("two_hop_legs_checked");
        if steps.len() > 1 {
            acc.count("two_hop_legs_multi_step");
        }
        totals.push((sum_in + sum_fee, sum_out));
        acc.situation(format!("{}:leg{leg}:{}:{}:steps{}:pf{}", obs.ix.name, t.exact_in, d, bucket(steps.len()), pre.protocol_fee_rate));
    }
    // vaults and trader move by the step sums; the intermediate amount is the same on both sides
    let d = |k: &Pubkey| bal(&w.bank, k) as i128 - bal(&obs.pre, k) as i128;
    let ((in1, out1), (in2, out2)) = (totals[0], totals[1]);
    if out1 != in2 {
        fail(acc, "intermediate_mismatch", format!("leg one outputs {out1} but leg two takes {in2}"));
    }
    let mut expect: std::collections::BTreeMap<Pubkey, i128> = Default::default();
    *expect.entry(t.vault_one_in).or_default() += in1 as i128;
    *expect.entry(t.vault_one_mid).or_default() -= out1 as i128;
    *expect.entry(t.vault_two_mid).or_default() += in2 as i128;
    *expect.entry(t.vault_two_out).or_default() -= out2 as i128;
    for (k, e) in &expect {
        if d(k) != *e {
            fail(acc, "vault_conservation", format!("vault {k} moved by {} but the steps give {e}", d(k)));
        }
    }
    if t.acct_in != t.acct_out && (d(&t.acct_in) != -(in1 as i128) || d(&t.acct_out) != out2 as i128) {
        fail(acc, "trader_conservation", format!("trader paid {} received {} but the steps give {in1} / {out2}", -d(&t.acct_in), d(&t.acct_out)));
    }
}

// =====================================================================================
// C03
// =====================================================================================
pub struct C03 {
    /// 1 in `triple_every` successful swaps gets the threshold triple on clones
    pub triple_every: u32,
}
impl Default for C03 {
    fn default() -> Self {
        C03 { triple_every: 3 }
    }
}

pub fn with_threshold(ix: &Ix, thr: u64) -> Ix {
    let mut i = ix.clone();
    i.data[16..24].copy_from_slice(&thr.to_le_bytes());
    i
}

impl Monitor for C03 {
    fn after(&mut self, w: &mut World, obs: &Obs, acc: &mut Acc) {
        let Some(c) = parse_swap(&obs.ix) else { return };
        let Some(pre) = obs.pre.data(&c.pool).and_then(codec::Pool::decode) else { return };
        let fail = |acc: &mut Acc, sig: &str, detail: String| {
            acc.violation(format!("c03:{sig}:{}", obs.ix.name), detail, json!({"instruction": ix_brief(&obs.ix), "pre_sqrt_price": pre.sqrt_price.to_string()}));
        };
        if !obs.ok() {
            // a failed transaction leaves the bank untouched (self-check of the harness)
            if !w.bank.diff(&obs.pre).is_empty() {
                fail(acc, "failed_tx_changed_state", "bank changed by a failed swap".into());
            }
            acc.count("failed_swaps_seen");
            return;
        }
        let Some(post) = w.bank.data(&c.pool).and_then(codec::Pool::decode) else { return };
        acc.count("swaps_checked");
        let (in_user, out_user) = if c.a_to_b { (c.owner_a, c.owner_b) } else { (c.owner_b, c.owner_a) };
        if in_user == out_user {
            return;
        }
        let paid = bal(&obs.pre, &in_user) as i128 - bal(&w.bank, &in_user) as i128;
        let got = bal(&w.bank, &out_user) as i128 - bal(&obs.pre, &out_user) as i128;
        if paid < 0 || got < 0 {
            fail(acc, "wrong_direction_transfer", format!("trader paid {paid} received {got}"));
        }
        if c.exact_in && paid > c.amount as i128 {
            fail(acc, "paid_more_than_specified", format!("exact-in amount {} but trader paid {paid}", c.amount));
        }
        if !c.exact_in && got > c.amount as i128 {
            fail(acc, "received_more_than_specified", format!("exact-out amount {} but trader received {got}", c.amount));
        }
        // price movement
        if (c.a_to_b && post.sqrt_price > pre.sqrt_price) || (!c.a_to_b && post.sqrt_price < pre.sqrt_price) {
            fail(acc, "price_moved_against_direction", format!("a_to_b={} price {} -> {}", c.a_to_b, pre.sqrt_price, post.sqrt_price));
        }
        if !(MIN_SQRT_PRICE_X64..=MAX_SQRT_PRICE_X64).contains(&post.sqrt_price) {
            fail(acc, "price_out_of_bounds", format!("price {}", post.sqrt_price));
        }
        let eff_limit = if c.limit == 0 { if c.a_to_b { MIN_SQRT_PRICE_X64 } else { MAX_SQRT_PRICE_X64 } } else { c.limit };
        if (c.a_to_b && post.sqrt_price < eff_limit) || (!c.a_to_b && post.sqrt_price > eff_limit) {
            fail(acc, "price_beyond_limit", format!("limit {eff_limit} final price {}", post.sqrt_price));
        }
        let used_less = if c.exact_in { paid < c.amount as i128 } else { got < c.amount as i128 };
        if used_less {
            acc.count("partial_fills");
            if post.sqrt_price != eff_limit {
                fail(acc, "partial_fill_not_at_limit", format!("used {} of {} but final price {} != limit {eff_limit}", if c.exact_in { paid } else { got }, c.amount, post.sqrt_price));
            }
            if !c.exact_in && c.limit == 0 {
                fail(acc, "partial_exact_out_without_limit", format!("received {got} of {} with no price limit", c.amount));
            }
        }
        if post.sqrt_price == eff_limit && c.limit != 0 {
            acc.count("ended_at_explicit_limit");
        }
        // thresholds actually supplied
        if c.exact_in && got < c.threshold as i128 {
            fail(acc, "min_out_ignored", format!("received {got} < stated minimum {}", c.threshold));
        }
        if !c.exact_in && paid > c.threshold as i128 {
            fail(acc, "max_in_ignored", format!("paid {paid} > stated maximum {}", c.threshold));
        }
        acc.situation(format!("{}:{}:{}:lim{}:part{}:t22{}", obs.ix.name, c.exact_in, c.a_to_b, (c.limit != 0) as u8, used_less as u8, !plain_pool(&w.bank, &pre)));
        // --- threshold triple on clones ---
        if w.r.gen_range(0..self.triple_every) != 0 {
            return;
        }
        let x: u64 = if c.exact_in { got as u64 } else { paid as u64 };
        let probes: Vec<(i8, u64)> = [(-1i8, x.checked_sub(1)), (0, Some(x)), (1, x.checked_add(1))].into_iter().filter_map(|(d, v)| v.map(|v| (d, v))).collect();
        acc.count("threshold_triples");
        let canon = w.bank.clone();
        for (d, thr) in probes {
            let ixp = with_threshold(&obs.ix, thr);
            let (out, b2) = w.simulate(&obs.pre, &ixp);
            let must_succeed = if c.exact_in { d <= 0 } else { d >= 0 };
            acc.count("threshold_probes");
            if must_succeed {
                if !out.ok() {
                    fail(acc, "threshold_rejected_wrongly", format!("realised other amount {x}, threshold {thr}: failed with {:?}", out.err));
                } else if !crate::world::diff_on(&obs.ix, &b2, &canon).is_empty() {
                    fail(acc, "threshold_changed_outcome", format!("threshold {thr} (realised {x}) produced a different end state"));
                }
            } else {
                let want = if c.exact_in { ec(E::AmountOutBelowMinimum) } else { ec(E::AmountInAboveMaximum) };
                if out.ok() {
                    fail(acc, "threshold_not_enforced", format!("realised other amount {x}, threshold {thr}: swap succeeded"));
                } else if out.custom() != Some(want) {
                    // the statement only requires failure; the error kind is recorded, not judged
                    acc.count("threshold_failure_other_error");
                }
            }
        }
    }
}
