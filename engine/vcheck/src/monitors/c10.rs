//! C10 A swap crosses exactly the initialized ticks in its path, however packaged.
use super::swapmon::{parse_swap, SwapCall};
use super::swaps_of;
use crate::codec;
use crate::hist::{ix_brief, Monitor};
use crate::ix::build as b;
use crate::ix::{self, Ix};
use crate::report::Acc;
use crate::svm::{Acct, Bank, TxOutcome};
use crate::world::{array_start, Obs, World};
use rand::seq::SliceRandom;
use rand::Rng;
use serde_json::json;
use solana_program::pubkey::Pubkey;
use std::collections::{BTreeMap, BTreeSet};
use whirlpool::math::sqrt_price_from_tick_index;

pub struct C10 {
    pub sample_every: u32,
    /// per (pool, initialized tick): is the price above it (its net counted in) after the last crossing the
    /// monitor saw? A tick is crossed alternately downwards and upwards; entries are forgotten whenever
    /// something other than a single swap may have touched the tick.
    side_above: std::collections::BTreeMap<(Pubkey, i32), bool>,
}
impl Default for C10 {
    fn default() -> Self {
        C10 { sample_every: 2, side_above: Default::default() }
    }
}

/// Everything a swap may legitimately change, in a packaging-independent form.
#[derive(PartialEq, Eq, Debug, Clone)]
struct Fingerprint {
    pool: Vec<u8>,
    oracle: Option<Vec<u8>>,
    balances: Vec<(Pubkey, u64)>,
    /// abstract tick contents of every array of the pool: tick index -> tick
    ticks: BTreeMap<i32, codec::Tick>,
    events: Vec<Vec<u8>>,
}

fn abstract_ticks(bank: &Bank, pool: &Pubkey, spacing: u16) -> Result<BTreeMap<i32, codec::Tick>, String> {
    let mut m = BTreeMap::new();
    for (start, (k, r)) in World::scan_tick_arrays(bank, pool) {
        let ta = r.map_err(|e| format!("array {k}: {e}"))?;
        for (i, t) in ta.ticks.iter().enumerate() {
            if t.initialized {
                m.insert(start + i as i32 * spacing as i32, *t);
            }
        }
    }
    Ok(m)
}

fn fingerprint(bank: &Bank, c: &SwapCall, ix: &Ix, out: &TxOutcome, spacing: u16) -> Result<Fingerprint, String> {
    let oracle_key = ix.key("oracle");
    Ok(Fingerprint {
        pool: bank.data(&c.pool).unwrap_or(&[]).to_vec(),
        oracle: bank.data(&oracle_key).map(|d| d.to_vec()),
        balances: [c.owner_a, c.owner_b, c.vault_a, c.vault_b].iter().map(|k| (*k, bank.data(k).map(codec::token_amount).unwrap_or(0))).collect(),
        ticks: abstract_ticks(bank, &c.pool, spacing)?,
        events: out.events.clone(),
    })
}

/// swap_v2 with supplemental tick arrays appended as remaining accounts.
pub fn with_supplemental(ix: &Ix, extra: &[Pubkey]) -> Ix {
    let mut i = ix.clone();
    if extra.is_empty() || i.data.last() != Some(&0) {
        return i; // nothing to add, or the instruction already carries remaining-accounts information
    }
    // the last byte of the data is the `None` of Option<RemainingAccountsInfo>
    assert_eq!(i.data.pop(), Some(0));
    i.data.push(1);
    i.data.extend_from_slice(&1u32.to_le_bytes());
    i.data.push(b::ACCOUNTS_TYPE_SUPPLEMENTAL_TICK_ARRAYS);
    i.data.push(extra.len() as u8);
    for (n, k) in extra.iter().enumerate() {
        i.metas.push(ix::w(ix::REMAINING_NAMES[n], *k));
    }
    i
}

fn set_arrays(ix: &Ix, a: [Pubkey; 3]) -> Ix {
    ix.clone().with_key("tick_array_0", a[0]).with_key("tick_array_1", a[1]).with_key("tick_array_2", a[2])
}

/// Oracle 1. Returns (crossed, expected, Option<violation>).
fn traversal(pre_ticks: &BTreeMap<i32, codec::Tick>, pre: &codec::Pool, post: &codec::Pool, steps: &[whirlpool::verif::StepRecord], a_to_b: bool) -> (Vec<i32>, Option<(&'static str, String)>) {
    let crossed: Vec<i32> = steps.iter().filter_map(|s| s.crossed.and_then(|(t, init, _)| init.then_some(t))).collect();
    let expected: Vec<i32> = if a_to_b {
        pre_ticks.keys().rev().copied().filter(|t| *t <= pre.tick_current_index && sqrt_price_from_tick_index(*t) >= post.sqrt_price).collect()
    } else {
        pre_ticks.keys().copied().filter(|t| *t > pre.tick_current_index && sqrt_price_from_tick_index(*t) <= post.sqrt_price).collect()
    };
    if crossed != expected {
        return (crossed.clone(), Some(("traversal", format!("initialized ticks crossed {:?} but the initialized ticks between start price {} (tick {}) and end price {} are {:?}", crossed, pre.sqrt_price, pre.tick_current_index, post.sqrt_price, expected))));
    }
    let mut liq = pre.liquidity as i128;
    for t in &expected {
        let n = pre_ticks[t].liquidity_net;
        liq += if a_to_b { -n } else { n };
    }
    if liq != post.liquidity as i128 {
        return (crossed, Some(("liquidity_after_crossings", format!("pool liquidity {} -> {} but applying the nets of {:?} gives {liq}", pre.liquidity, post.liquidity, expected))));
    }
    (crossed, None)
}

impl Monitor for C10 {
    fn after(&mut self, w: &mut World, obs: &Obs, acc: &mut Acc) {
        if obs.ok() && parse_swap(&obs.ix).is_none() {
            // anything but a single swap: forget what it may have touched
            let name = obs.ix.name;
            if name.starts_with("two_hop") {
                let (p1, p2) = (obs.ix.key("whirlpool_one"), obs.ix.key("whirlpool_two"));
                self.side_above.retain(|(p, _), _| *p != p1 && *p != p2);
            } else if name.contains("liquidity") || name.contains("position") {
                let pool = obs.ix.metas.iter().find(|m| m.name == "whirlpool").map(|m| m.key);
                let pos = obs.ix.metas.iter().find(|m| m.name == "position").map(|m| m.key);
                if let (Some(pool), Some(pos)) = (pool, pos) {
                    for bk in [&obs.pre, &w.bank] {
                        if let Some(p) = bk.data(&pos).and_then(codec::Position::decode) {
                            self.side_above.remove(&(pool, p.tick_lower_index));
                            self.side_above.remove(&(pool, p.tick_upper_index));
                        }
                    }
                }
            }
        }
        let Some(c) = parse_swap(&obs.ix) else { return };
        if !obs.ok() {
            return;
        }
        let Some(pre) = obs.pre.data(&c.pool).and_then(codec::Pool::decode) else { return };
        let Some(post) = w.bank.data(&c.pool).and_then(codec::Pool::decode) else { return };
        let sp = pre.tick_spacing;
        let fail = |acc: &mut Acc, sig: &str, detail: String| {
            acc.violation(format!("c10:{sig}:{}", obs.ix.name), detail, json!({"instruction": ix_brief(&obs.ix), "tick_current_before": pre.tick_current_index, "sqrt_price_before": pre.sqrt_price.to_string()}));
        };
        // ------------------------------------------------------------ oracle 1: reference traversal
        let pre_ticks = match abstract_ticks(&obs.pre, &c.pool, sp) {
            Ok(t) => t,
            Err(e) => {
                fail(acc, "malformed_array", e);
                return;
            }
        };
        let sw = swaps_of(&obs.out);
        if sw.len() != 1 {
            return;
        }
        let steps = &sw[0].1;
        let (crossed, v) = traversal(&pre_ticks, &pre, &post, steps, c.a_to_b);
        acc.count("traversals_checked");
        acc.add("initialized_ticks_crossed", crossed.len() as u64);
        if let Some((sig, d)) = v {
            fail(acc, sig, d);
        }
        // history level: the same initialized tick is never crossed twice in the same direction without a
        // crossing the other way in between
        for t in &crossed {
            let above_after = !c.a_to_b;
            if let Some(above) = self.side_above.insert((c.pool, *t), above_after) {
                acc.count("recrossings_checked");
                if above == above_after {
                    fail(acc, "tick_crossed_twice_in_one_direction", format!("initialized tick {t} is crossed {} although the previous crossing of this tick went the same way", if c.a_to_b { "downwards" } else { "upwards" }));
                }
            }
        }
        // placement coverage
        let tia = 88 * sp as i32;
        for t in &crossed {
            let off = (t - array_start(*t, sp)) / sp as i32;
            if off == 0 {
                acc.count("crossed_first_slot");
            }
            if off == 87 {
                acc.count("crossed_last_slot");
            }
        }
        let visited: BTreeSet<i32> = steps.iter().map(|s| array_start(s.next_tick_index.clamp(codec::MIN_TICK_INDEX, codec::MAX_TICK_INDEX), sp)).collect();
        if visited.len() > 1 {
            acc.count("array_handovers");
        }
        let shifted_start = sqrt_price_from_tick_index((pre.tick_current_index + 1).min(codec::MAX_TICK_INDEX)) == pre.sqrt_price;
        if shifted_start {
            acc.count("shifted_start_state");
        }
        let _ = tia;
        // ------------------------------------------------------------ oracle 2: packaging equivalence
        if w.r.gen_range(0..self.sample_every) != 0 {
            return;
        }
        let canon_arrays = [obs.ix.key("tick_array_0"), obs.ix.key("tick_array_1"), obs.ix.key("tick_array_2")];
        let canon = match fingerprint(&w.bank, &c, &obs.ix, &obs.out, sp) {
            Ok(f) => f,
            Err(e) => {
                fail(acc, "malformed_array", e);
                return;
            }
        };
        // arrays the canonical run needed (a prefix of the canonical list)
        let _needed: BTreeSet<Pubkey> = visited.iter().map(|s| b::pda_tick_array(c.pool, *s).0).collect();
        acc.count("packaging_suites");
        let mut variants: Vec<(&'static str, Bank, Ix, bool)> = vec![]; // (name, bank, ix, must_equal)
        // (a) permutation
        let mut perm = canon_arrays;
        perm.shuffle(&mut w.r);
        variants.push(("permuted", obs.pre.clone(), set_arrays(&obs.ix, perm), true));
        // (b) duplication: [a0, a1, a0] keeps {a0, a1}
        let dup = [canon_arrays[0], canon_arrays[1], canon_arrays[0]];
        let dup_set: BTreeSet<Pubkey> = dup.iter().copied().collect();
        let _ = dup_set;
        variants.push(("duplicated", obs.pre.clone(), set_arrays(&obs.ix, dup), false));
        let dup2 = [canon_arrays[0], canon_arrays[0], canon_arrays[0]];
        variants.push(("single_array_thrice", obs.pre.clone(), set_arrays(&obs.ix, dup2), false));
        // (c) supplemental arrays (v2): duplicates of the static ones plus neighbours, and the
        //     static slots filled with one array only
        if c.v2 && obs.ix.data.last() == Some(&0) {
            let base = array_start(pre.tick_current_index, sp);
            let mut extra: Vec<Pubkey> = vec![canon_arrays[2], canon_arrays[1]];
            let far = base as i64 + if c.a_to_b { 3 } else { -3 } * tia as i64;
            if far.abs() < 400_000 {
                extra.push(b::pda_tick_array(c.pool, far as i32).0);
            }
            variants.push(("supplemental_extra", obs.pre.clone(), with_supplemental(&obs.ix, &extra), true));
            variants.push(("supplemental_duplicates_static", obs.pre.clone(), with_supplemental(&obs.ix, &[canon_arrays[0], canon_arrays[0], canon_arrays[1]]), true));
            let sup = with_supplemental(&set_arrays(&obs.ix, [canon_arrays[0], canon_arrays[1], canon_arrays[0]]), &[canon_arrays[2]]);
            variants.push(("static_dup_plus_supplemental", obs.pre.clone(), sup, true));
            let sup2 = with_supplemental(&set_arrays(&obs.ix, [canon_arrays[2], canon_arrays[2], canon_arrays[2]]), &[canon_arrays[1], canon_arrays[0]]);
            variants.push(("all_via_supplemental", obs.pre.clone(), sup2, true));
            // (c') the arrays beyond the first one are supplied only as supplemental accounts that are NOT marked
            //      writable (the caller chooses the flags of remaining accounts): the program may refuse, but it
            //      must not treat a read-only initialized array as absent and walk over its ticks
            if canon_arrays[1] != canon_arrays[0] {
                let mut ro = with_supplemental(&set_arrays(&obs.ix, [canon_arrays[0], canon_arrays[0], canon_arrays[0]]), &[canon_arrays[1], canon_arrays[2]]);
                let n = ro.metas.len();
                for m in ro.metas[n - 2..].iter_mut() {
                    if m.key != canon_arrays[0] {
                        m.writable = false;
                    }
                }
                variants.push(("supplemental_read_only", obs.pre.clone(), ro, false));
            }
        }
        // (d) arrays without any initialized tick exist only as addresses
        {
            let mut bk = obs.pre.clone();
            let mut removed = 0;
            for k in canon_arrays {
                if let Some(Ok(ta)) = bk.data(&k).and_then(codec::TickArray::decode) {
                    if ta.count_initialized() == 0 && ta.whirlpool == c.pool {
                        bk.accts.remove(&k);
                        removed += 1;
                    }
                }
            }
            if removed > 0 {
                acc.count("variants_with_arrays_only_named");
                variants.push(("empty_arrays_only_named", bk, obs.ix.clone(), true));
            }
        }
        // (d') merely named arrays whose address already holds lamports (somebody pre-paid the rent, or sent dust):
        //      still system-owned and without data, so still "merely named"
        {
            let mut bk = obs.pre.clone();
            let mut funded = 0;
            for m in obs.ix.metas.iter().filter(|m| m.name.starts_with("tick_array_") || m.name.starts_with("remaining_")) {
                let absent = bk.get(&m.key).map(|a| a.data.is_empty() && a.owner == solana_program::system_program::ID).unwrap_or(true);
                if absent {
                    bk.set(m.key, Acct { lamports: *crate::rnd::pick(&mut w.r, &[1u64, 890_880, 70_407_360]), data: vec![], owner: solana_program::system_program::ID, executable: false });
                    funded += 1;
                }
            }
            if funded > 0 {
                acc.count("variants_with_named_arrays_prefunded");
                variants.push(("named_arrays_hold_lamports", bk, obs.ix.clone(), true));
            }
        }
        // (e) transcode every supplied array to the other encoding
        {
            let mut bk = obs.pre.clone();
            let mut n = 0;
            for k in canon_arrays {
                let Some(a) = bk.get(&k).cloned() else { continue };
                if let Some(Ok(ta)) = codec::TickArray::decode(&a.data) {
                    let data = if ta.dynamic { ta.encode_fixed() } else { ta.encode_dynamic() };
                    bk.set(k, Acct { lamports: 1_000_000_000, data, owner: a.owner, executable: false });
                    n += 1;
                }
            }
            if n > 0 {
                acc.count("variants_transcoded");
                variants.push(("transcoded_encoding", bk, obs.ix.clone(), true));
            }
        }
        // (f) one needed or unneeded array replaced by an address that is not the PDA
        {
            let mut a = canon_arrays;
            let i = w.r.gen_range(0..3);
            let bogus = w.new_key();
            a[i] = bogus;
            let must = false;
            variants.push(("non_pda_address", obs.pre.clone(), set_arrays(&obs.ix, a), must));
        }
        // (g) an array of another pool anywhere in the list must be rejected
        let other_pool_array: Option<Pubkey> = obs.pre.accts.iter().find_map(|(k, a)| {
            if a.owner != whirlpool::ID {
                return None;
            }
            match codec::TickArray::decode(&a.data) {
                Some(Ok(t)) if t.whirlpool != c.pool => Some(*k),
                _ => None,
            }
        });
        let mut foreign_ix: Option<Ix> = None;
        if let Some(o) = other_pool_array {
            let mut a = canon_arrays;
            a[w.r.gen_range(0..3)] = o;
            foreign_ix = Some(set_arrays(&obs.ix, a));
        }
        // (g') ... also when it hides among the supplemental arrays behind the three arrays of the path
        let mut foreign_sup: Option<Ix> = None;
        if let (Some(o), true) = (other_pool_array, c.v2 && obs.ix.data.last() == Some(&0)) {
            foreign_sup = Some(with_supplemental(&obs.ix, &if w.r.gen() { vec![o] } else { vec![canon_arrays[1], o, canon_arrays[2]] }));
        }
        for (name, bank, ixv, must_equal) in variants {
            let (out, b2) = w.simulate(&bank, &ixv);
            acc.count("packaging_variants_run");
            if out.ok() && !must_equal {
                // fewer of the (up to three) used arrays: the equivalence is not promised, but a
                // success must still cross exactly the initialized ticks in its own path
                let vpost = b2.data(&c.pool).and_then(codec::Pool::decode).unwrap_or_default();
                let vs = swaps_of(&out);
                if let Some((_, vsteps)) = vs.first() {
                    let (_, v) = traversal(&pre_ticks, &pre, &vpost, vsteps, c.a_to_b);
                    acc.count("reduced_packagings_succeeded");
                    if let Some((sig, d)) = v {
                        fail(acc, &format!("reduced_packaging_skipped_liquidity:{name}:{sig}"), d);
                    }
                }
            } else if out.ok() {
                match fingerprint(&b2, &c, &ixv, &out, sp) {
                    Ok(f) if f == canon => {
                        acc.count("packaging_variants_identical");
                    }
                    Ok(f) => {
                        let what = if f.pool != canon.pool { "pool account" } else if f.ticks != canon.ticks { "tick contents" } else if f.balances != canon.balances { "token balances" } else if f.events != canon.events { "events" } else { "oracle" };
                        let (pc, pv) = (codec::Pool::decode(&canon.pool).unwrap_or_default(), codec::Pool::decode(&f.pool).unwrap_or_default());
                        fail(acc, &format!("packaging_changed_outcome:{name}"), format!("packaging '{name}' (same set of arrays) succeeded with a different outcome ({what} differ); canonical crossed {:?}; canonical end price {} tick {} liq {}; variant end price {} tick {} liq {}", crossed, pc.sqrt_price, pc.tick_current_index, pc.liquidity, pv.sqrt_price, pv.tick_current_index, pv.liquidity));
                    }
                    Err(e) => fail(acc, &format!("packaging_malformed:{name}"), e),
                }
            } else if must_equal {
                fail(acc, &format!("packaging_rejected:{name}"), format!("packaging '{name}' supplies the same set of arrays but failed with {:?}", out.err));
            } else {
                acc.count("packaging_variants_rejected_legitimately");
            }
            acc.situation(format!("pk:{name}:{}:{}", out.ok(), c.a_to_b));
        }
        if let Some(fx) = foreign_ix {
            let (out, _) = w.simulate(&obs.pre, &fx);
            acc.count("foreign_array_probes");
            if out.ok() {
                fail(acc, "foreign_array_accepted", "a tick array of another pool was accepted".into());
            }
        }
        if let Some(fx) = foreign_sup {
            let (out, _) = w.simulate(&obs.pre, &fx);
            acc.count("foreign_supplemental_array_probes");
            if out.ok() {
                fail(acc, "foreign_supplemental_array_accepted", "a tick array of another pool was accepted among the supplemental tick arrays".into());
            }
        }
        acc.situation(format!("tr:{}:{}:x{}:arr{}:sh{}", obs.ix.name, c.a_to_b, super::bucket(crossed.len()), visited.len(), shifted_start));
    }
}
