//! C12 The Pinocchio fast path and the Anchor implementation agree bit for bit.
//!
//! * function level: on byte snapshots of (whirlpool, position, lower array, upper array) taken from
//!   running histories, the Anchor pipeline (deserialize -> calculate_modify_liquidity ->
//!   sync_modify_liquidity_values -> token deltas -> serialize) is compared with the Pinocchio
//!   pipeline over memory-mapped views of copies of the same bytes;
//! * instruction level: the four liquidity instructions that still have an Anchor handler are run
//!   on two clones, once through `entrypoint` (Pinocchio table) and once through `whirlpool::entry`.
use crate::checks::c13::DYN_BUF;
use crate::codec;
use crate::hist::{ix_brief, Monitor};
use crate::report::Acc;
use crate::rnd;
use crate::world::{Obs, World};
use anchor_lang::{AccountDeserialize, AccountSerialize};
use rand::Rng;
use serde_json::json;
use solana_program::program_error::ProgramError;
use whirlpool::manager::liquidity_manager::{calculate_liquidity_token_deltas, calculate_modify_liquidity, sync_modify_liquidity_values};
use whirlpool::pinocchio::verif_export::manager_liquidity_manager::{pino_calculate_liquidity_token_deltas, pino_calculate_modify_liquidity, pino_sync_modify_liquidity_values};
use whirlpool::pinocchio::verif_export::wp_state::tick_array::dynamic_tick_array::MemoryMappedDynamicTickArray;
use whirlpool::pinocchio::verif_export::wp_state::tick_array::fixed_tick_array::MemoryMappedFixedTickArray;
use whirlpool::pinocchio::verif_export::wp_state::tick_array::TickArray as PinoTickArray;
use whirlpool::pinocchio::verif_export::wp_state::{MemoryMappedPosition, MemoryMappedWhirlpool};
use whirlpool::state::{DynamicTickArrayLoader, FixedTickArray, TickArrayType};

fn aerr(e: anchor_lang::error::Error) -> u64 {
    let pe: ProgramError = e.into();
    u64::from(pe)
}

/// Every tick-array buffer gets the room an on-chain account has (data + realloc padding): the
/// memory-mapped views assume the maximum struct size whatever the account's current length is.
fn pad(mut v: Vec<u8>) -> Vec<u8> {
    if v.len() < DYN_BUF {
        v.resize(DYN_BUF, 0);
    }
    v
}

unsafe fn anchor_ta<'a>(buf: &'a mut [u8]) -> &'a mut dyn TickArrayType {
    if buf[..8] == codec::account_disc("TickArray") {
        &mut *(buf[8..].as_mut_ptr() as *mut FixedTickArray)
    } else {
        DynamicTickArrayLoader::load_mut(&mut buf[8..])
    }
}
unsafe fn pino_ta<'a>(buf: &'a mut [u8]) -> &'a mut dyn PinoTickArray {
    if buf[..8] == codec::account_disc("TickArray") {
        &mut *(buf.as_mut_ptr() as *mut MemoryMappedFixedTickArray)
    } else {
        &mut *(buf.as_mut_ptr() as *mut MemoryMappedDynamicTickArray)
    }
}

fn used_len(buf: &[u8]) -> usize {
    match codec::TickArray::decode(buf) {
        Some(Ok(t)) => t.used_len,
        _ => buf.len(),
    }
}

/// One function-level comparison. Returns Some(description) on disagreement.
pub fn differential(pool: &[u8], pos: &[u8], ta_lower: &[u8], ta_upper: Option<&[u8]>, delta: i128, ts: u64, acc: &mut Acc) -> Option<String> {
    // ---------------- Anchor ----------------
    let mut a_wp = whirlpool::state::Whirlpool::try_deserialize(&mut &pool[..]).ok()?;
    let mut a_pos = whirlpool::state::Position::try_deserialize(&mut &pos[..]).ok()?;
    let mut a_lo = pad(ta_lower.to_vec());
    let mut a_up = ta_upper.map(|u| pad(u.to_vec()));
    let a_res: Result<_, u64> = (|| unsafe {
        let lo: &dyn TickArrayType = &*anchor_ta(&mut *(a_lo.as_mut_slice() as *mut [u8]));
        let up: &dyn TickArrayType = match a_up.as_mut() {
            Some(u) => &*anchor_ta(&mut *(u.as_mut_slice() as *mut [u8])),
            None => lo,
        };
        let upd = calculate_modify_liquidity(&a_wp, &a_pos, lo, up, delta, ts).map_err(aerr)?;
        let lo_m = anchor_ta(&mut *(a_lo.as_mut_slice() as *mut [u8]));
        let up_m: Option<&mut dyn TickArrayType> = match a_up.as_mut() {
            Some(u) => Some(anchor_ta(&mut *(u.as_mut_slice() as *mut [u8]))),
            None => None,
        };
        sync_modify_liquidity_values(&mut a_wp, &mut a_pos, lo_m, up_m, &upd, ts).map_err(aerr)?;
        let deltas = if delta != 0 { Some(calculate_liquidity_token_deltas(a_wp.tick_current_index, a_wp.sqrt_price, &a_pos, delta).map_err(aerr)) } else { None };
        Ok((upd, deltas))
    })();
    // ---------------- Pinocchio ----------------
    let mut p_pool = pool.to_vec();
    let mut p_pos = pos.to_vec();
    let mut p_lo = pad(ta_lower.to_vec());
    let mut p_up = ta_upper.map(|u| pad(u.to_vec()));
    let p_res: Result<_, u64> = (|| unsafe {
        let wp = &mut *(p_pool.as_mut_ptr() as *mut MemoryMappedWhirlpool);
        let ps = &mut *(p_pos.as_mut_ptr() as *mut MemoryMappedPosition);
        let lo: &dyn PinoTickArray = &*pino_ta(&mut *(p_lo.as_mut_slice() as *mut [u8]));
        let up: &dyn PinoTickArray = match p_up.as_mut() {
            Some(u) => &*pino_ta(&mut *(u.as_mut_slice() as *mut [u8])),
            None => lo,
        };
        let upd = pino_calculate_modify_liquidity(wp, ps, lo, up, delta, ts).map_err(u64::from)?;
        let lo_m = pino_ta(&mut *(p_lo.as_mut_slice() as *mut [u8]));
        let up_m: Option<&mut dyn PinoTickArray> = match p_up.as_mut() {
            Some(u) => Some(pino_ta(&mut *(u.as_mut_slice() as *mut [u8]))),
            None => None,
        };
        pino_sync_modify_liquidity_values(wp, ps, lo_m, up_m, &upd, ts).map_err(u64::from)?;
        let deltas = if delta != 0 { Some(pino_calculate_liquidity_token_deltas(wp.tick_current_index(), wp.sqrt_price(), ps, delta).map_err(u64::from)) } else { None };
        Ok((upd, deltas))
    })();
    acc.evaluations += 1;
    match (&a_res, &p_res) {
        (Err(a), Err(p)) => {
            acc.count("fn_diff_both_err");
            if a != p {
                return Some(format!("error numbers differ: anchor {a} pinocchio {p}"));
            }
            None
        }
        (Ok(_), Err(p)) => Some(format!("anchor Ok, pinocchio Err({p})")),
        (Err(a), Ok(_)) => Some(format!("anchor Err({a}), pinocchio Ok")),
        (Ok((au, ad)), Ok((pu, pd))) => {
            acc.count("fn_diff_both_ok");
            if au.whirlpool_liquidity != pu.whirlpool_liquidity {
                return Some(format!("whirlpool_liquidity {} vs {}", au.whirlpool_liquidity, pu.whirlpool_liquidity));
            }
            let tu = |a: &whirlpool::state::TickUpdate, p: &whirlpool::pinocchio::verif_export::wp_state::TickUpdate| {
                a.initialized == p.initialized && a.liquidity_net == p.liquidity_net && a.liquidity_gross == p.liquidity_gross && a.fee_growth_outside_a == p.fee_growth_outside_a && a.fee_growth_outside_b == p.fee_growth_outside_b && a.reward_growths_outside == p.reward_growths_outside
            };
            if !tu(&au.tick_lower_update, &pu.tick_lower_update) {
                return Some(format!("tick_lower_update differs: anchor {:?}", au.tick_lower_update));
            }
            if !tu(&au.tick_upper_update, &pu.tick_upper_update) {
                return Some(format!("tick_upper_update differs: anchor {:?}", au.tick_upper_update));
            }
            for i in 0..3 {
                if au.reward_infos[i].growth_global_x64 != pu.next_reward_growth_global[i] {
                    return Some(format!("reward growth {i}: {} vs {}", au.reward_infos[i].growth_global_x64, pu.next_reward_growth_global[i]));
                }
            }
            let (x, y) = (&au.position_update, &pu.position_update);
            if format!("{:?}", (x.liquidity, x.fee_growth_checkpoint_a, x.fee_owed_a, x.fee_growth_checkpoint_b, x.fee_owed_b)) != format!("{:?}", (y.liquidity, y.fee_growth_checkpoint_a, y.fee_owed_a, y.fee_growth_checkpoint_b, y.fee_owed_b)) {
                return Some("position_update differs".into());
            }
            for i in 0..3 {
                if x.reward_infos[i].growth_inside_checkpoint != y.reward_infos[i].growth_inside_checkpoint || x.reward_infos[i].amount_owed != y.reward_infos[i].amount_owed {
                    return Some(format!("position_update reward {i} differs"));
                }
            }
            if format!("{:?}{:?}", au.tick_array_lower_update, au.tick_array_upper_update) != format!("{:?}{:?}", pu.tick_array_lower_update, pu.tick_array_upper_update) {
                return Some(format!("tick array updates differ: anchor {:?}/{:?} pinocchio {:?}/{:?}", au.tick_array_lower_update, au.tick_array_upper_update, pu.tick_array_lower_update, pu.tick_array_upper_update));
            }
            if ad != pd {
                return Some(format!("token deltas: anchor {:?} pinocchio {:?}", ad, pd));
            }
            // resulting bytes
            let mut a_pool_bytes = vec![];
            a_wp.try_serialize(&mut a_pool_bytes).ok()?;
            if a_pool_bytes != p_pool {
                return Some("whirlpool bytes differ after sync".into());
            }
            let mut a_pos_bytes = vec![];
            a_pos.try_serialize(&mut a_pos_bytes).ok()?;
            if a_pos_bytes != p_pos[..a_pos_bytes.len()] {
                return Some("position bytes differ after sync".into());
            }
            let (la, lp) = (used_len(&a_lo), used_len(&p_lo));
            if la != lp || a_lo[..la] != p_lo[..lp] {
                return Some(format!("lower tick array bytes differ after sync (used {la} vs {lp})"));
            }
            if let (Some(au_), Some(pu_)) = (&a_up, &p_up) {
                let (la, lp) = (used_len(au_), used_len(pu_));
                if la != lp || au_[..la] != pu_[..lp] {
                    return Some(format!("upper tick array bytes differ after sync (used {la} vs {lp})"));
                }
            }
            None
        }
    }
}

/// Anchor `Position::reset_position_range` vs the Pinocchio view's `reset_position_range` (error number
/// and resulting position bytes) on the same pool / position bytes.
pub fn range_differential(pool_key: &solana_program::pubkey::Pubkey, pool: &[u8], pos: &[u8], lo: i32, hi: i32, acc: &mut Acc) -> Option<String> {
    use solana_program::account_info::AccountInfo;
    let mut a_pos = whirlpool::state::Position::try_deserialize(&mut &pos[..]).ok()?;
    let (mut lamports, mut data, owner) = (1u64, pool.to_vec(), whirlpool::ID);
    let ai = AccountInfo::new(pool_key, false, false, &mut lamports, &mut data, &owner, false, 0);
    let a_wp: anchor_lang::prelude::Account<whirlpool::state::Whirlpool> = anchor_lang::prelude::Account::try_from(&ai).ok()?;
    let ra = a_pos.reset_position_range(&a_wp, lo, hi).map_err(aerr);
    let mut p_pos = pos.to_vec();
    let p_pool = pool.to_vec();
    let rp = unsafe {
        let wp = &*(p_pool.as_ptr() as *const MemoryMappedWhirlpool);
        let ps = &mut *(p_pos.as_mut_ptr() as *mut MemoryMappedPosition);
        ps.reset_position_range(wp, lo, hi, false).map_err(u64::from)
    };
    acc.evaluations += 1;
    acc.count(if ra.is_ok() { "range_diff_ok" } else { "range_diff_err" });
    if ra != rp {
        return Some(format!("reset_position_range({lo}, {hi}): anchor {:?} pinocchio {:?}", ra, rp));
    }
    if ra.is_ok() {
        let mut a_bytes = vec![];
        a_pos.try_serialize(&mut a_bytes).ok()?;
        if a_bytes != p_pos[..a_bytes.len()] {
            return Some(format!("reset_position_range({lo}, {hi}): resulting position bytes differ"));
        }
    }
    None
}

pub struct C12 {
    pub fn_every: u32,
}
impl Default for C12 {
    fn default() -> Self {
        C12 { fn_every: 1 }
    }
}

const ROUTED: [&str; 4] = ["increase_liquidity", "decrease_liquidity", "increase_liquidity_v2", "decrease_liquidity_v2"];
const PINO_ONLY: [&str; 2] = ["increase_liquidity_by_token_amounts_v2", "reposition_liquidity_v2"];

/// Does a Token-2022 mint account carry the extension of this type number (TLV walk after the account-type byte)?
fn has_ext(d: &[u8], ty: u16) -> bool {
    let mut i = 166;
    while i + 4 <= d.len() {
        let t = u16::from_le_bytes([d[i], d[i + 1]]);
        let l = u16::from_le_bytes([d[i + 2], d[i + 3]]) as usize;
        if t == 0 {
            return false;
        }
        if t == ty {
            return true;
        }
        i += 4 + l;
    }
    false
}

impl Monitor for C12 {
    fn after(&mut self, w: &mut World, obs: &Obs, acc: &mut Acc) {
        let name = obs.ix.name;
        // ---------- routing table: the six discriminators never reach the Anchor dispatcher ----------
        if ROUTED.contains(&name) || PINO_ONLY.contains(&name) {
            acc.count("routing_observed");
            if obs.out.logs.iter().any(|l| l.starts_with("Instruction: ")) && obs.out.logs.first().map(|l| l.starts_with("Instruction: ")).unwrap_or(false) {
                let first = obs.out.logs.first().cloned().unwrap_or_default();
                // CPI'd token programs also print "Instruction: Transfer" - only the first line matters
                let anchor_names = ["Instruction: IncreaseLiquidity", "Instruction: DecreaseLiquidity", "Instruction: IncreaseLiquidityV2", "Instruction: DecreaseLiquidityV2", "Instruction: IncreaseLiquidityByTokenAmountsV2", "Instruction: RepositionLiquidityV2"];
                if anchor_names.contains(&first.as_str()) {
                    acc.violation(format!("c12:routing:{name}"), format!("{name} reached the Anchor dispatcher through entrypoint (first log line {first:?})"), json!({"instruction": ix_brief(&obs.ix)}));
                }
            }
        }
        // ---------- instruction level: Pinocchio route vs Anchor route on clones of the pre-state ----------
        if ROUTED.contains(&name) {
            let ins = obs.ix.instruction();
            let signers = obs.ix.signers();
            let anchor_out = w.svm.simulate_route(&obs.pre, &ins, &signers, true);
            acc.count("route_pairs");
            let mut b_anchor = obs.pre.clone();
            if anchor_out.ok() {
                b_anchor.commit(&anchor_out);
            }
            let fail = |acc: &mut Acc, sig: &str, detail: String| {
                acc.violation(format!("c12:route:{sig}:{name}"), detail, json!({"instruction": ix_brief(&obs.ix)}));
            };
            // mints whose transfer-hook extension names no program: both routes must treat them as hook-free
            let idle_hook = obs.ix.metas.iter().any(|m| obs.pre.get(&m.key).map(|a| a.owner == crate::world::TOKEN22 && a.data.len() > 165 + 1 && a.data[165] == 1 && has_ext(&a.data, 14)).unwrap_or(false));
            if idle_hook {
                acc.count("route_pairs_on_idle_hook_mints");
                if obs.ok() && anchor_out.ok() {
                    acc.count("route_pairs_on_idle_hook_mints_both_ok");
                }
            }
            match (obs.ok(), anchor_out.ok()) {
                (true, true) => {
                    acc.count("route_pairs_both_ok");
                    let d = w.bank.diff(&b_anchor);
                    if !d.is_empty() {
                        fail(acc, "state", format!("end states differ in accounts {:?}", d.iter().map(|k| k.to_string()).collect::<Vec<_>>()));
                    }
                    // events: Pinocchio emits through the verif sink, Anchor through sol_log_data
                    let pino_ev: Vec<Vec<u8>> = obs.out.hook.iter().filter_map(|e| if let whirlpool::verif::Event::LogData(d) = e { d.first().cloned() } else { None }).collect();
                    if pino_ev != anchor_out.events {
                        fail(acc, "events", format!("event bytes differ: pinocchio {} events, anchor {} events", pino_ev.len(), anchor_out.events.len()));
                    }
                    // the caller's maxima / minima: both routes must draw the line at the same amounts. One pair in four is
                    // re-run on both routes with the limits set to what the owner actually paid / received, and one unit tighter
                    if obs.ix.data.len() >= 40 && w.r.gen_range(0..4) == 0 {
                        let inc = name.starts_with("increase");
                        let (ka, kb) = (obs.ix.key("token_owner_account_a"), obs.ix.key("token_owner_account_b"));
                        if ka != kb {
                            let bal = |bk: &crate::svm::Bank, k: &solana_program::pubkey::Pubkey| bk.data(k).map(codec::token_amount).unwrap_or(0);
                            let moved = |k: &solana_program::pubkey::Pubkey| if inc { bal(&obs.pre, k).saturating_sub(bal(&w.bank, k)) } else { bal(&w.bank, k).saturating_sub(bal(&obs.pre, k)) };
                            let (a, bq) = (moved(&ka), moved(&kb));
                            let tighter = |x: u64| if inc { x.checked_sub(1) } else { x.checked_add(1) };
                            for (x, y) in [(Some(a), Some(bq)), (tighter(a), Some(bq)), (Some(a), tighter(bq))] {
                                let (Some(x), Some(y)) = (x, y) else { continue };
                                let mut probe = obs.ix.clone();
                                probe.data[24..32].copy_from_slice(&x.to_le_bytes());
                                probe.data[32..40].copy_from_slice(&y.to_le_bytes());
                                let (po, _) = w.simulate(&obs.pre, &probe);
                                let ao = w.svm.simulate_route(&obs.pre, &probe.instruction(), &probe.signers(), true);
                                acc.count("route_limit_probes");
                                if po.ok() != ao.ok() {
                                    fail(acc, "limit_outcome", format!("limits ({x}, {y}) with the owner moving ({a}, {bq}): pinocchio route ok={} ({:?}), anchor route ok={} ({:?})", po.ok(), po.err, ao.ok(), ao.err));
                                }
                            }
                        }
                    }
                }
                (false, false) => {
                    acc.count("route_pairs_both_err");
                    let (a, b) = (obs.out.custom(), anchor_out.custom());
                    if a != b {
                        // the two routes validate accounts in a different order; only count it
                        acc.count("route_pairs_error_kinds_differ");
                    }
                }
                (p, a) => fail(acc, "outcome", format!("pinocchio route ok={p} ({:?}), anchor route ok={a} ({:?})", obs.out.err, anchor_out.err)),
            }
            acc.situation(format!("route:{name}:{}:{}", obs.ok(), anchor_out.ok()));
        }
        // ---------- function level on reachable bytes ----------
        if !obs.ok() || w.positions.is_empty() || w.r.gen_range(0..self.fn_every) != 0 {
            return;
        }
        for _ in 0..3 {
            let i = w.r.gen_range(0..w.positions.len());
            let pi = w.positions[i].clone();
            let (Some(pos_b), Some(pool_b)) = (w.bank.data(&pi.position), w.bank.data(&w.pools[pi.pool].key)) else { continue };
            let Some(pos) = codec::Position::decode(pos_b) else { continue };
            let (kl, ku) = w.pos_arrays(&pi);
            let (Some(tl), Some(tu)) = (w.bank.data(&kl), w.bank.data(&ku)) else { continue };
            let pool = codec::Pool::decode(pool_b).unwrap();
            let l = pos.liquidity;
            let delta: i128 = match w.r.gen_range(0..12) {
                0 => 0,
                1 => 1,
                2 => -1,
                3 => l as i128,
                4 => -(l as i128),
                5 => -((l as i128).saturating_add(1)),
                6 => i128::MAX,
                7 => i128::MIN,
                8 => i128::MAX - l as i128,
                _ => {
                    let m = rnd::log_u128(&mut w.r, 126) as i128;
                    if w.r.gen() { m } else { -m }
                }
            };
            let ts = match w.r.gen_range(0..6) {
                0 => pool.reward_last_updated_timestamp,
                1 => pool.reward_last_updated_timestamp.saturating_sub(1),
                2 => u64::MAX,
                3 => pool.reward_last_updated_timestamp + w.r.gen_range(0..1_000_000),
                _ => w.now() as u64,
            };
            let (pool_v, pos_v, mut tl_v, mut tu_v) = (pool_b.to_vec(), pos_b.to_vec(), tl.to_vec(), tu.to_vec());
            // one time in five the arrays are crowded first: every other slot (or nine in ten) is initialized with
            // arbitrary tick data, as if other positions were bounded there - arrays that are full or one short of full
            if w.r.gen_range(0..5) == 0 {
                let all = w.r.gen::<bool>();
                for v in [&mut tl_v, &mut tu_v] {
                    if let Some(Ok(mut ta)) = codec::TickArray::decode(v) {
                        for t in ta.ticks.iter_mut() {
                            if !t.initialized && (all || w.r.gen_range(0..10) != 0) {
                                *t = codec::Tick { initialized: true, liquidity_net: w.r.gen::<i64>() as i128, liquidity_gross: w.r.gen::<u64>() as u128 + 1, fee_growth_outside_a: w.r.gen(), fee_growth_outside_b: w.r.gen(), reward_growths_outside: [w.r.gen(), w.r.gen(), w.r.gen()] };
                            }
                        }
                        *v = if ta.dynamic { ta.encode_dynamic() } else { ta.encode_fixed() };
                    }
                }
                if kl == ku {
                    tu_v = tl_v.clone();
                }
                acc.count("fn_diff_crowded_arrays");
            }
            let upper = if kl == ku { None } else { Some(&tu_v[..]) };
            if let Some(d) = differential(&pool_v, &pos_v, &tl_v, upper, delta, ts, acc) {
                acc.violation(
                    "c12:function_differential",
                    format!("liquidity_delta {delta}, timestamp {ts}: {d}"),
                    json!({"whirlpool_hex": crate::hist::hex(&pool_v), "position_hex": crate::hist::hex(&pos_v), "liquidity_delta": delta.to_string(), "timestamp": ts, "same_array": kl == ku,
                           "tick_array_lower_used_hex": crate::hist::hex(&tl_v[..used_len(&tl_v).min(tl_v.len())])}),
                );
            }
            acc.situation(format!("fn:{}:{}:{}", delta.signum(), codec::TickArray::is_dynamic(&tl_v), kl == ku));
            // range validation of the two implementations (the position as it is, and an emptied copy)
            let sp = pool.tick_spacing as i32;
            let base = pool.tick_current_index.div_euclid(sp) * sp;
            let cands = [base, base + sp, base - sp, base + 7 * sp, pos.tick_lower_index, pos.tick_upper_index, base + 1, codec::MIN_TICK_INDEX, codec::MAX_TICK_INDEX, codec::MIN_TICK_INDEX / sp * sp, codec::MAX_TICK_INDEX / sp * sp, codec::MAX_TICK_INDEX / sp * sp + sp];
            let (lo, hi) = (*rnd::pick(&mut w.r, &cands), *rnd::pick(&mut w.r, &cands));
            let mut emptied = pos.clone();
            emptied.liquidity = 0;
            emptied.fee_owed_a = 0;
            emptied.fee_owed_b = 0;
            for r in emptied.reward_infos.iter_mut() {
                r.amount_owed = 0;
            }
            for pv in [pos_v.clone(), emptied.encode()] {
                if let Some(d) = range_differential(&w.pools[pi.pool].key, &pool_v, &pv, lo, hi, acc) {
                    acc.violation("c12:range_differential", d, json!({"whirlpool_hex": crate::hist::hex(&pool_v), "position_hex": crate::hist::hex(&pv), "lower": lo, "upper": hi}));
                }
            }
        }
    }
}
