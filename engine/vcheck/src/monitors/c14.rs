//! C14 Adaptive fees follow the volatility schedule and stay within the hard limit.
//! Independent re-statement of the documented schedule, applied to the per-step hook records.
use super::c07::attribute_swaps;
use crate::codec::{self, AfConstants, AfVariables};
use crate::hist::{ix_brief, Monitor};
use crate::report::Acc;
use crate::world::{Obs, World};
use serde_json::json;
use whirlpool::math::{sqrt_price_from_tick_index, tick_index_from_sqrt_price};

pub const SCALE: u64 = 10_000; // volatility accumulator scale
pub const HARD_LIMIT: u32 = 100_000;
pub const MAX_REFERENCE_AGE: u64 = 3_600;

#[derive(Default)]
pub struct C14;

fn fdiv(a: i32, b: i32) -> i32 {
    a.div_euclid(b)
}

pub fn acc_of(vref: u32, gref: i32, g: i32, max_acc: u32) -> u32 {
    let d = (gref as i64 - g as i64).unsigned_abs();
    (vref as u64 + d * SCALE).min(max_acc as u64) as u32
}
pub fn rate_of(static_rate: u16, c: &AfConstants, acc: u32) -> u32 {
    let crossed = acc as u128 * c.tick_group_size as u128;
    let num = c.adaptive_fee_control_factor as u128 * crossed * crossed;
    let den = 100_000u128 * SCALE as u128 * SCALE as u128;
    let adaptive = num.div_ceil(den).min(HARD_LIMIT as u128) as u32;
    (static_rate as u32 + adaptive).min(HARD_LIMIT)
}

/// Reference update at the start of a swap (documented filter / decay / reset rules).
pub fn reference_after(v: &AfVariables, c: &AfConstants, g_start: i32, now: u64) -> Option<(u32, i32, u64)> {
    let max_ts = v.last_reference_update_timestamp.max(v.last_major_swap_timestamp);
    if now < max_ts {
        return None;
    }
    if now - v.last_reference_update_timestamp > MAX_REFERENCE_AGE {
        return Some((0, g_start, now));
    }
    let elapsed = now - max_ts;
    if elapsed < c.filter_period as u64 {
        Some((v.volatility_reference, v.tick_group_index_reference, v.last_reference_update_timestamp))
    } else if elapsed < c.decay_period as u64 {
        Some(((v.volatility_accumulator as u64 * c.reduction_factor as u64 / 10_000) as u32, g_start, now))
    } else {
        Some((0, g_start, now))
    }
}

/// Tick group in which a trade at `price` moving in direction `a_to_b` takes place.
fn group_of(price: u128, a_to_b: bool, size: i32, approaching: bool) -> i32 {
    let t = tick_index_from_sqrt_price(&price);
    let on_boundary = t % size == 0 && sqrt_price_from_tick_index(t) == price;
    // a_to_b: a price exactly on a group boundary trades in the group below it when leaving it,
    // b_to_a: a price exactly on a group boundary belongs to the group below it when arriving
    if on_boundary && ((a_to_b && !approaching) || (!a_to_b && approaching)) {
        t / size - 1
    } else {
        fdiv(t, size)
    }
}

impl Monitor for C14 {
    fn after(&mut self, w: &mut World, obs: &Obs, acc: &mut Acc) {
        let name = obs.ix.name;
        // ---------- what the set-up of this world found: tiers, pools and oracles that do not hold what was asked for ----------
        acc.add("adaptive_setups_compared_with_the_request", std::mem::take(&mut w.setup_compared));
        for (sig, detail) in std::mem::take(&mut w.setup_findings) {
            acc.violation(sig, detail, json!({"stage": "set-up of the scenario (World::add_adaptive_pool)"}));
        }
        // ---------- the trade-enable time of a pool is fixed when its oracle is created: whatever later touches the
        //            oracle (constants updates, swaps) must leave it, and the pool it belongs to, alone ----------
        if obs.ok() {
            for m in &obs.ix.metas {
                let Some(post) = w.bank.data(&m.key).and_then(codec::Oracle::decode) else { continue };
                if w.bank.get(&m.key).map(|a| a.owner != whirlpool::ID).unwrap_or(true) {
                    continue;
                }
                if let Some(pre) = obs.pre.data(&m.key).and_then(codec::Oracle::decode) {
                    acc.count("oracle_touches_checked");
                    if post.trade_enable_timestamp != pre.trade_enable_timestamp || post.whirlpool != pre.whirlpool {
                        acc.violation(format!("c14:trade_enable_time_changed:{name}"), format!("oracle {}: trade_enable_timestamp {} -> {}, whirlpool {} -> {}", m.key, pre.trade_enable_timestamp, post.trade_enable_timestamp, pre.whirlpool, post.whirlpool), json!({"instruction": ix_brief(&obs.ix)}));
                    }
                    if name == "set_adaptive_fee_constants" {
                        // every constant named in the instruction takes the new value, every omitted one keeps its old value
                        acc.count("constants_updates_checked");
                        let mut r = codec::Rd::new(&obs.ix.data, 8);
                        let mut o16 = |r: &mut codec::Rd| if r.u8() == 1 { Some(r.u16()) } else { None };
                        let (f, d, red) = (o16(&mut r), o16(&mut r), o16(&mut r));
                        let cf = if r.u8() == 1 { Some(r.u32()) } else { None };
                        let mx = if r.u8() == 1 { Some(r.u32()) } else { None };
                        let (gs, mj) = (o16(&mut r), o16(&mut r));
                        let c0 = &pre.constants;
                        let want = (f.unwrap_or(c0.filter_period), d.unwrap_or(c0.decay_period), red.unwrap_or(c0.reduction_factor), cf.unwrap_or(c0.adaptive_fee_control_factor), mx.unwrap_or(c0.max_volatility_accumulator), gs.unwrap_or(c0.tick_group_size), mj.unwrap_or(c0.major_swap_threshold_ticks));
                        let c1 = &post.constants;
                        let got = (c1.filter_period, c1.decay_period, c1.reduction_factor, c1.adaptive_fee_control_factor, c1.max_volatility_accumulator, c1.tick_group_size, c1.major_swap_threshold_ticks);
                        if want != got {
                            acc.violation(format!("c14:constants_update:{name}"), format!("requested (filter, decay, reduction, control, max accumulator, group size, major threshold) = ({f:?}, {d:?}, {red:?}, {cf:?}, {mx:?}, {gs:?}, {mj:?}) on {:?}: stored {:?}, expected {:?}", (c0.filter_period, c0.decay_period, c0.reduction_factor, c0.adaptive_fee_control_factor, c0.max_volatility_accumulator, c0.tick_group_size, c0.major_swap_threshold_ticks), got, want), json!({"instruction": ix_brief(&obs.ix)}));
                        }
                    }
                }
            }
        }
        // a preset update of a tier stores exactly the requested constants (pools created from the tier copy them)
        if name == "set_preset_adaptive_fee_constants" && obs.ok() && obs.ix.data.len() >= 8 + 2 + 2 + 2 + 4 + 4 + 2 + 2 {
            let mut r = codec::Rd::new(&obs.ix.data, 8);
            let want = (r.u16(), r.u16(), r.u16(), r.u32(), r.u32(), r.u16(), r.u16());
            acc.count("preset_updates_checked");
            if let Some(t) = w.bank.data(&obs.ix.key("adaptive_fee_tier")).and_then(codec::AdaptiveFeeTier::decode) {
                let c = &t.constants;
                let got = (c.filter_period, c.decay_period, c.reduction_factor, c.adaptive_fee_control_factor, c.max_volatility_accumulator, c.tick_group_size, c.major_swap_threshold_ticks);
                if got != want {
                    acc.violation(format!("c14:preset_update:{name}"), format!("requested (filter, decay, reduction, control, max accumulator, group size, major threshold) = {want:?}, the tier stores {got:?}"), json!({"instruction": ix_brief(&obs.ix)}));
                }
            }
        }
        if !name.contains("swap") {
            return;
        }
        let now = obs.pre.clock.unix_timestamp as u64;
        let fail = |acc: &mut Acc, sig: &str, detail: String| {
            acc.violation(format!("c14:{sig}:{name}"), detail, json!({"instruction": ix_brief(&obs.ix), "clock": now}));
        };
        // ---------- trading is refused before the pool's trade-enable time ----------
        for m in &obs.ix.metas {
            if let Some(o) = obs.pre.data(&m.key).and_then(codec::Oracle::decode) {
                if obs.pre.data(&o.whirlpool).and_then(codec::Pool::decode).map(|p| p.is_adaptive()).unwrap_or(false) && obs.ix.metas.iter().any(|x| x.key == o.whirlpool) {
                    if o.trade_enable_timestamp > now {
                        acc.count("swaps_before_trade_enable");
                        if obs.ok() {
                            fail(acc, "traded_before_enable", format!("trade_enable_timestamp {} > clock {now} but the swap succeeded", o.trade_enable_timestamp));
                        }
                    }
                    // a timestamp before the last update must be rejected
                    let mx = o.variables.last_reference_update_timestamp.max(o.variables.last_major_swap_timestamp);
                    if now < mx && obs.ok() {
                        fail(acc, "earlier_timestamp_accepted", format!("clock {now} < last oracle update {mx}"));
                    }
                }
            }
        }
        if !obs.ok() {
            return;
        }
        for (pool_key, begin, steps) in attribute_swaps(obs) {
            let (Some(pre), Some(post)) = (obs.pre.data(&pool_key).and_then(codec::Pool::decode), w.bank.data(&pool_key).and_then(codec::Pool::decode)) else { continue };
            if !pre.is_adaptive() {
                continue;
            }
            let okey = crate::ix::build::pda_oracle(pool_key).0;
            let (Some(o_pre), Some(o_post)) = (obs.pre.data(&okey).and_then(codec::Oracle::decode), w.bank.data(&okey).and_then(codec::Oracle::decode)) else {
                fail(acc, "oracle_missing", "adaptive pool swapped without a decodable oracle".into());
                continue;
            };
            let c = &o_pre.constants;
            let size = c.tick_group_size as i32;
            if o_post.constants != *c || o_post.trade_enable_timestamp != o_pre.trade_enable_timestamp || o_post.whirlpool != o_pre.whirlpool {
                fail(acc, "oracle_constants_changed", "a swap changed the oracle's constants".into());
            }
            acc.count("adaptive_swaps");
            let g_start = fdiv(pre.tick_current_index, size);
            let Some((vref, gref, ref_ts)) = reference_after(&o_pre.variables, c, g_start, now) else {
                fail(acc, "earlier_timestamp_accepted", "swap succeeded with a clock before the last oracle update".into());
                continue;
            };
            // ---------- stored reference follows the filter / decay / reset rules ----------
            let v = &o_post.variables;
            if v.volatility_reference != vref || v.tick_group_index_reference != gref || v.last_reference_update_timestamp != ref_ts {
                fail(acc, "reference_rules", format!("stored reference (vol {}, group {}, ts {}) but the filter/decay/reset rules give (vol {vref}, group {gref}, ts {ref_ts}) from pre-swap {:?} at clock {now}, constants {:?}, start group {g_start}", v.volatility_reference, v.tick_group_index_reference, v.last_reference_update_timestamp, o_pre.variables, c));
            }
            let elapsed_class = {
                let mx = o_pre.variables.last_reference_update_timestamp.max(o_pre.variables.last_major_swap_timestamp);
                if now - o_pre.variables.last_reference_update_timestamp > MAX_REFERENCE_AGE { "reset" } else if now - mx < c.filter_period as u64 { "filter" } else if now - mx < c.decay_period as u64 { "decay" } else { "expired" }
            };
            acc.count(&format!("reference_class_{elapsed_class}"));
            if elapsed_class == "reset" && now - o_pre.variables.last_major_swap_timestamp <= MAX_REFERENCE_AGE {
                // the one-hour reset applies although a major swap happened recently
                acc.count("reference_class_reset_masked_by_major_swap");
            }
            // ---------- every part of the swap is charged the rate of its tick group ----------
            let static_rate = pre.fee_rate;
            let mut saw_saturated = false;
            for (k, s) in steps.iter().enumerate() {
                if s.total_fee_rate > HARD_LIMIT || s.total_fee_rate < static_rate as u32 {
                    fail(acc, "rate_out_of_bounds", format!("step {k}: total rate {} outside [{static_rate}, {HARD_LIMIT}]", s.total_fee_rate));
                }
                if s.fee.volatility_accumulator > c.max_volatility_accumulator {
                    fail(acc, "accumulator_above_max", format!("step {k}: accumulator {} > max {}", s.fee.volatility_accumulator, c.max_volatility_accumulator));
                }
                if c.adaptive_fee_control_factor == 0 {
                    // behaves exactly like a static-fee pool: static rate, no extra step splitting
                    if s.total_fee_rate != static_rate as u32 || s.bounded_sqrt_price_target != s.sqrt_price_target {
                        fail(acc, "control_factor_zero_not_static", format!("step {k}: rate {} target {} bounded {} on a pool with control factor 0 (static {static_rate})", s.total_fee_rate, s.sqrt_price_target, s.bounded_sqrt_price_target));
                    }
                    continue;
                }
                if s.amount_in == 0 && s.amount_out == 0 && s.fee_amount == 0 {
                    continue;
                }
                // the groups the step's price interval touches
                let g_from = group_of(s.sqrt_price_before, begin.a_to_b, size, false);
                let g_to = if s.next_price == s.sqrt_price_before { g_from } else { group_of(s.next_price, begin.a_to_b, size, true) };
                let (r_from, r_to) = (rate_of(static_rate, c, acc_of(vref, gref, g_from, c.max_volatility_accumulator)), rate_of(static_rate, c, acc_of(vref, gref, g_to, c.max_volatility_accumulator)));
                acc.count("adaptive_steps_checked");
                let (lo, hi) = (g_from.min(g_to), g_from.max(g_to));
                // the schedule is V-shaped around the reference group: its minimum over the span is at the
                // group closest to the reference, its maximum at one of the ends
                let r_min = rate_of(static_rate, c, acc_of(vref, gref, gref.clamp(lo, hi), c.max_volatility_accumulator));
                let spans_ref = r_min != r_from.max(r_to);
                if g_from != g_to {
                    acc.count("adaptive_steps_spanning_groups");
                }
                if acc_of(vref, gref, g_from, c.max_volatility_accumulator) == c.max_volatility_accumulator {
                    saw_saturated = true;
                }
                let constant_over_span = r_from == r_to && !spans_ref;
                if !constant_over_span {
                    fail(acc, "step_spans_groups_with_different_rates", format!("step {k} trades from group {g_from} to group {g_to} (reference group {gref}, vol ref {vref}) where the schedule gives rates {r_from} and {r_to}, but it was charged one rate {}", s.total_fee_rate));
                } else if s.total_fee_rate != r_from {
                    fail(acc, "step_rate", format!("step {k} in tick group {g_from} (reference group {gref}, vol ref {vref}, max {}): charged {} but static {static_rate} + adaptive(min(vref + |g-gref|*10000, max)) = {r_from}", c.max_volatility_accumulator, s.total_fee_rate));
                }
            }
            if saw_saturated {
                acc.count("swaps_in_saturated_range");
            }
            // ---------- stored accumulator: the group where the swap ended (or its neighbour) ----------
            if v.volatility_accumulator > c.max_volatility_accumulator {
                fail(acc, "stored_accumulator_above_max", format!("stored accumulator {} > max {}", v.volatility_accumulator, c.max_volatility_accumulator));
            }
            // "the tick group where the swap ended (or the adjacent group in the trade direction)": a b-to-a swap
            // that stops exactly on a group boundary ended in the group below the boundary
            let g_end = group_of(post.sqrt_price, begin.a_to_b, size, true);
            let ahead = if begin.a_to_b { g_end - 1 } else { g_end + 1 };
            let allowed: Vec<u32> = [g_end, ahead].iter().map(|g| acc_of(vref, gref, *g, c.max_volatility_accumulator)).collect();
            if !allowed.contains(&v.volatility_accumulator) {
                fail(acc, "stored_accumulator", format!("stored accumulator {} but the swap ended in tick group {g_end} (reference group {gref}, vol ref {vref}): expected one of {:?}", v.volatility_accumulator, allowed));
            }
            // ---------- major swap timestamp ----------
            let (small, large) = if pre.sqrt_price <= post.sqrt_price { (pre.sqrt_price, post.sqrt_price) } else { (post.sqrt_price, pre.sqrt_price) };
            let moved = (large as f64).ln() - (small as f64).ln();
            let threshold = c.major_swap_threshold_ticks as f64 * (1.0001f64).ln() / 2.0;
            let band = 2e-9;
            let set = v.last_major_swap_timestamp == now && (o_pre.variables.last_major_swap_timestamp != now || true);
            let was = o_pre.variables.last_major_swap_timestamp;
            if moved > threshold + band {
                acc.count("major_swaps");
                if v.last_major_swap_timestamp != now {
                    fail(acc, "major_swap_not_recorded", format!("price moved {} -> {} (>= {} ticks) but last_major_swap_timestamp {} != clock {now}", pre.sqrt_price, post.sqrt_price, c.major_swap_threshold_ticks, v.last_major_swap_timestamp));
                }
            } else if moved < threshold - band {
                acc.count("minor_swaps");
                if v.last_major_swap_timestamp != was {
                    fail(acc, "minor_swap_recorded_as_major", format!("price moved {} -> {} (< {} ticks) but last_major_swap_timestamp changed {was} -> {}", pre.sqrt_price, post.sqrt_price, c.major_swap_threshold_ticks, v.last_major_swap_timestamp));
                }
            } else {
                // inside the floating-point band the published price of `threshold` ticks decides, in exact integers:
                // moved by the threshold <=> large / small >= F / 2^64 with F = price(threshold ticks) of the tick table
                // (C09); only the sub-unit zone where floor(small * F / 2^64) == large without exact equality stays open
                use num_bigint::BigUint;
                let f = sqrt_price_from_tick_index(c.major_swap_threshold_ticks as i32);
                let lhs = BigUint::from(small) * BigUint::from(f);
                if lhs <= (BigUint::from(large) << 64usize) {
                    acc.count("major_swaps_at_exactly_the_threshold");
                    if v.last_major_swap_timestamp != now {
                        fail(acc, "major_swap_not_recorded", format!("price moved {} -> {}: the ratio reaches the published price of {} ticks ({f}/2^64) but last_major_swap_timestamp {} != clock {now}", pre.sqrt_price, post.sqrt_price, c.major_swap_threshold_ticks, v.last_major_swap_timestamp));
                    }
                } else if lhs >= ((BigUint::from(large) + 1u32) << 64usize) {
                    acc.count("minor_swaps_just_below_the_threshold");
                    if v.last_major_swap_timestamp != was {
                        fail(acc, "minor_swap_recorded_as_major", format!("price moved {} -> {}: short of the published price of {} ticks but last_major_swap_timestamp changed {was} -> {}", pre.sqrt_price, post.sqrt_price, c.major_swap_threshold_ticks, v.last_major_swap_timestamp));
                    }
                } else {
                    acc.count("major_swap_indifference_band");
                }
            }
            let _ = set;
            acc.situation(format!("{name}:{}:{elapsed_class}:cf{}:sat{}:steps{}", begin.a_to_b, (c.adaptive_fee_control_factor > 0) as u8, saw_saturated as u8, super::bucket(steps.len())));
        }
    }
}
