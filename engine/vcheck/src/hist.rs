//! History workload H: a seeded scenario followed by a hostile mix of operations, with
//! monitors attached. Roughly a third of the generated operations are expected to fail;
//! failing operations are part of the workload.
use crate::codec::{self, MAX_SQRT_PRICE_X64, MAX_TICK_INDEX, MIN_SQRT_PRICE_X64, MIN_TICK_INDEX};
use crate::ix::build as b;
use crate::ix::Ix;
use crate::report::Acc;
use crate::rnd::{self, R};
use crate::world::*;
use rand::Rng;
use serde_json::{json, Value};
use solana_program::pubkey::Pubkey;
use whirlpool::math::sqrt_price_from_tick_index;

pub fn ec(e: whirlpool::errors::ErrorCode) -> u32 {
    6000 + e as u32
}

pub trait Monitor {
    /// Called after every instruction of the history (successful or not).
    fn after(&mut self, w: &mut World, obs: &Obs, acc: &mut Acc);
    /// Called once at the end of the history.
    fn end(&mut self, _w: &mut World, _acc: &mut Acc) {}
    /// state-seeding notification (pool bytes were overwritten by the scenario builder)
    fn seeded(&mut self, _w: &mut World, _pool: usize) {}
}

#[derive(Clone, Debug)]
pub struct HistCfg {
    pub ops: usize,
    pub pools: usize,
    /// restrict to plain SPL mints
    pub spl_only: bool,
    /// probability weights
    pub w_swap: u32,
    pub w_liq: u32,
    pub w_fees: u32,
    pub w_clock: u32,
    pub w_lifecycle: u32,
    pub w_reward: u32,
    pub w_setters: u32,
    pub w_two_hop: u32,
    /// one actor swapping back and forth several times in a row
    pub w_trader: u32,
    /// sustained high-frequency major swaps on an adaptive pool for more than an hour
    pub w_burst: u32,
    pub allow_adaptive: bool,
    pub allow_transfer_fee: bool,
    /// seed fee growth accumulators of empty pools to arbitrary values
    pub seed_growth: bool,
    /// every pool is an adaptive-fee pool (C14)
    pub all_adaptive: bool,
    /// extended lifecycle operations: sentinel bounds, metadata, lock / transfer-locked, reset, reposition, bundles
    pub lifecycle_ext: bool,
    /// position token accounts get delegates (another user or the owner itself, amounts 0 / 1 / 2 / max) and lose them again
    pub delegates: bool,
    /// half of the plain Token-2022 mints carry a transfer-hook extension that names no program (with a token badge)
    pub idle_hooks: bool,
    pub spacings: Vec<u16>,
}
impl Default for HistCfg {
    fn default() -> Self {
        HistCfg {
            ops: 120,
            pools: 2,
            spl_only: true,
            w_swap: 40,
            w_liq: 30,
            w_fees: 12,
            w_clock: 4,
            w_lifecycle: 6,
            w_reward: 0,
            w_setters: 2,
            w_two_hop: 0,
            w_trader: 0,
            w_burst: 0,
            allow_adaptive: false,
            allow_transfer_fee: false,
            seed_growth: false,
            all_adaptive: false,
            lifecycle_ext: false,
            delegates: false,
            idle_hooks: false,
            spacings: vec![1, 8, 64, 120, 128, 256, 32768, 32896],
        }
    }
}

/// Log of the operations of one history (for replay files).
#[derive(Default)]
pub struct OpLog {
    pub entries: Vec<Value>,
}

pub struct Hist {
    pub cfg: HistCfg,
    pub log: OpLog,
    pub scenario: Value,
    /// (bundle mint, bundle token account, owner user index)
    pub bundles: Vec<(Pubkey, Pubkey, usize)>,
}

fn usable(t: i32, s: u16) -> i32 {
    let s = s as i32;
    let t = t.clamp(MIN_TICK_INDEX, MAX_TICK_INDEX);
    let mut r = t.div_euclid(s) * s;
    if r < MIN_TICK_INDEX {
        r += s;
    }
    r
}

pub fn full_range(s: u16) -> (i32, i32) {
    let s = s as i32;
    (MIN_TICK_INDEX / s * s, MAX_TICK_INDEX / s * s)
}

pub fn ix_brief(ix: &Ix) -> Value {
    json!({"name": ix.name, "data_hex": hex(&ix.data), "accounts": ix.metas.iter().map(|m| format!("{}={}{}{}", m.name, m.key, if m.signer {":s"} else {""}, if m.writable {":w"} else {""})).collect::<Vec<_>>() })
}
pub fn hex(d: &[u8]) -> String {
    d.iter().map(|b| format!("{b:02x}")).collect()
}

impl Hist {
    /// Build a scenario in `w` according to cfg.
    pub fn scenario(w: &mut World, cfg: &HistCfg, monitors: &mut [Box<dyn Monitor>]) -> Hist {
        let mut desc = vec![];
        let dpf = *rnd::pick(&mut w.r, &[0u16, 1, 300, 2500, 1000]);
        // one scenario in four first asks for a deployment whose default protocol fee rate is out of bounds; the program
        // must refuse - if it does not, the history runs on that deployment, so that whatever follows from it shows
        let hostile = if rnd::chance(&mut w.r, 1, 4) {
            let bad = *rnd::pick(&mut w.r, &[2501u16, 9999, 10000, 10001, 30000, 65535]);
            w.try_add_config(bad)
        } else {
            None
        };
        let c = match hostile {
            Some(c) => c,
            None => w.add_config(dpf),
        };
        for _ in 0..3 {
            w.add_user();
        }
        for pi in 0..cfg.pools {
            let sp = *rnd::pick(&mut w.r, &cfg.spacings);
            let fee = *rnd::pick(&mut w.r, &[0u16, 1, 100, 3000, 10000, 60000]);
            let mk = |w: &mut World| -> Pubkey {
                if cfg.spl_only || !rnd::chance(&mut w.r, 1, 2) {
                    w.add_spl_mint(6)
                } else if cfg.allow_transfer_fee && rnd::chance(&mut w.r, 2, 3) {
                    let bps = *rnd::pick(&mut w.r, &[0u16, 1, 50, 100, 1000, 5000, 9999, 10000]);
                    let maxf = *rnd::pick(&mut w.r, &[0u64, 1, 1000, 1_000_000, u64::MAX]);
                    let bps2 = *rnd::pick(&mut w.r, &[0u16, 30, 300, 10000]);
                    let maxf2 = *rnd::pick(&mut w.r, &[5u64, 5000, u64::MAX]);
                    let newer_epoch = *rnd::pick(&mut w.r, &[0u64, 10, 11, 1000]);
                    w.add_t22_mint(6, Some(((bps, maxf, 0), (bps2, maxf2, newer_epoch))))
                } else if cfg.idle_hooks && rnd::chance(&mut w.r, 2, 3) {
                    // a mint whose transfer-hook extension names no program, admitted by a token badge
                    let m = w.add_t22_mint_idle_hook(6);
                    w.add_token_badge(c, m);
                    m
                } else {
                    w.add_t22_mint(6, None)
                }
            };
            // pools share a mint with the previous pool (two-hop needs it)
            let m1 = if pi > 0 && rnd::chance(&mut w.r, 3, 4) { w.pools[pi - 1].mint_b } else { mk(w) };
            // one pool in six over BOTH mints of the previous pool (another fee tier): two-hops between pools that share both mints
            let twin = pi > 0 && rnd::chance(&mut w.r, 1, 6) && cfg.spacings.iter().any(|s| *s != w.pools[pi - 1].tick_spacing);
            let (m1, m2, sp) = if twin {
                let prev = w.pools[pi - 1].clone();
                let others: Vec<u16> = cfg.spacings.iter().copied().filter(|s| *s != prev.tick_spacing).collect();
                (prev.mint_a, prev.mint_b, *rnd::pick(&mut w.r, &others))
            } else {
                (m1, mk(w), sp)
            };
            let price = match w.r.gen_range(0..10) {
                0 => MIN_SQRT_PRICE_X64 + w.r.gen_range(0..1u128 << 20),
                1 => MAX_SQRT_PRICE_X64 - w.r.gen_range(0..1u128 << 70),
                2 | 3 => sqrt_price_from_tick_index(usable(rnd::tick(&mut w.r), sp)),
                4 | 5 | 6 => {
                    // moderate prices where both tokens have sensible magnitudes
                    let t = w.r.gen_range(-100_000..100_000);
                    let p = sqrt_price_from_tick_index(t);
                    p + w.r.gen_range(0..p >> 20)
                }
                _ => rnd::sqrt_price(&mut w.r),
            };
            let v2 = w.r.gen();
            let adaptive = cfg.allow_adaptive && (cfg.all_adaptive || rnd::chance(&mut w.r, 1, 2));
            let res = if adaptive {
                let gs_opts: Vec<u16> = (1..=sp.min(4096)).filter(|g| sp % g == 0).collect();
                let gs = *rnd::pick(&mut w.r, &gs_opts);
                let max_acc = (*rnd::pick(&mut w.r, &[10_000u32, 50_000, 350_000, 1_000_000])).min(u32::MAX / gs as u32);
                let consts = (
                    *rnd::pick(&mut w.r, &[1u16, 30, 60]),
                    *rnd::pick(&mut w.r, &[61u16, 600, 3000, 5000, 65535]),
                    *rnd::pick(&mut w.r, &[0u16, 500, 5000, 9999]),
                    *rnd::pick(&mut w.r, &[0u32, 1, 1000, 4000, 99_999]),
                    max_acc,
                    gs,
                    *rnd::pick(&mut w.r, &[1u16, sp, (sp as u32 * 88).min(65535) as u16]),
                );
                // the fee-tier index is a free label: also on the other side of 2^15 than the tick spacing
                // (full-range-only is a matter of the spacing, never of the index)
                let idx = match w.r.gen_range(0..4) {
                    0 => 40_000 + pi as u16 * 7 + sp % 5,
                    // small indexes: 1, 2, 8, 32 by pool number (never the spacing itself)
                    1 => { let i = [1u16, 2, 8, 32][pi % 4]; if i == sp { i + 1 } else { i } }
                    _ => 1024 + pi as u16 * 7 + sp % 5,
                };
                let now = w.now() as u64;
                let enable = match w.r.gen_range(0..6) {
                    0 => Some(now + *rnd::pick(&mut w.r, &[1u64, 60, 3600, 100_000])),
                    1 => Some(now - w.r.gen_range(0..30)),
                    _ => None,
                };
                w.add_adaptive_pool(c, m1, m2, idx, sp, fee, consts, price, enable)
            } else {
                w.add_pool(c, m1, m2, sp, fee, price, v2)
            };
            match res {
                Ok(p) => {
                    desc.push(json!({"pool": p, "tick_spacing": sp, "fee_rate": fee, "sqrt_price": price.to_string(), "adaptive": adaptive, "v2": v2}));
                    if cfg.seed_growth && rnd::chance(&mut w.r, 2, 3) {
                        if cfg.w_reward > 0 && w.r.gen() {
                            // rewards that exist before the first position, so that their accumulators can be seeded too
                            for idx in 0..w.r.gen_range(1..=3u8) {
                                let mint = w.add_spl_mint(6);
                                let (ix, vault) = w.init_reward_ix(p, idx, mint);
                                if w.exec(ix).ok() {
                                    w.set_token_balance(vault, u64::MAX / 8);
                                    w.pools[p].rewards.push((mint, vault));
                                    if w.r.gen() {
                                        let e = rnd::log_u128(&mut w.r, 100);
                                        let ix = w.set_emissions_ix(p, idx, e);
                                        let _ = w.exec(ix);
                                    }
                                }
                            }
                        }
                        seed_pool_growth(w, p);
                        for m in monitors.iter_mut() {
                            m.seeded(w, p);
                        }
                    }
                }
                Err(o) => {
                    desc.push(json!({"pool_init_failed": format!("{:?}", o.out.err)}));
                }
            }
        }
        Hist { cfg: cfg.clone(), log: OpLog::default(), scenario: json!(desc), bundles: vec![] }
    }

    fn record(&mut self, obs: &Obs) {
        self.log.entries.push(json!({
            "op": ix_brief(&obs.ix),
            "result": match &obs.out.err { None => "ok".to_string(), Some(e) => format!("{e:?}") },
        }));
    }

    pub fn replay_value(&self, w: &World, seed: u64) -> Value {
        let n = self.log.entries.len();
        json!({
            "shard_seed": seed,
            "scenario": self.scenario,
            "clock": w.now(),
            "ops_total": n,
        })
    }

    /// Execute one instruction on the live world and feed the monitors.
    /// One instruction in twenty that names a vault of a pool which owns ANOTHER token account of the same mint
    /// (a reward paid in one of the pool's own tokens, two rewards in the same token) names that sibling
    /// instead: same mint, same authority, wrong account - the program must refuse.
    fn maybe_sibling_vault(w: &mut World, mut ix: Ix, acc: &mut Acc) -> Ix {
        if w.pools.iter().all(|p| p.rewards.is_empty()) || !rnd::chance(&mut w.r, 1, 20) {
            return ix;
        }
        let mut options: Vec<(usize, Pubkey)> = vec![];
        for (mi, m) in ix.metas.iter().enumerate() {
            if !m.name.contains("vault") {
                continue;
            }
            for p in &w.pools {
                let owned: Vec<(Pubkey, Pubkey)> = [(p.mint_a, p.vault_a), (p.mint_b, p.vault_b)].into_iter().chain(p.rewards.iter().copied()).collect();
                if let Some((mint, _)) = owned.iter().find(|(_, k)| *k == m.key) {
                    for (m2, k2) in &owned {
                        if m2 == mint && *k2 != m.key {
                            options.push((mi, *k2));
                        }
                    }
                }
            }
        }
        if options.is_empty() {
            return ix;
        }
        let (mi, k) = *rnd::pick(&mut w.r, &options);
        ix.metas[mi].key = k;
        acc.count("sibling_vault_substitutions");
        ix
    }

    /// One v2 liquidity instruction in twenty-five carries remaining-accounts information made of ONE ZERO-LENGTH slice
    /// of an arbitrary accounts type (also types that make no sense for the instruction, and unknown type numbers):
    /// whatever the program decides, both implementations decide the same.
    fn maybe_empty_slice(w: &mut World, mut ix: Ix, acc: &mut Acc) -> Ix {
        const V2: [&str; 4] = ["increase_liquidity_v2", "decrease_liquidity_v2", "increase_liquidity_by_token_amounts_v2", "reposition_liquidity_v2"];
        if !V2.contains(&ix.name) || ix.data.last() != Some(&0) || !rnd::chance(&mut w.r, 1, 25) {
            return ix;
        }
        let ty: u8 = w.r.gen_range(0..10);
        ix.data.pop();
        ix.data.push(1);
        ix.data.extend_from_slice(&1u32.to_le_bytes());
        ix.data.push(ty);
        ix.data.push(0);
        acc.count("v2_liquidity_ix_with_an_empty_slice");
        ix
    }

    /// One liquidity instruction (or fee-and-reward update) in twenty names, in ONE of its two tick-array slots, the tick
    /// array that ANOTHER pool keeps at the same start index (created on the spot where that pool's spacing admits the
    /// start index): whichever of the two slots it is, the instruction must be refused.
    fn maybe_foreign_tick_array(w: &mut World, mut ix: Ix, acc: &mut Acc) -> Ix {
        const NAMES: [&str; 6] = ["increase_liquidity", "decrease_liquidity", "increase_liquidity_v2", "decrease_liquidity_v2", "increase_liquidity_by_token_amounts_v2", "update_fees_and_rewards"];
        if !NAMES.contains(&ix.name) || w.pools.len() < 2 || !rnd::chance(&mut w.r, 1, 20) {
            return ix;
        }
        let (Some(il), Some(iu), Some(ip)) = (ix.slot("tick_array_lower"), ix.slot("tick_array_upper"), ix.slot("whirlpool")) else { return ix };
        if ix.metas[il].key == ix.metas[iu].key {
            return ix;
        }
        let which = if w.r.gen() { iu } else { il };
        let Some(Ok(ta)) = w.bank.data(&ix.metas[which].key).and_then(codec::TickArray::decode) else { return ix };
        let pool_key = ix.metas[ip].key;
        let start = ta.start_tick_index;
        let others: Vec<usize> = (0..w.pools.len()).filter(|q| w.pools[*q].key != pool_key && start % (88 * w.pools[*q].tick_spacing as i32) == 0).collect();
        if others.is_empty() {
            return ix;
        }
        let q = *rnd::pick(&mut w.r, &others);
        let dynamic = w.r.gen();
        let foreign = w.ensure_tick_array(q, start, dynamic);
        if w.bank.get(&foreign).is_some() {
            ix.metas[which].key = foreign;
            acc.count("liquidity_ix_naming_another_pools_tick_array");
        }
        ix
    }

    /// One swap / two-hop in twenty-five names the pool's own vault as the trader's account on the side that pays in
    /// (same mint, so the account constraint is met): the token program refuses the transfer, so the instruction fails.
    fn maybe_vault_as_trader_account(w: &mut World, mut ix: Ix, acc: &mut Acc) -> Ix {
        if !ix.name.contains("swap") || !rnd::chance(&mut w.r, 1, 25) {
            return ix;
        }
        // only the side that pays IN (naming the vault on the receiving side is the trader's business: a self-transfer)
        let pair: Option<(&str, &str)> = match ix.name {
            "swap" | "swap_v2" if ix.data.len() > 41 => Some(if ix.data[41] != 0 { ("token_owner_account_a", "token_vault_a") } else { ("token_owner_account_b", "token_vault_b") }),
            "two_hop_swap_v2" => Some(("token_owner_account_input", "token_vault_one_input")),
            _ => None,
        };
        if let Some((own, vault)) = pair {
            if let (Some(i), Some(j)) = (ix.slot(own), ix.slot(vault)) {
                ix.metas[i].key = ix.metas[j].key;
                acc.count("swaps_naming_a_vault_as_the_traders_account");
            }
        }
        ix
    }

    pub fn step(&mut self, w: &mut World, ix: Ix, monitors: &mut [Box<dyn Monitor>], acc: &mut Acc) -> Obs {
        let ix = Self::maybe_sibling_vault(w, ix, acc);
        let ix = Self::maybe_vault_as_trader_account(w, ix, acc);
        let ix = Self::maybe_empty_slice(w, ix, acc);
        let ix = Self::maybe_foreign_tick_array(w, ix, acc);
        let obs = w.exec(ix);
        acc.evaluations += 1;
        acc.count(if obs.ok() { "ix_ok" } else { "ix_failed" });
        acc.count(&format!("ix:{}:{}", obs.ix.name, if obs.ok() { "ok" } else { "err" }));
        if let Some(crate::svm::TxErr::Panic(_)) = &obs.out.err {
            acc.count("contained_panics");
        }
        self.record(&obs);
        let before = acc.violations.len();
        for m in monitors.iter_mut() {
            m.after(w, &obs, acc);
        }
        if acc.violations.len() > before {
            let n = self.log.entries.len();
            let ctx = json!({"op_index": n - 1, "clock": w.now(), "preceding_ops": self.log.entries[n.saturating_sub(16)..].to_vec()});
            for v in acc.violations[before..].iter_mut() {
                v.replay = json!({"at": v.replay, "context": ctx});
            }
        }
        obs
    }

    pub fn run(&mut self, w: &mut World, monitors: &mut [Box<dyn Monitor>], acc: &mut Acc) {
        if w.pools.is_empty() {
            return;
        }
        // initial positions so that swaps have something to trade against
        for p in 0..w.pools.len() {
            let n = w.r.gen_range(2..=5);
            for _ in 0..n {
                self.op_open_and_fund(w, p, monitors, acc);
            }
        }
        let cfg = self.cfg.clone();
        let total = cfg.w_swap + cfg.w_liq + cfg.w_fees + cfg.w_clock + cfg.w_lifecycle + cfg.w_reward + cfg.w_setters + cfg.w_two_hop + cfg.w_trader + cfg.w_burst;
        for _ in 0..cfg.ops {
            let mut x = w.r.gen_range(0..total);
            let p = w.r.gen_range(0..w.pools.len());
            macro_rules! pick {
                ($wt:expr, $body:block) => {
                    if x < $wt {
                        $body;
                        continue;
                    }
                    #[allow(unused_assignments)]
                    {
                        x -= $wt;
                    }
                };
            }
            pick!(cfg.w_swap, { self.op_swap(w, p, monitors, acc) });
            pick!(cfg.w_liq, { self.op_liquidity(w, p, monitors, acc) });
            pick!(cfg.w_fees, { self.op_fees(w, p, monitors, acc) });
            pick!(cfg.w_clock, {
                let dt = *rnd::pick(&mut w.r, &[0i64, 1, 1, 30, 59, 60, 61, 600, 3599, 3600, 3601, 86_400, 1_000_000, 1, 60, 3600, 2_147_483_648, 4_294_967_301]);
                w.advance_clock(dt);
                acc.count("clock_advance");
                // on transfer-fee workloads the epoch sometimes moves to just before / exactly / just after the epoch in
                // which a pool mint's newer fee schedule starts (epochs only move forward)
                if cfg.allow_transfer_fee && rnd::chance(&mut w.r, 1, 3) {
                    use spl_token_2022::extension::{transfer_fee::TransferFeeConfig, BaseStateWithExtensions, StateWithExtensions};
                    let mut starts: Vec<u64> = vec![];
                    for pl in &w.pools {
                        for m in [pl.mint_a, pl.mint_b] {
                            if let Some(a) = w.bank.get(&m) {
                                if a.owner == TOKEN22 {
                                    if let Ok(st) = StateWithExtensions::<spl_token_2022::state::Mint>::unpack(&a.data) {
                                        if let Ok(c) = st.get_extension::<TransferFeeConfig>() {
                                            starts.push(u64::from(c.newer_transfer_fee.epoch));
                                        }
                                    }
                                }
                            }
                        }
                    }
                    if !starts.is_empty() {
                        let e = *rnd::pick(&mut w.r, &starts);
                        let target = (e as i64 + *rnd::pick(&mut w.r, &[-1i64, 0, 0, 1])).max(0) as u64;
                        if target > w.bank.clock.epoch {
                            w.bank.clock.epoch = target;
                            acc.count("epoch_moved_to_a_fee_schedule_switch");
                        }
                    }
                }
            });
            pick!(cfg.w_lifecycle, {
                if cfg.delegates && rnd::chance(&mut w.r, 1, 4) {
                    self.op_delegate(w, p, acc)
                } else if cfg.lifecycle_ext && w.r.gen() {
                    self.op_lifecycle_ext(w, p, monitors, acc)
                } else {
                    self.op_lifecycle(w, p, monitors, acc)
                }
            });
            pick!(cfg.w_reward, { self.op_reward(w, p, monitors, acc) });
            pick!(cfg.w_setters, { self.op_setters(w, p, monitors, acc) });
            pick!(cfg.w_two_hop, { self.op_two_hop(w, monitors, acc) });
            pick!(cfg.w_trader, { self.op_trader_segment(w, p, monitors, acc) });
            pick!(cfg.w_burst, { self.op_hf_burst(w, monitors, acc) });
        }
        for m in monitors.iter_mut() {
            m.end(w, acc);
        }
    }

    // ------------------------------------------------------------------ ranges
    pub fn gen_range(&self, w: &mut World, p: usize) -> (i32, i32) {
        let st = w.pool_state(p);
        let s = st.tick_spacing;
        let si = s as i32;
        if s >= codec::FULL_RANGE_ONLY_TICK_SPACING_THRESHOLD {
            // mostly the only admissible range; otherwise ranges that miss both bounds or keep exactly one of them
            let (fl, fu) = full_range(s);
            return match w.r.gen_range(0..10) {
                0 => (0, si),
                1 => (fl, *rnd::pick(&mut w.r, &[0, si, -si, fu - si])),
                2 => (*rnd::pick(&mut w.r, &[0, si, -si, fl + si]), fu),
                _ => (fl, fu),
            };
        }
        let tc = st.tick_current_index;
        let others: Vec<(i32, i32)> = w.positions.iter().filter(|q| q.pool == p && !q.closed).map(|q| (q.lower, q.upper)).collect();
        let width = |r: &mut R| -> i32 {
            match r.gen_range(0..6) {
                0 => 1,
                1 => 2,
                2 => r.gen_range(1..20),
                3 => r.gen_range(20..120),
                4 => 87,
                _ => r.gen_range(1..400),
            }
        };
        let (mut lo, mut hi) = match w.r.gen_range(0..12) {
            0 => full_range(s),
            1 if !others.is_empty() => {
                // share a bound
                let o = *rnd::pick(&mut w.r, &others);
                if w.r.gen() { (o.0, o.0 + width(&mut w.r) * si) } else { (o.1 - width(&mut w.r) * si, o.1) }
            }
            2 if !others.is_empty() => {
                // adjacent
                let o = *rnd::pick(&mut w.r, &others);
                if w.r.gen() { (o.1, o.1 + width(&mut w.r) * si) } else { (o.0 - width(&mut w.r) * si, o.0) }
            }
            3 if !others.is_empty() => {
                // nested
                let o = *rnd::pick(&mut w.r, &others);
                let n = ((o.1 - o.0) / si).max(1);
                let a = w.r.gen_range(0..n);
                let bnd = w.r.gen_range(a + 1..=n);
                (o.0 + a * si, o.0 + bnd * si)
            }
            4 => {
                // first / last slot of an array
                let a = array_start(tc, s);
                (a, a + 87 * si)
            }
            5 => {
                // lower bound exactly on the (aligned) current tick
                let l = usable(tc, s);
                (l, l + width(&mut w.r) * si)
            }
            6 => {
                // upper bound exactly on the (aligned) current tick
                let u = usable(tc, s);
                (u - width(&mut w.r) * si, u)
            }
            7 => {
                // entirely above
                let l = usable(tc, s) + w.r.gen_range(1..50) * si;
                (l, l + width(&mut w.r) * si)
            }
            8 => {
                // entirely below
                let u = usable(tc, s) - w.r.gen_range(0..50) * si;
                (u - width(&mut w.r) * si, u)
            }
            _ => {
                let l = usable(tc, s) - w.r.gen_range(0..60) * si;
                let u = usable(tc, s) + w.r.gen_range(1..60) * si;
                (l, u)
            }
        };
        lo = usable(lo, s);
        hi = usable(hi, s);
        if lo >= hi {
            if hi + si <= MAX_TICK_INDEX {
                hi = lo + si;
            } else {
                lo = hi - si;
            }
        }
        (usable(lo, s), usable(hi, s))
    }

    pub fn gen_liquidity(&self, w: &mut World, p: usize) -> u128 {
        let st = w.pool_state(p);
        match w.r.gen_range(0..10) {
            0 => 1,
            1 => w.r.gen_range(1..1000),
            2 if st.liquidity > 0 => st.liquidity,
            3 | 4 => rnd::log_u128(&mut w.r, 100).max(1),
            // exact multiples of 2^64 (the low 64 bits are zero)
            5 => (w.r.gen_range(1..4u128)) << 64,
            _ => rnd::log_u128(&mut w.r, 50).max(1),
        }
    }

    // ------------------------------------------------------------------ operations
    pub fn op_open_and_fund(&mut self, w: &mut World, p: usize, monitors: &mut [Box<dyn Monitor>], acc: &mut Acc) -> Option<usize> {
        let (lo, hi) = self.gen_range(w, p);
        let u = w.r.gen_range(0..w.users.len());
        let te = w.r.gen();
        let (ix, info) = w.open_position_ix(p, u, lo, hi, te);
        let o = self.step(w, ix, monitors, acc);
        if !o.ok() {
            return None;
        }
        w.positions.push(info);
        let i = w.positions.len() - 1;
        let dynamic = w.r.gen();
        w.ensure_tick_array(p, lo, dynamic);
        let dynamic = w.r.gen();
        w.ensure_tick_array(p, hi, dynamic);
        let l = self.gen_liquidity(w, p);
        self.increase(w, i, l, monitors, acc);
        Some(i)
    }

    pub fn increase(&mut self, w: &mut World, i: usize, l: u128, monitors: &mut [Box<dyn Monitor>], acc: &mut Acc) -> Obs {
        let p = w.positions[i].pool;
        let mut ix = if w.pool_is_spl(p) && w.r.gen() {
            w.modify_v1(i).increase_liquidity(l, u64::MAX, u64::MAX)
        } else {
            w.modify_v2(i).increase_liquidity_v2(l, u64::MAX, u64::MAX, None)
        };
        // one time in fifteen the client names the NEIGHBOURING tick array (one array above or below the right one) for
        // one of the bounds: the tick is not in that array, the instruction must fail
        if rnd::chance(&mut w.r, 1, 15) {
            let pi = w.positions[i].clone();
            let tia = 88 * w.pools[p].tick_spacing as i32;
            let (slot, tick) = if w.r.gen() { ("tick_array_lower", pi.lower) } else { ("tick_array_upper", pi.upper) };
            let off = if w.r.gen() { tia } else { -tia };
            let t = tick as i64 + off as i64;
            if t >= MIN_TICK_INDEX as i64 - tia as i64 && t <= MAX_TICK_INDEX as i64 && ix.slot(slot).is_some() {
                let dynamic = w.r.gen();
                let key = w.ensure_tick_array(p, (t as i32).clamp(MIN_TICK_INDEX, MAX_TICK_INDEX), dynamic);
                if key != ix.key(slot) {
                    ix = ix.with_key(slot, key);
                    acc.count("liquidity_ix_naming_a_neighbouring_tick_array");
                }
            }
        }
        self.step(w, ix, monitors, acc)
    }

    fn live_positions(&self, w: &World, p: usize) -> Vec<usize> {
        w.positions.iter().enumerate().filter(|(_, q)| q.pool == p && !q.closed).map(|(i, _)| i).collect()
    }

    /// Initialise a tick array that already exists (either instruction, idempotent or not): an error or a no-op.
    pub fn op_reinitialize_tick_array(&mut self, w: &mut World, p: usize, monitors: &mut [Box<dyn Monitor>], acc: &mut Acc) {
        use solana_program::system_program;
        let arrays: Vec<(i32, Pubkey)> = World::scan_tick_arrays(&w.bank, &w.pools[p].key).into_iter().map(|(s, (k, _))| (s, k)).collect();
        if arrays.is_empty() {
            return;
        }
        let (start, key) = *rnd::pick(&mut w.r, &arrays);
        let pool = w.pools[p].key;
        let ix = if rnd::chance(&mut w.r, 2, 3) {
            b::InitializeDynamicTickArray { whirlpool: pool, funder: ADMIN, tick_array: key, system_program: system_program::ID }.ix(start, rnd::chance(&mut w.r, 3, 4))
        } else {
            b::InitializeTickArray { whirlpool: pool, funder: ADMIN, tick_array: key, system_program: system_program::ID }.ix(start)
        };
        acc.count("tick_array_reinitialisations_attempted");
        self.step(w, ix, monitors, acc);
    }

    /// A client tries to create a tick array at a start index that is NOT a multiple of 88 x spacing (a multiple of the
    /// spacing only, of 88 only, of their least common multiple, just below the supported range, out of range), placed
    /// so that it would contain a bound of a live position. Must be refused; if it is not, clients go on to use it.
    pub fn op_hostile_tick_array_init(&mut self, w: &mut World, p: usize, monitors: &mut [Box<dyn Monitor>], acc: &mut Acc) {
        use solana_program::system_program;
        let sp = w.pools[p].tick_spacing as i64;
        let tia = 88 * sp;
        let live = self.live_positions(w, p);
        let t: i64 = if live.is_empty() {
            w.pool_state(p).tick_current_index as i64
        } else {
            let pi = &w.positions[*rnd::pick(&mut w.r, &live)];
            (if w.r.gen() { pi.lower } else { pi.upper }) as i64
        };
        let gcd = |mut a: i64, mut b: i64| { while b != 0 { let x = a % b; a = b; b = x; } a };
        let lcm = sp / gcd(sp, 88) * 88;
        let mut cands: Vec<i64> = vec![
            t.div_euclid(88) * 88,
            t.div_euclid(lcm) * lcm,
            t - sp * w.r.gen_range(0..88),
            t.div_euclid(sp) * sp,
            (MIN_TICK_INDEX as i64).div_euclid(sp) * sp,
            (MIN_TICK_INDEX as i64).div_euclid(sp) * sp - sp * w.r.gen_range(0..20),
            (MAX_TICK_INDEX as i64).div_euclid(tia) * tia + tia,
            t.div_euclid(tia) * tia + 1,
        ];
        // (a pool's fee-tier index is a label, not a spacing: starts aligned to 88 x index instead of 88 x spacing)
        let fti = w.pools[p].fee_tier_index as i64;
        if fti > 0 && fti != sp {
            cands.push(t.div_euclid(88 * fti) * 88 * fti);
            cands.push((t.div_euclid(88 * fti) + 1) * 88 * fti);
        }
        cands.retain(|s| s.rem_euclid(tia) != 0 && *s > i32::MIN as i64 / 2 && *s < i32::MAX as i64 / 2);
        if cands.is_empty() {
            return;
        }
        let start = *rnd::pick(&mut w.r, &cands) as i32;
        let pool = w.pools[p].key;
        let key = w.tick_array_key(p, start);
        let ix = if w.r.gen() {
            b::InitializeDynamicTickArray { whirlpool: pool, funder: ADMIN, tick_array: key, system_program: system_program::ID }.ix(start, false)
        } else {
            b::InitializeTickArray { whirlpool: pool, funder: ADMIN, tick_array: key, system_program: system_program::ID }.ix(start)
        };
        acc.count("tick_array_inits_at_invalid_start");
        let o = self.step(w, ix, monitors, acc);
        if o.ok() {
            acc.count("tick_array_inits_at_invalid_start_accepted");
            w.rogue_arrays.push((p, start));
        }
    }

    pub fn op_liquidity(&mut self, w: &mut World, p: usize, monitors: &mut [Box<dyn Monitor>], acc: &mut Acc) {
        if rnd::chance(&mut w.r, 1, 25) {
            return if w.r.gen() { self.op_reinitialize_tick_array(w, p, monitors, acc) } else { self.op_hostile_tick_array_init(w, p, monitors, acc) };
        }
        let live = self.live_positions(w, p);
        if live.is_empty() || rnd::chance(&mut w.r, 1, 5) {
            self.op_open_and_fund(w, p, monitors, acc);
            return;
        }
        let i = *rnd::pick(&mut w.r, &live);
        let pos = codec::Position::decode(w.bank.data(&w.positions[i].position).unwrap_or(&[])).unwrap_or_default();
        match w.r.gen_range(0..10) {
            0..=3 => {
                let l = self.gen_liquidity(w, p);
                self.increase(w, i, l, monitors, acc);
            }
            4 => {
                // by token amounts
                let st = w.pool_state(p);
                let (ma, mb) = (rnd::log_u64(&mut w.r).max(1), rnd::log_u64(&mut w.r).max(1));
                let (lo, hi) = match w.r.gen_range(0..4) {
                    0 => (MIN_SQRT_PRICE_X64, MAX_SQRT_PRICE_X64),
                    1 => (st.sqrt_price, st.sqrt_price),
                    2 => (st.sqrt_price - (st.sqrt_price >> 10), st.sqrt_price + (st.sqrt_price >> 10)),
                    _ => (st.sqrt_price + 1, MAX_SQRT_PRICE_X64),
                };
                let ix = w.modify_v2(i).increase_liquidity_by_token_amounts_v2(
                    b::IncreaseLiquidityMethod::ByTokenAmounts { token_max_a: ma, token_max_b: mb, min_sqrt_price: lo.max(MIN_SQRT_PRICE_X64), max_sqrt_price: hi.min(MAX_SQRT_PRICE_X64) },
                    None,
                );
                self.step(w, ix, monitors, acc);
            }
            _ => {
                let l = match w.r.gen_range(0..7) {
                    0 => pos.liquidity,
                    1 => pos.liquidity / 2,
                    2 => 1,
                    3 => pos.liquidity.saturating_add(1),
                    4 => 0,
                    // amounts that do not fit a signed 128-bit delta (must fail, never turn into a deposit)
                    5 => *rnd::pick(&mut w.r, &[u128::MAX, u128::MAX - 1, u128::MAX - pos.liquidity, (1u128 << 127) + 1, 1u128 << 127, (1u128 << 127) - 1, u128::MAX - (1u128 << 40)]),
                    _ => {
                        if pos.liquidity > 0 { w.r.gen_range(1..=pos.liquidity) } else { 1 }
                    }
                };
                let ix = if w.pool_is_spl(p) && w.r.gen() {
                    w.modify_v1(i).decrease_liquidity(l, 0, 0)
                } else {
                    w.modify_v2(i).decrease_liquidity_v2(l, 0, 0, None)
                };
                self.step(w, ix, monitors, acc);
            }
        }
    }

    /// Generate swap parameters: (amount, limit, exact_in, a_to_b)
    pub fn gen_swap(&self, w: &mut World, p: usize) -> (u64, u128, bool, bool) {
        let st = w.pool_state(p);
        let s = st.tick_spacing as i32;
        let a_to_b: bool = w.r.gen();
        let exact_in = rnd::chance(&mut w.r, 2, 3);
        // price limit
        let dir = if a_to_b { -1 } else { 1 };
        let limit_tick = |r: &mut R, k: i32| -> u128 {
            let t = (usable(st.tick_current_index, st.tick_spacing) + dir * k * s).clamp(MIN_TICK_INDEX, MAX_TICK_INDEX);
            let _ = r;
            sqrt_price_from_tick_index(t)
        };
        let inits: Vec<i32> = World::scan_tick_arrays(&w.bank, &w.pools[p].key)
            .values()
            .filter_map(|(_, r)| r.as_ref().ok())
            .flat_map(|ta| ta.ticks.iter().enumerate().filter(|(_, t)| t.initialized).map(|(i, _)| ta.start_tick_index + i as i32 * s).collect::<Vec<_>>())
            .filter(|t| if a_to_b { *t <= st.tick_current_index } else { *t > st.tick_current_index })
            .collect();
        let mut limit = match w.r.gen_range(0..12) {
            0 | 1 | 2 => 0,
            3 => if a_to_b { MIN_SQRT_PRICE_X64 } else { MAX_SQRT_PRICE_X64 },
            4 | 5 if !inits.is_empty() => {
                // exactly on an initialised tick in the path
                let mut c = inits.clone();
                c.sort();
                if a_to_b { c.reverse(); }
                let k = w.r.gen_range(0..c.len().min(4));
                sqrt_price_from_tick_index(c[k])
            }
            6 => {
                let k = w.r.gen_range(1..4);
                limit_tick(&mut w.r, k)
            }
            7 => {
                let k = w.r.gen_range(4..300);
                limit_tick(&mut w.r, k)
            }
            8 => {
                // inside the current segment: a small relative move
                let d = (st.sqrt_price >> w.r.gen_range(14..40)).max(1);
                if a_to_b { st.sqrt_price.saturating_sub(d) } else { st.sqrt_price.saturating_add(d) }
            }
            9 => {
                // wrong direction / equal (must fail)
                if w.r.gen() { st.sqrt_price } else if a_to_b { st.sqrt_price + 1 } else { st.sqrt_price.saturating_sub(1) }
            }
            _ => {
                let k = w.r.gen_range(1..90);
                limit_tick(&mut w.r, k)
            }
        };
        if limit != 0 {
            limit = limit.clamp(MIN_SQRT_PRICE_X64, MAX_SQRT_PRICE_X64);
        }
        let amount = match w.r.gen_range(0..10) {
            0 => 1,
            1 => u64::MAX,
            2 => 0,
            3 | 4 => {
                // comparable to what the in-range liquidity can absorb over a few ticks
                let l = st.liquidity.max(1);
                let k = w.r.gen_range(4..40);
                ((l >> k).min(u64::MAX as u128) as u64).max(1)
            }
            5 if limit != 0 => u64::MAX >> w.r.gen_range(0..8),
            _ => rnd::log_u64(&mut w.r).max(1),
        };
        (amount, limit, exact_in, a_to_b)
    }

    /// A swap whose specified amount runs out exactly when the price reaches an initialized tick (or one unit
    /// before / after that): the amount is learned on a clone by swapping up to that tick with a price limit,
    /// then the real swap carries that amount (+-1) with no limit, the same limit, or a limit further away.
    /// Returns false when no such swap could be set up (no initialized tick ahead, learning run failed).
    pub fn op_swap_exactly_to_tick(&mut self, w: &mut World, p: usize, monitors: &mut [Box<dyn Monitor>], acc: &mut Acc) -> bool {
        let st = w.pool_state(p);
        let s = st.tick_spacing as i32;
        let a_to_b: bool = w.r.gen();
        let exact_in = rnd::chance(&mut w.r, 2, 3);
        let mut inits: Vec<i32> = World::scan_tick_arrays(&w.bank, &w.pools[p].key)
            .values()
            .filter_map(|(_, r)| r.as_ref().ok())
            .flat_map(|ta| ta.ticks.iter().enumerate().filter(|(_, t)| t.initialized).map(|(i, _)| ta.start_tick_index + i as i32 * s).collect::<Vec<_>>())
            .filter(|t| if a_to_b { sqrt_price_from_tick_index(*t) < st.sqrt_price } else { sqrt_price_from_tick_index(*t) > st.sqrt_price })
            .collect();
        if inits.is_empty() {
            return false;
        }
        inits.sort();
        if a_to_b {
            inits.reverse();
        }
        let target = inits[w.r.gen_range(0..inits.len().min(3))];
        let limit = sqrt_price_from_tick_index(target);
        let u = w.r.gen_range(0..w.users.len());
        let v2: bool = w.r.gen();
        let pool = w.pools[p].clone();
        let (acct_in, acct_out) = if a_to_b { (w.user_token(u, pool.mint_a), w.user_token(u, pool.mint_b)) } else { (w.user_token(u, pool.mint_b), w.user_token(u, pool.mint_a)) };
        let bal = |bk: &crate::svm::Bank, k: &Pubkey| crate::monitors::swapmon::bal(bk, k);
        let learn = w.swap_ix(p, u, u64::MAX / 16, if exact_in { 0 } else { u64::MAX }, limit, exact_in, a_to_b, v2);
        let pre = w.bank.clone();
        let (o, b2) = w.simulate(&pre, &learn);
        if !o.ok() {
            return false;
        }
        let reached = b2.data(&pool.key).and_then(codec::Pool::decode).map(|q| q.sqrt_price == limit).unwrap_or(false);
        let used = if exact_in { bal(&pre, &acct_in) - bal(&b2, &acct_in) } else { bal(&b2, &acct_out) - bal(&pre, &acct_out) };
        if !reached || used == 0 {
            return false;
        }
        let amount = match w.r.gen_range(0..6) {
            0 => used.saturating_sub(1).max(1),
            1 => used.saturating_add(1),
            _ => used,
        };
        let real_limit = match w.r.gen_range(0..4) {
            0 => limit,
            1 => {
                let t = (target + if a_to_b { -s * 5 } else { s * 5 }).clamp(MIN_TICK_INDEX, MAX_TICK_INDEX);
                sqrt_price_from_tick_index(t)
            }
            _ => 0,
        };
        acc.count("swaps_with_amount_ending_on_a_tick");
        let ix = w.swap_ix(p, u, amount, if exact_in { 0 } else { u64::MAX }, real_limit, exact_in, a_to_b, v2);
        self.step(w, ix, monitors, acc);
        true
    }

    pub fn op_swap(&mut self, w: &mut World, p: usize, monitors: &mut [Box<dyn Monitor>], acc: &mut Acc) {
        if rnd::chance(&mut w.r, 1, 7) && self.op_swap_exactly_to_tick(w, p, monitors, acc) {
            return;
        }
        let (amount, limit, exact_in, a_to_b) = self.gen_swap(w, p);
        let u = w.r.gen_range(0..w.users.len());
        let threshold = if exact_in { 0 } else { u64::MAX };
        let v2 = w.r.gen();
        let ix = w.swap_ix(p, u, amount, threshold, limit, exact_in, a_to_b, v2);
        let ix = Self::maybe_supplemental(w, p, a_to_b, ix, acc);
        let ix = Self::maybe_read_only_oracle(w, ix, acc);
        self.step(w, ix, monitors, acc);
    }

    /// One v2 swap in four also carries one to three supplemental tick arrays: the arrays further along the
    /// path (so that more than three initialised arrays may be supplied), neighbours behind the price, or
    /// duplicates of the static ones, in random order.
    pub fn maybe_supplemental(w: &mut World, p: usize, a_to_b: bool, ix: Ix, acc: &mut Acc) -> Ix {
        if ix.name != "swap_v2" || ix.data.last() != Some(&0) || !rnd::chance(&mut w.r, 1, 4) {
            return ix;
        }
        let st = w.pool_state(p);
        let tia = 88 * st.tick_spacing as i64;
        let base = (st.tick_current_index as i64).div_euclid(tia) * tia;
        let dir: i64 = if a_to_b { -1 } else { 1 };
        let n = w.r.gen_range(1..=3);
        let mut extra = vec![];
        for _ in 0..n {
            let k: i64 = *rnd::pick(&mut w.r, &[3, 3, 4, 4, 5, 2, 1, 0, -1, -2]);
            let s = base + dir * k * tia;
            if s + tia > MIN_TICK_INDEX as i64 && s <= MAX_TICK_INDEX as i64 {
                extra.push(w.tick_array_key(p, s as i32));
            }
        }
        if extra.is_empty() {
            return ix;
        }
        acc.count("swaps_with_supplemental_arrays");
        if rnd::chance(&mut w.r, 1, 5) {
            // the arrays beyond the first are named only as supplemental accounts that are NOT writable (the caller
            // chooses the flags of remaining accounts): the program may refuse, it must not walk over their ticks
            let (a0, a1, a2) = (ix.key("tick_array_0"), ix.key("tick_array_1"), ix.key("tick_array_2"));
            if a1 != a0 {
                acc.count("swaps_with_read_only_supplemental_arrays");
                let mut i = crate::monitors::c10::with_supplemental(&ix.with_key("tick_array_1", a0).with_key("tick_array_2", a0), &[a1, a2]);
                let n = i.metas.len();
                for m in i.metas[n - 2..].iter_mut() {
                    m.writable = false;
                }
                return i;
            }
        }
        crate::monitors::c10::with_supplemental(&ix, &extra)
    }

    /// One v1 swap / two-hop in twelve names its oracle(s) read-only: identical on static pools, refused on
    /// adaptive-fee pools (whose oracle has to be written).
    pub fn maybe_read_only_oracle(w: &mut World, mut ix: Ix, acc: &mut Acc) -> Ix {
        if (ix.name == "swap" || ix.name == "two_hop_swap") && rnd::chance(&mut w.r, 1, 12) {
            for m in ix.metas.iter_mut() {
                if m.name.starts_with("oracle") && m.writable {
                    m.writable = false;
                    acc.count("v1_swaps_with_adaptive_oracle_read_only");
                }
            }
        } else if ix.name.contains("swap") && rnd::chance(&mut w.r, 1, 20) {
            // the oracle slot of an adaptive-fee pool names an address that holds nothing: must be refused
            // (an absent oracle means "static pool" only for pools that have none)
            let fresh = w.new_key();
            for m in ix.metas.iter_mut() {
                if m.name.starts_with("oracle") && w.bank.get(&m.key).map(|a| !a.data.is_empty()).unwrap_or(false) {
                    m.key = fresh;
                    acc.count("swaps_with_empty_account_in_adaptive_oracle_slot");
                }
            }
        }
        ix
    }

    /// One actor, only swaps, 2..12 in a row, both directions and modes.
    pub fn op_trader_segment(&mut self, w: &mut World, p: usize, monitors: &mut [Box<dyn Monitor>], acc: &mut Acc) {
        let u = w.r.gen_range(0..w.users.len());
        let n = w.r.gen_range(2..=12);
        let v2: bool = w.r.gen();
        for _ in 0..n {
            let (amount, limit, exact_in, a_to_b) = self.gen_swap(w, p);
            let threshold = if exact_in { 0 } else { u64::MAX };
            let ix = w.swap_ix(p, u, amount, threshold, limit, exact_in, a_to_b, v2);
            let ix = Self::maybe_supplemental(w, p, a_to_b, ix, acc);
            self.step(w, ix, monitors, acc);
        }
    }

    /// Major swaps back and forth, each less than the filter period after the previous one, for more
    /// than an hour: the reference is never refreshed although the last major swap is always recent.
    pub fn op_hf_burst(&mut self, w: &mut World, monitors: &mut [Box<dyn Monitor>], acc: &mut Acc) {
        let cands: Vec<usize> = (0..w.pools.len())
            .filter(|p| w.pools[*p].adaptive)
            .filter(|p| w.bank.data(&w.pools[*p].oracle).and_then(codec::Oracle::decode).map(|o| o.constants.filter_period >= 2 && (o.constants.major_swap_threshold_ticks as i32) < 2000).unwrap_or(false))
            .collect();
        if cands.is_empty() {
            return;
        }
        let p = *rnd::pick(&mut w.r, &cands);
        let o = w.bank.data(&w.pools[p].oracle).and_then(codec::Oracle::decode).unwrap();
        let dt = (o.constants.filter_period as i64 - 1).max(1);
        let n = (3700 / dt + 3).min(400) as usize;
        let u = w.r.gen_range(0..w.users.len());
        let th = o.constants.major_swap_threshold_ticks as i32 + 1;
        acc.count("hf_bursts");
        for k in 0..n {
            w.advance_clock(dt);
            let st = w.pool_state(p);
            let a_to_b = k % 2 == 0;
            let t = (st.tick_current_index + if a_to_b { -th - 1 } else { th + 1 }).clamp(MIN_TICK_INDEX, MAX_TICK_INDEX);
            let limit = sqrt_price_from_tick_index(t);
            let ix = w.swap_ix(p, u, u64::MAX / 16, 0, limit, true, a_to_b, true);
            self.step(w, ix, monitors, acc);
        }
        // ... and the swap that comes after the hour: at once, or after a pause on either side of the filter / decay periods
        let pause = *rnd::pick(&mut w.r, &[0i64, 0, 1, o.constants.filter_period as i64, o.constants.filter_period as i64 + 1, (o.constants.decay_period as i64 - 1).max(1), o.constants.decay_period as i64, 3601]);
        w.advance_clock(pause);
        self.op_swap(w, p, monitors, acc);
    }

    pub fn op_fees(&mut self, w: &mut World, p: usize, monitors: &mut [Box<dyn Monitor>], acc: &mut Acc) {
        let live = self.live_positions(w, p);
        match w.r.gen_range(0..10) {
            0 | 1 => {
                let u = w.r.gen_range(0..w.users.len());
                let v2 = w.r.gen();
                let ix = w.collect_protocol_fees_ix(p, u, v2);
                self.step(w, ix, monitors, acc);
            }
            2..=5 if !live.is_empty() => {
                let i = *rnd::pick(&mut w.r, &live);
                let ix = w.update_fees_ix(i);
                self.step(w, ix, monitors, acc);
            }
            _ if !live.is_empty() => {
                let i = *rnd::pick(&mut w.r, &live);
                if w.r.gen() {
                    let ix = w.update_fees_ix(i);
                    self.step(w, ix, monitors, acc);
                }
                let v2 = w.r.gen();
                let ix = w.collect_fees_ix(i, v2);
                self.step(w, ix, monitors, acc);
            }
            _ => {}
        }
    }

    /// Close instruction of position `i`; for a bundled position one time in three it names ANOTHER bundle as
    /// `position_bundle` (preferring one that has the same index open): that must fail.
    fn close_ix_maybe_foreign_bundle(&mut self, w: &mut World, i: usize, acc: &mut Acc) -> Ix {
        let ix = w.close_position_ix(i);
        if let PosKind::Bundled { bundle_mint, index } = w.positions[i].kind.clone() {
            if rnd::chance(&mut w.r, 1, 6) {
                // the PLAIN close instruction on a bundled position, with the bundle's mint and token account standing in
                // for a position mint and token (the bundled position records the bundle mint as its position mint)
                let pi = w.positions[i].clone();
                let owner = w.users[pi.owner].key;
                acc.count("plain_close_on_a_bundled_position");
                return b::ClosePosition { position_authority: owner, receiver: owner, position: pi.position, position_mint: bundle_mint, position_token_account: pi.token_account, token_program: TOKEN }.ix();
            }
            if rnd::chance(&mut w.r, 1, 3) {
                let others: Vec<Pubkey> = self.bundles.iter().map(|(m, _, _)| *m).filter(|m| *m != bundle_mint).collect();
                let same_index: Vec<Pubkey> = others.iter().copied().filter(|m| w.bank.get(&b::pda_bundled_position_u16(*m, index).0).is_some()).collect();
                let pick = if !same_index.is_empty() { Some(*rnd::pick(&mut w.r, &same_index)) } else if !others.is_empty() { Some(*rnd::pick(&mut w.r, &others)) } else { None };
                if let Some(m) = pick {
                    acc.count("close_bundled_position_naming_another_bundle");
                    if !same_index.is_empty() {
                        acc.count("close_bundled_position_naming_another_bundle_with_that_index_open");
                    }
                    return ix.with_key("position_bundle", b::pda_position_bundle(m).0);
                }
            }
        }
        ix
    }

    pub fn op_lifecycle(&mut self, w: &mut World, p: usize, monitors: &mut [Box<dyn Monitor>], acc: &mut Acc) {
        let live = self.live_positions(w, p);
        if live.is_empty() {
            self.op_open_and_fund(w, p, monitors, acc);
            return;
        }
        let i = *rnd::pick(&mut w.r, &live);
        match w.r.gen_range(0..4) {
            0 | 1 => {
                // try to close (succeeds only when empty)
                let ix = self.close_ix_maybe_foreign_bundle(w, i, acc);
                let o = self.step(w, ix, monitors, acc);
                if o.ok() {
                    w.positions[i].closed = true;
                }
            }
            2 => {
                // empty it first, then close
                let pos = codec::Position::decode(w.bank.data(&w.positions[i].position).unwrap_or(&[])).unwrap_or_default();
                if pos.liquidity > 0 {
                    let ix = w.modify_v2(i).decrease_liquidity_v2(pos.liquidity, 0, 0, None);
                    self.step(w, ix, monitors, acc);
                }
                let ix = w.collect_fees_ix(i, true);
                self.step(w, ix, monitors, acc);
                let ix = self.close_ix_maybe_foreign_bundle(w, i, acc);
                let o = self.step(w, ix, monitors, acc);
                if o.ok() {
                    w.positions[i].closed = true;
                }
            }
            _ => {
                self.op_open_and_fund(w, p, monitors, acc);
            }
        }
    }

    /// Lock / transfer-locked / reset / reposition / bundles / sentinel bounds / metadata.
    /// Token-program traffic on a position token account: the owner approves a delegate (another user or
    /// itself) for 0 / 1 / 2 / u64::MAX tokens, or revokes it. Not a whirlpool instruction: no monitor step.
    pub fn op_delegate(&mut self, w: &mut World, p: usize, acc: &mut Acc) {
        let live = self.live_positions(w, p);
        if live.is_empty() {
            return;
        }
        let i = *rnd::pick(&mut w.r, &live);
        let pi = w.positions[i].clone();
        let Some(program) = w.bank.get(&pi.token_account).map(|a| a.owner) else { return };
        let owner = w.users[pi.owner].key;
        let ix = if rnd::chance(&mut w.r, 1, 8) {
            // the holder moves the position token to somebody else's account and keeps using the (now empty) old one:
            // every later instruction of the old holder on this position must fail
            let other = w.users[(pi.owner + 1) % w.users.len()].key;
            let dest = w.create_token_account(pi.mint, other);
            acc.count("position_tokens_moved_away");
            spl_token_2022::instruction::transfer_checked(&program, &pi.token_account, &pi.mint, &dest, &owner, &[], 1, 0).unwrap()
        } else if rnd::chance(&mut w.r, 1, 3) {
            acc.count("position_token_revokes");
            spl_token_2022::instruction::revoke(&program, &pi.token_account, &owner, &[]).unwrap()
        } else {
            let delegate = if w.r.gen() { owner } else { w.users[w.r.gen_range(0..w.users.len())].key };
            let amount = *rnd::pick(&mut w.r, &[0u64, 1, 2, u64::MAX]);
            acc.count(if delegate == owner { "position_token_self_delegations" } else { "position_token_delegations" });
            spl_token_2022::instruction::approve(&program, &pi.token_account, &delegate, &owner, &[], amount).unwrap()
        };
        let o = w.exec_raw(&ix);
        if !o.ok() {
            acc.count("position_token_delegate_ops_failed");
        }
    }

    pub fn op_lifecycle_ext(&mut self, w: &mut World, p: usize, monitors: &mut [Box<dyn Monitor>], acc: &mut Acc) {
        use solana_program::system_program;
        let pool = w.pools[p].clone();
        let st = w.pool_state(p);
        let live = self.live_positions(w, p);
        let s = pool.tick_spacing as i32;
        match w.r.gen_range(0..16) {
            0 | 1 => {
                // open with a bound derived from the price (sentinels), incl. both sentinels and wrong sides
                let u = w.r.gen_range(0..w.users.len());
                let near = usable(st.tick_current_index, pool.tick_spacing);
                let (lo, hi) = match w.r.gen_range(0..6) {
                    0 | 1 => (i32::MIN, near + w.r.gen_range(1..40) * s),
                    2 | 3 => (near - w.r.gen_range(1..40) * s, i32::MAX),
                    4 => (i32::MIN, i32::MAX),
                    _ => (i32::MIN, near - w.r.gen_range(0..5) * s),
                };
                let te: bool = w.r.gen();
                let (ix, mut info) = w.open_position_ix(p, u, lo, hi, te);
                let o = self.step(w, ix, monitors, acc);
                if o.ok() {
                    if let Some(pp) = w.bank.data(&info.position).and_then(codec::Position::decode) {
                        info.lower = pp.tick_lower_index;
                        info.upper = pp.tick_upper_index;
                    }
                    w.positions.push(info);
                }
            }
            2 => {
                // open with metadata (Metaplex CPI is a recording stub); one in three leaves a bound to be derived from the price
                let u = w.r.gen_range(0..w.users.len());
                let (mut lo, mut hi) = self.gen_range(w, p);
                let near = usable(st.tick_current_index, pool.tick_spacing);
                match w.r.gen_range(0..6) {
                    0 => { lo = i32::MIN; hi = near + w.r.gen_range(1..40) * s; }
                    1 => { hi = i32::MAX; lo = near - w.r.gen_range(1..40) * s; }
                    _ => {}
                }
                let owner = w.users[u].key;
                let mint = w.new_key();
                let (position, bump) = b::pda_position(mint);
                let (meta, mbump) = b::pda_metadata(mint);
                let ta = b::pda_associated_token(owner, mint, TOKEN).0;
                let ix = b::OpenPositionWithMetadata {
                    funder: ADMIN,
                    owner,
                    position,
                    position_mint: mint,
                    position_metadata_account: meta,
                    position_token_account: ta,
                    whirlpool: pool.key,
                    token_program: TOKEN,
                    system_program: system_program::ID,
                    rent: RENT_ID,
                    associated_token_program: ATA,
                    metadata_program: b::METADATA_PROGRAM_ID,
                    metadata_update_auth: b::NFT_UPDATE_AUTH,
                }
                .ix(b::OpenPositionWithMetadataBumps { position_bump: bump, metadata_bump: mbump }, lo, hi);
                let o = self.step(w, ix, monitors, acc);
                if o.ok() {
                    if let Some(pp) = w.bank.data(&position).and_then(codec::Position::decode) {
                        lo = pp.tick_lower_index;
                        hi = pp.tick_upper_index;
                    }
                    w.positions.push(PosInfo { pool: p, position, mint, owner: u, token_account: ta, kind: PosKind::Plain, lower: lo, upper: hi, closed: false, locked: false });
                }
            }
            3 | 4 if !live.is_empty() => {
                // lock (only token-extension positions with liquidity can be locked)
                let i = *rnd::pick(&mut w.r, &live);
                let pi = w.positions[i].clone();
                let ix = b::LockPosition {
                    funder: ADMIN,
                    position_authority: w.users[pi.owner].key,
                    position: pi.position,
                    position_mint: pi.mint,
                    position_token_account: pi.token_account,
                    lock_config: b::pda_lock_config(pi.position).0,
                    whirlpool: pool.key,
                    token_2022_program: TOKEN22,
                    system_program: system_program::ID,
                }
                .ix(b::LockType::Permanent);
                let o = self.step(w, ix, monitors, acc);
                if o.ok() {
                    w.positions[i].locked = true;
                }
            }
            5 if !live.is_empty() => {
                // transfer a locked position to another user
                let locked: Vec<usize> = live.iter().copied().filter(|i| w.positions[*i].locked).collect();
                let i = if !locked.is_empty() && rnd::chance(&mut w.r, 4, 5) { *rnd::pick(&mut w.r, &locked) } else { *rnd::pick(&mut w.r, &live) };
                let pi = w.positions[i].clone();
                if pi.kind != PosKind::TokenExt {
                    return;
                }
                let to = (pi.owner + 1) % w.users.len();
                let to_key = w.users[to].key;
                let dest = w.create_token_account(pi.mint, to_key);
                let ownerk = w.users[pi.owner].key;
                let ix = b::TransferLockedPosition {
                    position_authority: ownerk,
                    receiver: ownerk,
                    position: pi.position,
                    position_mint: pi.mint,
                    position_token_account: pi.token_account,
                    destination_token_account: dest,
                    lock_config: b::pda_lock_config(pi.position).0,
                    token_2022_program: TOKEN22,
                }
                .ix();
                let o = self.step(w, ix, monitors, acc);
                if o.ok() {
                    w.positions[i].owner = to;
                    w.positions[i].token_account = dest;
                }
            }
            6 | 7 if !live.is_empty() => {
                // reset the range (only empty positions); sometimes the same range / an invalid one
                let i = *rnd::pick(&mut w.r, &live);
                let pi = w.positions[i].clone();
                if matches!(pi.kind, PosKind::Bundled { .. }) && w.r.gen() {
                    return;
                }
                let (mut lo, mut hi) = self.gen_range(w, p);
                match w.r.gen_range(0..8) {
                    0 => {
                        lo = pi.lower;
                        hi = pi.upper;
                    }
                    1 => hi = lo,
                    2 => lo += 1,
                    _ => {}
                }
                if w.r.gen() {
                    // empty it first so that the reset has a chance
                    let pos = codec::Position::decode(w.bank.data(&pi.position).unwrap_or(&[])).unwrap_or_default();
                    if pos.liquidity > 0 {
                        let ix = w.modify_v2(i).decrease_liquidity_v2(pos.liquidity, 0, 0, None);
                        self.step(w, ix, monitors, acc);
                    }
                    let ix = w.collect_fees_ix(i, true);
                    self.step(w, ix, monitors, acc);
                    // ... and the rewards it is owed (a position that is owed anything cannot be re-ranged)
                    for k in 0..3u8 {
                        if pos.reward_infos[k as usize].growth_inside_checkpoint != 0 || pos.reward_infos[k as usize].amount_owed != 0 {
                            let ix = w.collect_reward_ix(i, k);
                            self.step(w, ix, monitors, acc);
                        }
                    }
                }
                // one reset in ten names ANOTHER pool as the position's pool (the range would be judged by its spacing): must fail
                let named_pool = if w.pools.len() > 1 && rnd::chance(&mut w.r, 1, 10) {
                    acc.count("resets_naming_another_pool");
                    w.pools[(p + 1 + w.r.gen_range(0..w.pools.len() - 1)) % w.pools.len()].key
                } else {
                    pool.key
                };
                let ix = b::ResetPositionRange { funder: ADMIN, position_authority: w.users[pi.owner].key, whirlpool: named_pool, position: pi.position, position_token_account: pi.token_account, system_program: system_program::ID }.ix(lo, hi);
                let o = self.step(w, ix, monitors, acc);
                if o.ok() {
                    w.positions[i].lower = lo;
                    w.positions[i].upper = hi;
                }
            }
            8 | 9 if !live.is_empty() => {
                // reposition
                let i = *rnd::pick(&mut w.r, &live);
                let pi = w.positions[i].clone();
                let (mut nl, mut nu) = self.gen_range(w, p);
                match w.r.gen_range(0..12) {
                    0 => {
                        nl = pi.lower;
                        nu = pi.upper;
                    }
                    1 => nu = nl,
                    // a bound off the tick-spacing grid (must be refused: no tick array slot stands for it)
                    2 if pool.tick_spacing > 1 => {
                        let off = w.r.gen_range(1..pool.tick_spacing as i32);
                        if w.r.gen() {
                            nu += off;
                        } else {
                            nl += off;
                        }
                        acc.count("repositions_onto_an_off_grid_bound");
                    }
                    _ => {}
                }
                let (tl, tu) = w.pos_arrays(&pi);
                let d1: bool = w.r.gen();
                let d2: bool = w.r.gen();
                let ntl = if nl >= MIN_TICK_INDEX && nl <= MAX_TICK_INDEX { w.ensure_tick_array(p, nl, d1) } else { tl };
                let ntu = if nu >= MIN_TICK_INDEX && nu <= MAX_TICK_INDEX { w.ensure_tick_array(p, nu, d2) } else { tu };
                let mut l = self.gen_liquidity(w, p);
                // one time in three: re-use exactly what the old range releases - the new liquidity is bisected on the
                // exact model so that the new range costs, in one token, precisely the amount the old range returns
                // (the net transfer of that token is zero although both legs are non-zero)
                if rnd::chance(&mut w.r, 1, 3) && nl < nu && nl >= MIN_TICK_INDEX && nu <= MAX_TICK_INDEX {
                    if let Some(pp) = w.bank.data(&pi.position).and_then(codec::Position::decode) {
                        if pp.liquidity > 0 {
                            use crate::model::position_amounts;
                            let pr = |t: i32| sqrt_price_from_tick_index(t);
                            let (wa, wb) = position_amounts(st.tick_current_index, st.sqrt_price, pp.tick_lower_index, pp.tick_upper_index, pr(pp.tick_lower_index), pr(pp.tick_upper_index), pp.liquidity, false);
                            let want_a = st.tick_current_index < nu && wa.bits() > 0 && (w.r.gen() || !(st.tick_current_index >= nl && wb.bits() > 0));
                            let target = if want_a { wa.clone() } else { wb.clone() };
                            if target.bits() > 0 && target.bits() <= 64 {
                                let cost = |l: u128| {
                                    let (a, b) = position_amounts(st.tick_current_index, st.sqrt_price, nl, nu, pr(nl), pr(nu), l, true);
                                    if want_a { a } else { b }
                                };
                                let (mut lo_l, mut hi_l) = (0u128, 1u128 << 110);
                                if cost(hi_l) >= target {
                                    while hi_l - lo_l > 1 {
                                        let mid = lo_l + (hi_l - lo_l) / 2;
                                        if cost(mid) >= target {
                                            hi_l = mid;
                                        } else {
                                            lo_l = mid;
                                        }
                                    }
                                    if cost(hi_l) == target {
                                        l = hi_l;
                                        acc.count("repositions_reusing_exactly_the_released_amount");
                                    }
                                }
                            }
                        }
                    }
                }
                let ix = b::RepositionLiquidityV2 {
                    whirlpool: pool.key,
                    token_program_a: pool.program_a,
                    token_program_b: pool.program_b,
                    memo_program: MEMO,
                    position_authority: w.users[pi.owner].key,
                    funder: ADMIN,
                    position: pi.position,
                    position_token_account: pi.token_account,
                    token_mint_a: pool.mint_a,
                    token_mint_b: pool.mint_b,
                    token_owner_account_a: w.user_token(pi.owner, pool.mint_a),
                    token_owner_account_b: w.user_token(pi.owner, pool.mint_b),
                    token_vault_a: pool.vault_a,
                    token_vault_b: pool.vault_b,
                    existing_tick_array_lower: tl,
                    existing_tick_array_upper: tu,
                    new_tick_array_lower: ntl,
                    new_tick_array_upper: ntu,
                    system_program: system_program::ID,
                }
                .ix(nl, nu, b::RepositionLiquidityMethod::ByLiquidity { new_liquidity_amount: l, existing_range_token_min_a: 0, existing_range_token_min_b: 0, new_range_token_max_a: u64::MAX, new_range_token_max_b: u64::MAX }, None);
                let o = self.step(w, ix, monitors, acc);
                if o.ok() {
                    w.positions[i].lower = nl;
                    w.positions[i].upper = nu;
                }
            }
            10 => {
                // new bundle
                let u = w.r.gen_range(0..w.users.len());
                let ownerk = w.users[u].key;
                let mint = w.new_key();
                let ta = b::pda_associated_token(ownerk, mint, TOKEN).0;
                let ix = if w.r.gen() {
                    b::InitializePositionBundle { position_bundle: b::pda_position_bundle(mint).0, position_bundle_mint: mint, position_bundle_token_account: ta, position_bundle_owner: ownerk, funder: ADMIN, token_program: TOKEN, system_program: system_program::ID, rent: RENT_ID, associated_token_program: ATA }.ix()
                } else {
                    b::InitializePositionBundleWithMetadata {
                        position_bundle: b::pda_position_bundle(mint).0,
                        position_bundle_mint: mint,
                        position_bundle_metadata: b::pda_metadata(mint).0,
                        position_bundle_token_account: ta,
                        position_bundle_owner: ownerk,
                        funder: ADMIN,
                        metadata_update_auth: b::NFT_UPDATE_AUTH,
                        token_program: TOKEN,
                        system_program: system_program::ID,
                        rent: RENT_ID,
                        associated_token_program: ATA,
                        metadata_program: b::METADATA_PROGRAM_ID,
                    }
                    .ix()
                };
                let o = self.step(w, ix, monitors, acc);
                if o.ok() {
                    self.bundles.push((mint, ta, u));
                }
            }
            11 | 12 if !self.bundles.is_empty() => {
                // open a bundled position at any of the 256 indexes (and beyond)
                let (mint, ta, u) = *rnd::pick(&mut w.r, &self.bundles);
                let idx: u16 = match w.r.gen_range(0..8) {
                    0 => 0,
                    1 => 255,
                    2 => 256,
                    3 | 4 | 5 => w.r.gen_range(0..4),
                    _ => w.r.gen_range(0..256),
                };
                let (mut lo, mut hi) = self.gen_range(w, p);
                // one bundled open in four leaves a bound to be derived from the price (as the other open flavours do)
                if rnd::chance(&mut w.r, 1, 4) {
                    let near = usable(st.tick_current_index, pool.tick_spacing);
                    let s = pool.tick_spacing as i32;
                    match w.r.gen_range(0..3) {
                        0 => (lo, hi) = (i32::MIN, near + w.r.gen_range(1..40) * s),
                        1 => (lo, hi) = (near - w.r.gen_range(1..40) * s, i32::MAX),
                        _ => (lo, hi) = (i32::MIN, near - w.r.gen_range(0..5) * s),
                    }
                    acc.count("bundled_opens_with_a_derived_bound");
                }
                let bp = b::pda_bundled_position_u16(mint, idx).0;
                let ix = b::OpenBundledPosition { bundled_position: bp, position_bundle: b::pda_position_bundle(mint).0, position_bundle_token_account: ta, position_bundle_authority: w.users[u].key, whirlpool: pool.key, funder: ADMIN, system_program: system_program::ID, rent: RENT_ID }.ix(idx, lo, hi);
                let o = self.step(w, ix, monitors, acc);
                if o.ok() {
                    if let Some(pp) = w.bank.data(&bp).and_then(codec::Position::decode) {
                        lo = pp.tick_lower_index;
                        hi = pp.tick_upper_index;
                    }
                    w.positions.push(PosInfo { pool: p, position: bp, mint, owner: u, token_account: ta, kind: PosKind::Bundled { bundle_mint: mint, index: idx }, lower: lo, upper: hi, closed: false, locked: false });
                    if w.r.gen() {
                        let i = w.positions.len() - 1;
                        let d1: bool = w.r.gen();
                        w.ensure_tick_array(p, lo, d1);
                        w.ensure_tick_array(p, hi, !d1);
                        let l = self.gen_liquidity(w, p);
                        self.increase(w, i, l, monitors, acc);
                    }
                }
            }
            13 if !self.bundles.is_empty() => {
                // delete a bundle (only allowed when no bundled position is open)
                let k = w.r.gen_range(0..self.bundles.len());
                let (mint, ta, u) = self.bundles[k];
                let ownerk = w.users[u].key;
                let ix = b::DeletePositionBundle { position_bundle: b::pda_position_bundle(mint).0, position_bundle_mint: mint, position_bundle_token_account: ta, position_bundle_owner: ownerk, receiver: ownerk, token_program: TOKEN }.ix();
                let o = self.step(w, ix, monitors, acc);
                if o.ok() {
                    self.bundles.remove(k);
                }
            }
            _ if !live.is_empty() => {
                // operations that stay allowed on locked positions: add liquidity, collect
                let locked: Vec<usize> = live.iter().copied().filter(|i| w.positions[*i].locked).collect();
                let i = if !locked.is_empty() { *rnd::pick(&mut w.r, &locked) } else { *rnd::pick(&mut w.r, &live) };
                match w.r.gen_range(0..4) {
                    0 => {
                        self.increase(w, i, 1000, monitors, acc);
                    }
                    1 => {
                        let ix = w.collect_fees_ix(i, true);
                        self.step(w, ix, monitors, acc);
                    }
                    2 => {
                        let pos = codec::Position::decode(w.bank.data(&w.positions[i].position).unwrap_or(&[])).unwrap_or_default();
                        let ix = w.modify_v2(i).decrease_liquidity_v2(pos.liquidity.max(1), 0, 0, None);
                        self.step(w, ix, monitors, acc);
                    }
                    _ => {
                        let ix = w.close_position_ix(i);
                        let o = self.step(w, ix, monitors, acc);
                        if o.ok() {
                            w.positions[i].closed = true;
                        }
                    }
                }
            }
            _ => {}
        }
    }

    pub fn op_setters(&mut self, w: &mut World, p: usize, monitors: &mut [Box<dyn Monitor>], acc: &mut Acc) {
        let pool = w.pools[p].clone();
        let cfg = w.configs[pool.config].clone();
        if pool.adaptive && rnd::chance(&mut w.r, 1, 2) {
            // replace some of the adaptive fee constants of this pool (mostly valid values)
            if let Some(o) = w.bank.data(&pool.oracle).and_then(codec::Oracle::decode) {
                let c = o.constants;
                let sp = pool.tick_spacing;
                let gs_opts: Vec<u16> = (1..=sp.min(512)).filter(|g| sp % g == 0).collect();
                let pick16 = |r: &mut R, v: &[u16]| if r.gen() { Some(*rnd::pick(r, v)) } else { None };
                let filter = pick16(&mut w.r, &[1, 10, 30, 60, c.filter_period]);
                let decay = pick16(&mut w.r, &[61, 600, 3000, 7200, c.decay_period]);
                let reduction = pick16(&mut w.r, &[0, 500, 5000, 9999, 10000]);
                let control = if w.r.gen() { Some(*rnd::pick(&mut w.r, &[0u32, 1, 1000, 4000, 99_999, 100_000])) } else { None };
                let gs = if w.r.gen() { Some(*rnd::pick(&mut w.r, &gs_opts)) } else { None };
                let max_acc = if w.r.gen() { Some((*rnd::pick(&mut w.r, &[10_000u32, 50_000, 350_000, 1_000_000])).min(u32::MAX / gs.unwrap_or(c.tick_group_size).max(1) as u32)) } else { None };
                let major = pick16(&mut w.r, &[1, sp, 64, 500]);
                let ix = b::SetAdaptiveFeeConstants { whirlpool: pool.key, whirlpools_config: cfg.key, oracle: pool.oracle, fee_authority: cfg.fee_authority }.ix(filter, decay, reduction, control, max_acc, gs, major);
                self.step(w, ix, monitors, acc);
                return;
            }
        }
        let ix = if w.r.gen() {
            let fr = *rnd::pick(&mut w.r, &[0u16, 1, 100, 3000, 30000, 60000, 60001, u16::MAX]);
            b::SetFeeRate { whirlpools_config: cfg.key, whirlpool: pool.key, fee_authority: cfg.fee_authority }.ix(fr)
        } else {
            let pr = *rnd::pick(&mut w.r, &[0u16, 1, 300, 2500, 2501, u16::MAX]);
            b::SetProtocolFeeRate { whirlpools_config: cfg.key, whirlpool: pool.key, fee_authority: cfg.fee_authority }.ix(pr)
        };
        self.step(w, ix, monitors, acc);
    }

    pub fn op_reward(&mut self, w: &mut World, p: usize, monitors: &mut [Box<dyn Monitor>], acc: &mut Acc) {
        let st = w.pool_state(p);
        let n_init = st.reward_infos.iter().filter(|r| r.initialized()).count();
        let live = self.live_positions(w, p);
        match w.r.gen_range(0..14) {
            0 | 1 if n_init < 3 => {
                // initialise the next reward (sometimes a wrong index)
                let idx = if rnd::chance(&mut w.r, 1, 6) { w.r.gen_range(0..4) as u8 } else { n_init as u8 };
                // one reward in five is paid in one of the pool's own tokens (the pool then owns two accounts of that mint)
                let mint = if rnd::chance(&mut w.r, 1, 5) {
                    if w.r.gen() { w.pools[p].mint_a } else { w.pools[p].mint_b }
                } else if self.cfg.spl_only || w.r.gen() {
                    w.add_spl_mint(6)
                } else {
                    w.add_t22_mint(6, None)
                };
                let (ix, vault) = w.init_reward_ix(p, idx, mint);
                let o = self.step(w, ix, monitors, acc);
                if o.ok() {
                    // fund the vault: generously, barely, or not at all
                    let amt = *rnd::pick(&mut w.r, &[0u64, 1, 1000, 86_400, 10_000_000, u64::MAX / 8]);
                    w.set_token_balance(vault, amt);
                    w.pools[p].rewards.push((mint, vault));
                }
            }
            2..=4 if n_init > 0 => {
                let idx = if rnd::chance(&mut w.r, 1, 10) { w.r.gen_range(0..4) as u8 } else { w.r.gen_range(0..n_init) as u8 };
                let e: u128 = match w.r.gen_range(0..8) {
                    0 => 0,
                    1 => 1,
                    2 => 1u128 << 64,
                    3 => rnd::log_u128(&mut w.r, 128),
                    _ => rnd::log_u128(&mut w.r, 90),
                };
                // in a third of the pools the first reward never emits (an idle slot in front of emitting ones)
                let e = if idx == 0 && w.pools[p].key.to_bytes()[0] % 3 == 0 { 0 } else { e };
                if rnd::chance(&mut w.r, 1, 3) {
                    // re-fund the vault around the day-of-emissions requirement
                    if let Some(r) = st.reward_infos.get(idx as usize) {
                        if r.initialized() {
                            let need = ((86_400u128.saturating_mul(e)) >> 64).min(u64::MAX as u128) as u64;
                            let amt = *rnd::pick(&mut w.r, &[need, need.saturating_sub(1), need.saturating_add(1), need / 2, u64::MAX / 8]);
                            w.set_token_balance(r.vault, amt);
                        }
                    }
                }
                let ix = w.set_emissions_ix(p, idx, e);
                self.step(w, ix, monitors, acc);
            }
            5..=7 if !live.is_empty() => {
                let i = *rnd::pick(&mut w.r, &live);
                if w.r.gen() {
                    let ix = w.update_fees_ix(i);
                    self.step(w, ix, monitors, acc);
                }
                let idx = if rnd::chance(&mut w.r, 1, 12) { w.r.gen_range(0..5) as u8 } else { w.r.gen_range(0..3) as u8 };
                if rnd::chance(&mut w.r, 1, 4) {
                    // the vault may hold less than what is owed
                    if let Some(r) = st.reward_infos.get(idx as usize).filter(|r| r.initialized()) {
                        let amt = *rnd::pick(&mut w.r, &[0u64, 1, 5, 1000]);
                        w.set_token_balance(r.vault, amt);
                    }
                }
                let ix = w.collect_reward_ix(i, idx);
                self.step(w, ix, monitors, acc);
            }
            8 | 9 => {
                // time passes
                let dt = *rnd::pick(&mut w.r, &[1i64, 1, 7, 60, 3600, 86_400, 1_000_000, 1_000_000_000]);
                w.advance_clock(dt);
                acc.count("clock_advance");
            }
            10 if st.reward_last_updated_timestamp > 0 => {
                // one attempt to go backwards: every timestamp-carrying instruction must fail
                let now = w.now();
                let back = st.reward_last_updated_timestamp as i64 - w.r.gen_range(1..1000);
                if back > 0 && back < now {
                    w.bank.clock.unix_timestamp = back;
                    acc.count("clock_backwards_episodes");
                    if !live.is_empty() {
                        let i = *rnd::pick(&mut w.r, &live);
                        let ix = w.update_fees_ix(i);
                        self.step(w, ix, monitors, acc);
                        self.increase(w, i, 1000, monitors, acc);
                    }
                    self.op_swap(w, p, monitors, acc);
                    if n_init > 0 {
                        let ix = w.set_emissions_ix(p, 0, 0);
                        self.step(w, ix, monitors, acc);
                    }
                    w.bank.clock.unix_timestamp = now;
                }
            }
            _ if !live.is_empty() => {
                let i = *rnd::pick(&mut w.r, &live);
                let ix = w.update_fees_ix(i);
                self.step(w, ix, monitors, acc);
            }
            _ => {}
        }
    }
    /// (p1, p2, a_to_b_one, a_to_b_two) combinations whose legs chain through a shared mint.
    pub fn two_hop_routes(w: &World) -> Vec<(usize, usize, bool, bool)> {
        let mut v = vec![];
        for p1 in 0..w.pools.len() {
            for p2 in 0..w.pools.len() {
                if p1 == p2 {
                    continue;
                }
                for d1 in [true, false] {
                    for d2 in [true, false] {
                        let out1 = if d1 { w.pools[p1].mint_b } else { w.pools[p1].mint_a };
                        let in2 = if d2 { w.pools[p2].mint_a } else { w.pools[p2].mint_b };
                        if out1 == in2 {
                            v.push((p1, p2, d1, d2));
                        }
                    }
                }
            }
        }
        v
    }

    pub fn op_two_hop(&mut self, w: &mut World, monitors: &mut [Box<dyn Monitor>], acc: &mut Acc) {
        let routes = Self::two_hop_routes(w);
        if routes.is_empty() {
            return;
        }
        let (mut p1, mut p2, mut d1, mut d2) = *rnd::pick(&mut w.r, &routes);
        if rnd::chance(&mut w.r, 1, 12) {
            // hostile: same pool twice, or legs that do not chain
            p1 = w.r.gen_range(0..w.pools.len());
            p2 = if w.r.gen() { p1 } else { w.r.gen_range(0..w.pools.len()) };
            d1 = w.r.gen();
            d2 = w.r.gen();
        }
        let exact_in = rnd::chance(&mut w.r, 1, 2);
        let u = w.r.gen_range(0..w.users.len());
        // amounts small enough that both legs usually stay inside their liquidity
        let (s1, s2) = (w.pool_state(p1), w.pool_state(p2));
        let l = s1.liquidity.min(s2.liquidity).max(1);
        let amount = match w.r.gen_range(0..6) {
            0 => 1,
            1 => rnd::log_u64(&mut w.r).max(1),
            _ => ((l >> w.r.gen_range(6..40)).min(u64::MAX as u128) as u64).max(1),
        };
        let lim = |w: &mut World, st: &codec::Pool, a_to_b: bool| -> u128 {
            match w.r.gen_range(0..4) {
                0 | 1 => 0,
                2 => if a_to_b { MIN_SQRT_PRICE_X64 } else { MAX_SQRT_PRICE_X64 },
                _ => {
                    let d = (st.sqrt_price >> w.r.gen_range(8..30)).max(1);
                    if a_to_b { st.sqrt_price.saturating_sub(d).max(MIN_SQRT_PRICE_X64) } else { st.sqrt_price.saturating_add(d).min(MAX_SQRT_PRICE_X64) }
                }
            }
        };
        let (l1, l2) = (lim(w, &s1, d1), lim(w, &s2, d2));
        let threshold = if exact_in { 0 } else { u64::MAX };
        let v2 = w.r.gen();
        let ix = w.two_hop_ix(p1, p2, u, amount, threshold, exact_in, d1, d2, l1, l2, v2);
        let ix = Self::maybe_read_only_oracle(w, ix, acc);
        self.step(w, ix, monitors, acc);
    }
}

/// State seeding (DESIGN.md section 2): only while the pool has no liquidity, no initialised tick and no
/// position, overwrite the fee growth accumulators with arbitrary values (incl. just below wrap-around).
pub fn seed_pool_growth(w: &mut World, p: usize) {
    let key = w.pools[p].key;
    let st = w.pool_state(p);
    assert_eq!(st.liquidity, 0);
    assert!(World::scan_positions(&w.bank, &key).is_empty());
    let mut a = w.bank.get(&key).unwrap().clone();
    let pick = |r: &mut R| -> u128 {
        match r.gen_range(0..4) {
            0 => u128::MAX - r.gen_range(0..1u128 << 40),
            1 => u128::MAX - r.gen_range(0..1u128 << 90),
            2 => r.gen(),
            _ => rnd::log_u128(r, 128),
        }
    };
    let ga = pick(&mut w.r);
    let gb = pick(&mut w.r);
    a.data[codec::POOL_OFF_FEE_GROWTH_A..codec::POOL_OFF_FEE_GROWTH_A + 16].copy_from_slice(&ga.to_le_bytes());
    a.data[codec::POOL_OFF_FEE_GROWTH_B..codec::POOL_OFF_FEE_GROWTH_B + 16].copy_from_slice(&gb.to_le_bytes());
    // reward growth accumulators of rewards that are already initialised (same argument: nothing refers to them yet)
    for (k, ri) in st.reward_infos.iter().enumerate() {
        if ri.initialized() {
            let g = pick(&mut w.r);
            let off = codec::POOL_OFF_REWARD_INFOS + k * 128 + 112;
            a.data[off..off + 16].copy_from_slice(&g.to_le_bytes());
        }
    }
    w.bank.set(key, a);
}
