//! Seeded random helpers (hostile-biased distributions).
use crate::codec::{MAX_SQRT_PRICE_X64, MAX_TICK_INDEX, MIN_SQRT_PRICE_X64, MIN_TICK_INDEX};
use rand::{Rng, SeedableRng};
pub type R = rand_chacha::ChaCha8Rng;

pub fn rng(seed: u64) -> R {
    R::seed_from_u64(seed)
}

/// log-uniform over [0, 2^bits)
pub fn log_u128(r: &mut R, max_bits: u32) -> u128 {
    let b = r.gen_range(0..=max_bits);
    if b == 0 {
        return 0;
    }
    let v: u128 = r.gen();
    let v = if b == 128 { v } else { v & ((1u128 << b) - 1) };
    // force the top bit so that the bit-length really is b
    v | (1u128 << (b - 1))
}
pub fn log_u64(r: &mut R) -> u64 {
    log_u128(r, 64) as u64
}

/// u64 with boundary bias
pub fn hostile_u64(r: &mut R) -> u64 {
    match r.gen_range(0..10) {
        0 => 0,
        1 => 1,
        2 => u64::MAX,
        3 => u64::MAX - r.gen_range(0..4),
        4 => 1u64 << r.gen_range(0..64),
        5 => (1u64 << r.gen_range(1..64)) - 1,
        _ => log_u64(r),
    }
}

/// sqrt price in protocol bounds, log-uniform with boundary bias
pub fn sqrt_price(r: &mut R) -> u128 {
    match r.gen_range(0..12) {
        0 => MIN_SQRT_PRICE_X64,
        1 => MAX_SQRT_PRICE_X64,
        2 => MIN_SQRT_PRICE_X64 + r.gen_range(0..1000) as u128,
        3 => MAX_SQRT_PRICE_X64 - r.gen_range(0..1000) as u128,
        _ => {
            // log-uniform between 2^32 and 2^96
            let bits = r.gen_range(33..=96);
            let v: u128 = r.gen::<u128>() & ((1u128 << bits) - 1) | (1u128 << (bits - 1));
            v.clamp(MIN_SQRT_PRICE_X64, MAX_SQRT_PRICE_X64)
        }
    }
}

pub fn tick(r: &mut R) -> i32 {
    match r.gen_range(0..10) {
        0 => MIN_TICK_INDEX,
        1 => MAX_TICK_INDEX,
        2 => r.gen_range(-10..=10),
        3 => MIN_TICK_INDEX + r.gen_range(0..100),
        4 => MAX_TICK_INDEX - r.gen_range(0..100),
        _ => r.gen_range(MIN_TICK_INDEX..=MAX_TICK_INDEX),
    }
}

pub fn pick<'a, T>(r: &mut R, v: &'a [T]) -> &'a T {
    &v[r.gen_range(0..v.len())]
}

pub fn chance(r: &mut R, num: u32, den: u32) -> bool {
    r.gen_range(0..den) < num
}

pub fn bitlen(x: u128) -> u32 {
    128 - x.leading_zeros()
}
