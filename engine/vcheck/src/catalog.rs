//! Instruction catalogue for the enumeration checks C04 (authorities) and C15 (account binding):
//! one richly populated base world and one *golden* (must-succeed) invocation per instruction.
use crate::codec;
use crate::ix::build as b;
use crate::ix::Ix;
use crate::rnd;
use crate::svm::Bank;
use crate::world::*;
use solana_program::pubkey::Pubkey;
use solana_program::system_program;

#[derive(Clone, Debug)]
pub enum AuthKind {
    /// a settings authority recorded on chain; `other` = the corresponding authority of another config / pool
    Setting { other: Option<Pubkey> },
    /// holder of the position token (or of the bundle token)
    Position { token_slot: &'static str, delegate_may_pass: bool },
}

#[derive(Clone, Debug)]
pub struct Auth {
    pub slot: &'static str,
    pub kind: AuthKind,
}

/// "The right authority of something else": replace some slots by a sibling object and sign
/// with the authority recorded for that sibling.
#[derive(Clone, Debug)]
pub struct Alt {
    pub name: &'static str,
    pub replace: Vec<(&'static str, Pubkey)>,
    pub slot: &'static str,
    pub signer: Pubkey,
}

#[derive(Clone)]
pub struct Golden {
    pub alts: Vec<Alt>,
    pub name: String,
    pub ix: Ix,
    pub auth: Vec<Auth>,
    /// index into Base::pools of the pool the instruction names (C15), if any
    pub pool: Option<usize>,
    /// position index the instruction works on
    pub position: Option<usize>,
}

pub struct Base {
    pub w: World,
    pub cfg_a: usize,
    pub cfg_b: usize,
    pub p_a: usize,    // (m1,m2,64) static, config A, two rewards
    pub p_a2: usize,   // (m2,m3,64) config A: shares one mint with p_a
    pub p_a3: usize,   // (m1,m2,128) config A: shares both mints with p_a
    pub p_t: usize,    // token-2022 pool (fee mint + plain 2022 mint)
    pub p_ad: usize,   // adaptive fee pool
    pub p_b: usize,    // (m1,m2,64) in config B
    pub p_22: usize,   // two extension-less Token-2022 mints: unchecked transfers would work on them
    pub pos_22: usize,
    pub owner: usize,
    pub other: usize,
    pub delegate: Pubkey,
    pub pos_full: usize,
    pub pos_empty: usize,
    pub pos_msig: usize,   // funded plain position whose mint address starts with a valid Token multisig header (m=2, n=6, initialised)
    pub pos_same: usize,   // funded, both bounds in one tick array (lower and upper array slots name the same account)
    pub te_full: usize,
    pub te_empty: usize,
    pub te_locked: usize,
    pub te_lockable: usize,
    pub other_pos: usize,  // a funded position of `other` in p_a
    pub pos_a3: usize,     // owner's funded position in p_a3
    pub pos_a2: usize,
    pub pos_t: usize,
    pub pos_ad: usize,
    pub pos_b: usize,
    /// the owner's positions WITHOUT liquidity in other pools (p_a3 and p_b share both mints with p_a; p_a2 shares one; p_t is Token-2022)
    pub empty_foreign: Vec<usize>,
    pub bundle_mint: Pubkey,
    pub bundle_token: Pubkey,
    pub bundled_open: usize, // bundled position index 3 (funded)
    pub empty_bundle_mint: Pubkey,
    pub empty_bundle_token: Pubkey,
    pub aft_a: Pubkey,       // adaptive fee tier (config A, index 1024), delegated fee authority set
    pub aft_delegate: Pubkey,
    pub aft_perm: Pubkey,    // permissioned adaptive tier (index 1025, same tick spacing as aft_a)
    pub aft_perm_delegate: Pubkey,
    pub aft_b: Pubkey,       // adaptive tier in config B
    pub badge_mint: Pubkey,  // a mint with a token badge in config A
}

fn fund(w: &mut World, i: usize, l: u128) {
    let p = w.positions[i].pool;
    let (lo, hi) = (w.positions[i].lower, w.positions[i].upper);
    w.ensure_tick_array(p, lo, (i % 2) == 0);
    w.ensure_tick_array(p, hi, (i % 3) == 0);
    let ix = w.modify_v2(i).increase_liquidity_v2(l, u64::MAX, u64::MAX, None);
    let o = w.exec(ix);
    assert!(o.ok(), "catalogue set-up: funding position {i} failed: {:?} {:?}", o.out.err, o.out.logs);
}

fn open(w: &mut World, p: usize, u: usize, lo: i32, hi: i32, te: bool) -> usize {
    let (ix, info) = w.open_position_ix(p, u, lo, hi, te);
    let o = w.exec(ix);
    assert!(o.ok(), "catalogue set-up: open position failed: {:?} {:?}", o.out.err, o.out.logs);
    w.positions.push(info);
    w.positions.len() - 1
}

pub fn build_base(seed: u64) -> Base {
    let mut w = World::new(rnd::rng(seed));
    let cfg_a = w.add_config(300);
    let cfg_b = w.add_config(100);
    w.add_config_extension(cfg_a);
    w.add_config_extension(cfg_b);
    for c in [cfg_a, cfg_b] {
        let key = w.configs[c].key;
        let o = w.exec(b::SetConfigFeatureFlag { whirlpools_config: key, authority: ADMIN }.ix(b::ConfigFeatureFlag::TokenBadge(true)));
        assert!(o.ok(), "catalogue set-up: feature flag {:?}", o.out.err);
    }
    let owner = w.add_user();
    let other = w.add_user();
    let trader = w.add_user();
    let delegate = w.new_key();
    w.bank.airdrop(delegate, 1_000_000_000_000);
    let (m1, m2, m3) = (w.add_spl_mint(6), w.add_spl_mint(6), w.add_spl_mint(6));
    let t1 = w.add_t22_mint(6, Some(((100, 1_000_000, 0), (200, 2_000_000, 5))));
    let t2 = w.add_t22_mint(6, None);
    let one = 1u128 << 64;
    let p_a = w.add_pool(cfg_a, m1, m2, 64, 3000, one, false).ok().expect("p_a");
    let p_a2 = w.add_pool(cfg_a, m2, m3, 64, 3000, one, true).ok().expect("p_a2");
    let p_a3 = w.add_pool(cfg_a, m1, m2, 128, 1000, one, false).ok().expect("p_a3");
    let p_t = w.add_pool(cfg_a, t1, t2, 64, 3000, one, true).ok().expect("p_t");
    let p_ad = w.add_adaptive_pool(cfg_a, m1, m3, 1024, 64, 2000, (30, 600, 5000, 4000, 350_000, 64, 64), one, None).ok().expect("p_ad");
    let p_b = w.add_pool(cfg_b, m1, m2, 64, 3000, one, false).ok().expect("p_b");
    // positions
    let pos_full = open(&mut w, p_a, owner, -1280, 1280, false);
    fund(&mut w, pos_full, 5_000_000_000);
    let pos_empty = open(&mut w, p_a, owner, -640, 640, false);
    w.key_prefix = Some(vec![2, 6, 1]);
    let pos_msig = open(&mut w, p_a, owner, -1920, 1280, false);
    fund(&mut w, pos_msig, 1_200_000_000);
    let pos_same = open(&mut w, p_a, owner, 640, 1920, false);
    fund(&mut w, pos_same, 2_500_000_000);
    let te_full = open(&mut w, p_a, owner, -2560, 2560, true);
    fund(&mut w, te_full, 3_000_000_000);
    let te_empty = open(&mut w, p_a, owner, -128, 128, true);
    let te_locked = open(&mut w, p_a, owner, -5120, 5120, true);
    fund(&mut w, te_locked, 1_000_000_000);
    let te_lockable = open(&mut w, p_a, owner, -3840, 3840, true);
    fund(&mut w, te_lockable, 1_000_000_000);
    let other_pos = open(&mut w, p_a, other, -1280, 1920, false);
    fund(&mut w, other_pos, 2_000_000_000);
    let pos_a3 = open(&mut w, p_a3, owner, -1280, 1280, false);
    fund(&mut w, pos_a3, 4_000_000_000);
    let pos_a2 = open(&mut w, p_a2, owner, -1280, 1280, false);
    fund(&mut w, pos_a2, 4_000_000_000);
    let (t3, t4) = (w.add_t22_mint(6, None), w.add_t22_mint(6, None));
    let p_22 = w.add_pool(cfg_a, t3, t4, 64, 3000, one, true).ok().expect("p_22");
    let pos_22 = open(&mut w, p_22, owner, -1280, 1280, false);
    fund(&mut w, pos_22, 4_000_000_000);
    let pos_t = open(&mut w, p_t, owner, -1280, 1280, true);
    fund(&mut w, pos_t, 4_000_000_000);
    let pos_ad = open(&mut w, p_ad, owner, -1280, 1280, false);
    fund(&mut w, pos_ad, 4_000_000_000);
    let pos_b = open(&mut w, p_b, owner, -1280, 1280, false);
    fund(&mut w, pos_b, 4_000_000_000);
    let empty_foreign = vec![open(&mut w, p_a3, owner, -2560, 1280, false), open(&mut w, p_b, owner, -1280, 2560, true), open(&mut w, p_a2, owner, -640, 640, false), open(&mut w, p_t, owner, -640, 1280, true)];
    // a second locked position of the same holder, in another pool (its LockConfig is the one to offer in place of te_locked's)
    {
        let extra = open(&mut w, p_a3, owner, -2560, 2560, true);
        fund(&mut w, extra, 500_000_000);
        let pi = w.positions[extra].clone();
        let ix = b::LockPosition {
            funder: ADMIN,
            position_authority: w.users[owner].key,
            position: pi.position,
            position_mint: pi.mint,
            position_token_account: pi.token_account,
            lock_config: b::pda_lock_config(pi.position).0,
            whirlpool: w.pools[p_a3].key,
            token_2022_program: TOKEN22,
            system_program: system_program::ID,
        }
        .ix(b::LockType::Permanent);
        let o = w.exec(ix);
        assert!(o.ok(), "catalogue set-up: second lock failed {:?} {:?}", o.out.err, o.out.logs);
        w.positions[extra].locked = true;
    }
    // lock te_locked
    {
        let pi = w.positions[te_locked].clone();
        let ix = b::LockPosition {
            funder: ADMIN,
            position_authority: w.users[owner].key,
            position: pi.position,
            position_mint: pi.mint,
            position_token_account: pi.token_account,
            lock_config: b::pda_lock_config(pi.position).0,
            whirlpool: w.pools[p_a].key,
            token_2022_program: TOKEN22,
            system_program: system_program::ID,
        }
        .ix(b::LockType::Permanent);
        let o = w.exec(ix);
        assert!(o.ok(), "catalogue set-up: lock failed {:?} {:?}", o.out.err, o.out.logs);
        w.positions[te_locked].locked = true;
    }
    // bundles
    let mk_bundle = |w: &mut World| -> (Pubkey, Pubkey) {
        let mint = w.new_key();
        let ownerk = w.users[owner].key;
        let ta = b::pda_associated_token(ownerk, mint, TOKEN).0;
        let ix = b::InitializePositionBundle {
            position_bundle: b::pda_position_bundle(mint).0,
            position_bundle_mint: mint,
            position_bundle_token_account: ta,
            position_bundle_owner: ownerk,
            funder: ADMIN,
            token_program: TOKEN,
            system_program: system_program::ID,
            rent: RENT_ID,
            associated_token_program: ATA,
        }
        .ix();
        let o = w.exec(ix);
        assert!(o.ok(), "catalogue set-up: bundle failed {:?} {:?}", o.out.err, o.out.logs);
        (mint, ta)
    };
    let (bundle_mint, bundle_token) = mk_bundle(&mut w);
    let (empty_bundle_mint, empty_bundle_token) = mk_bundle(&mut w);
    let bundled_open = {
        let ownerk = w.users[owner].key;
        let bp = b::pda_bundled_position(bundle_mint, 3).0;
        let ix = b::OpenBundledPosition {
            bundled_position: bp,
            position_bundle: b::pda_position_bundle(bundle_mint).0,
            position_bundle_token_account: bundle_token,
            position_bundle_authority: ownerk,
            whirlpool: w.pools[p_a].key,
            funder: ADMIN,
            system_program: system_program::ID,
            rent: RENT_ID,
        }
        .ix(3, -1920, 1920);
        let o = w.exec(ix);
        assert!(o.ok(), "catalogue set-up: open bundled failed {:?} {:?}", o.out.err, o.out.logs);
        w.positions.push(PosInfo { pool: p_a, position: bp, mint: bundle_mint, owner, token_account: bundle_token, kind: PosKind::Bundled { bundle_mint, index: 3 }, lower: -1920, upper: 1920, closed: false, locked: false });
        let i = w.positions.len() - 1;
        fund(&mut w, i, 1_500_000_000);
        i
    };
    {
        let ownerk = w.users[owner].key;
        let ix = b::OpenBundledPosition {
            bundled_position: b::pda_bundled_position(bundle_mint, 9).0,
            position_bundle: b::pda_position_bundle(bundle_mint).0,
            position_bundle_token_account: bundle_token,
            position_bundle_authority: ownerk,
            whirlpool: w.pools[p_a].key,
            funder: ADMIN,
            system_program: system_program::ID,
            rent: RENT_ID,
        }
        .ix(9, -640, 640);
        let o = w.exec(ix);
        assert!(o.ok(), "catalogue set-up: open bundled 9 failed {:?}", o.out.err);
    }
    // rewards on p_a
    for idx in 0..2u8 {
        // reward 1 pays out one of the pool's own tokens: its vault and token_vault_a hold the same mint
        let mint = if idx == 1 { w.pools[p_a].mint_a } else { w.add_spl_mint(6) };
        let (ix, vault) = w.init_reward_ix(p_a, idx, mint);
        let o = w.exec(ix);
        assert!(o.ok(), "catalogue set-up: init reward {:?} {:?}", o.out.err, o.out.logs);
        w.set_token_balance(vault, u64::MAX / 8);
        w.pools[p_a].rewards.push((mint, vault));
        let ix = w.set_emissions_ix(p_a, idx, 1000u128 << 64);
        let o = w.exec(ix);
        assert!(o.ok(), "catalogue set-up: emissions {:?}", o.out.err);
    }
    // a reward on p_b and p_a3 as substitutes
    for p in [p_b, p_a3] {
        let mint = w.pools[p_a].rewards[0].0;
        let (ix, vault) = w.init_reward_ix(p, 0, mint);
        let o = w.exec(ix);
        assert!(o.ok(), "catalogue set-up: init reward other pool {:?} {:?}", o.out.err, o.out.logs);
        w.set_token_balance(vault, u64::MAX / 8);
        w.pools[p].rewards.push((mint, vault));
    }
    // adaptive tiers
    let cfga = w.configs[cfg_a].clone();
    let cfgb = w.configs[cfg_b].clone();
    let aft_a = b::pda_fee_tier(cfga.key, 1024).0;
    let aft_delegate = w.new_key();
    w.bank.airdrop(aft_delegate, 1_000_000_000);
    let o = w.exec(b::SetDelegatedFeeAuthority { whirlpools_config: cfga.key, adaptive_fee_tier: aft_a, fee_authority: cfga.fee_authority, new_delegated_fee_authority: aft_delegate }.ix());
    assert!(o.ok(), "catalogue set-up: delegated authority {:?}", o.out.err);
    let aft_perm = b::pda_fee_tier(cfga.key, 1025).0;
    let o = w.exec(
        b::InitializeAdaptiveFeeTier { whirlpools_config: cfga.key, adaptive_fee_tier: aft_perm, funder: ADMIN, fee_authority: cfga.fee_authority, system_program: system_program::ID }
            .ix(1025, 64, w.users[owner].key, Pubkey::default(), 1000, 30, 600, 5000, 4000, 350_000, 64, 64),
    );
    assert!(o.ok(), "catalogue set-up: permissioned tier {:?}", o.out.err);
    let aft_perm_delegate = w.new_key();
    w.bank.airdrop(aft_perm_delegate, 1_000_000_000);
    let o = w.exec(b::SetDelegatedFeeAuthority { whirlpools_config: cfga.key, adaptive_fee_tier: aft_perm, fee_authority: cfga.fee_authority, new_delegated_fee_authority: aft_perm_delegate }.ix());
    assert!(o.ok(), "catalogue set-up: delegated authority (perm tier) {:?}", o.out.err);
    let aft_b = b::pda_fee_tier(cfgb.key, 1024).0;
    let o = w.exec(
        b::InitializeAdaptiveFeeTier { whirlpools_config: cfgb.key, adaptive_fee_tier: aft_b, funder: ADMIN, fee_authority: cfgb.fee_authority, system_program: system_program::ID }
            .ix(1024, 64, Pubkey::default(), aft_delegate, 1000, 30, 600, 5000, 4000, 350_000, 64, 64),
    );
    assert!(o.ok(), "catalogue set-up: tier B {:?}", o.out.err);
    // token badge in config A
    let badge_mint = w.add_t22_mint(6, None);
    let o = w.exec(
        b::InitializeTokenBadge {
            whirlpools_config: cfga.key,
            whirlpools_config_extension: b::pda_config_extension(cfga.key).0,
            token_badge_authority: cfga.token_badge_authority,
            token_mint: badge_mint,
            token_badge: b::pda_token_badge(cfga.key, badge_mint).0,
            funder: ADMIN,
            system_program: system_program::ID,
        }
        .ix(),
    );
    assert!(o.ok(), "catalogue set-up: token badge {:?} {:?}", o.out.err, o.out.logs);
    // some trading so that fees, protocol fees and rewards are owed
    w.advance_clock(1000);
    for p in [p_a, p_a2, p_a3, p_t, p_ad, p_b, p_22] {
        for (amt, dir) in [(50_000_000u64, true), (80_000_000, false), (30_000_000, true)] {
            let ix = w.swap_ix(p, trader, amt, 0, 0, true, dir, true);
            let o = w.exec(ix);
            assert!(o.ok(), "catalogue set-up: swap on pool {p} failed {:?} {:?}", o.out.err, o.out.logs);
        }
    }
    w.advance_clock(1000);
    for i in [pos_full, te_full, te_locked, te_lockable, other_pos, pos_a3, pos_a2, pos_t, pos_ad, pos_b, pos_22, bundled_open] {
        let o = w.exec(w.update_fees_ix(i));
        assert!(o.ok(), "catalogue set-up: update fees {i} {:?}", o.out.err);
    }
    Base {
        w, cfg_a, cfg_b, p_a, p_a2, p_a3, p_t, p_ad, p_b, p_22, pos_22, owner, other, delegate, pos_full, pos_empty, pos_msig, pos_same, te_full, te_empty, te_locked, te_lockable, other_pos, pos_a3, pos_a2, pos_t, pos_ad, pos_b, empty_foreign,
        bundle_mint, bundle_token, bundled_open, empty_bundle_mint, empty_bundle_token, aft_a, aft_delegate, aft_perm, aft_perm_delegate, aft_b, badge_mint,
    }
}

fn pos_auth(token_slot: &'static str, delegate_may_pass: bool) -> Vec<Auth> {
    vec![Auth { slot: "position_authority", kind: AuthKind::Position { token_slot, delegate_may_pass } }]
}
fn setting(slot: &'static str, other: Option<Pubkey>) -> Vec<Auth> {
    vec![Auth { slot, kind: AuthKind::Setting { other } }]
}

/// One golden invocation per instruction (several for the liquidity family).
pub fn goldens(bs: &mut Base) -> Vec<Golden> {
    let mut v: Vec<Golden> = vec![];
    let w = &mut bs.w;
    let (ca, cb) = (w.configs[bs.cfg_a].clone(), w.configs[bs.cfg_b].clone());
    let ownerk = w.users[bs.owner].key;
    let pa = w.pools[bs.p_a].clone();
    let mut push = |name: &str, ix: Ix, auth: Vec<Auth>, pool: Option<usize>, position: Option<usize>| {
        v.push(Golden { alts: vec![], name: name.to_string(), ix, auth, pool, position });
    };
    // ------------------------------------------------------------ position family (pool A)
    for (label, i) in [("plain", bs.pos_full), ("msig_mint", bs.pos_msig), ("same_array", bs.pos_same), ("token_ext", bs.te_full), ("bundled", bs.bundled_open), ("t22pool", bs.pos_t)] {
        let p = w.positions[i].pool;
        if w.pool_is_spl(p) {
            push(&format!("increase_liquidity[{label}]"), w.modify_v1(i).increase_liquidity(1_000_000, u64::MAX, u64::MAX), pos_auth("position_token_account", true), Some(p), Some(i));
            push(&format!("decrease_liquidity[{label}]"), w.modify_v1(i).decrease_liquidity(1_000_000, 0, 0), pos_auth("position_token_account", true), Some(p), Some(i));
            let ix = w.collect_fees_ix(i, false);
            push(&format!("collect_fees[{label}]"), ix, pos_auth("position_token_account", true), Some(p), Some(i));
        }
        push(&format!("increase_liquidity_v2[{label}]"), w.modify_v2(i).increase_liquidity_v2(1_000_000, u64::MAX, u64::MAX, None), pos_auth("position_token_account", true), Some(p), Some(i));
        push(&format!("decrease_liquidity_v2[{label}]"), w.modify_v2(i).decrease_liquidity_v2(1_000_000, 0, 0, None), pos_auth("position_token_account", true), Some(p), Some(i));
        push(
            &format!("increase_liquidity_by_token_amounts_v2[{label}]"),
            w.modify_v2(i).increase_liquidity_by_token_amounts_v2(b::IncreaseLiquidityMethod::ByTokenAmounts { token_max_a: 1_000_000, token_max_b: 1_000_000, min_sqrt_price: codec::MIN_SQRT_PRICE_X64, max_sqrt_price: codec::MAX_SQRT_PRICE_X64 }, None),
            pos_auth("position_token_account", true),
            Some(p),
            Some(i),
        );
        let ix = w.collect_fees_ix(i, true);
        push(&format!("collect_fees_v2[{label}]"), ix, pos_auth("position_token_account", true), Some(p), Some(i));
    }
    for idx in 0..2u8 {
        for i in [bs.pos_full, bs.te_full] {
            for v1 in [true, false] {
                let ix = w.collect_reward_ix_ver(i, idx, v1);
                let n = ix.name;
                push(&format!("{n}[{idx},{i}]"), ix, pos_auth("position_token_account", true), Some(bs.p_a), Some(i));
            }
        }
    }
    // reposition (Pinocchio only)
    for (label, i) in [("plain", bs.pos_full), ("token_ext", bs.te_full)] {
        let pi = w.positions[i].clone();
        let pool = w.pools[pi.pool].clone();
        let (nl, nu) = (pi.lower - 640, pi.upper + 640);
        let (tl, tu) = w.pos_arrays(&pi);
        let ntl = w.ensure_tick_array(pi.pool, nl, true);
        let ntu = w.ensure_tick_array(pi.pool, nu, false);
        let ix = b::RepositionLiquidityV2 {
            whirlpool: pool.key,
            token_program_a: pool.program_a,
            token_program_b: pool.program_b,
            memo_program: MEMO,
            position_authority: ownerk,
            funder: ADMIN,
            position: pi.position,
            position_token_account: pi.token_account,
            token_mint_a: pool.mint_a,
            token_mint_b: pool.mint_b,
            token_owner_account_a: w.user_token(pi.owner, pool.mint_a),
            token_owner_account_b: w.user_token(pi.owner, pool.mint_b),
            token_vault_a: pool.vault_a,
            token_vault_b: pool.vault_b,
            existing_tick_array_lower: tl,
            existing_tick_array_upper: tu,
            new_tick_array_lower: ntl,
            new_tick_array_upper: ntu,
            system_program: system_program::ID,
        }
        .ix(nl, nu, b::RepositionLiquidityMethod::ByLiquidity { new_liquidity_amount: 1_000_000_000, existing_range_token_min_a: 0, existing_range_token_min_b: 0, new_range_token_max_a: u64::MAX, new_range_token_max_b: u64::MAX }, None);
        push(&format!("reposition_liquidity_v2[{label}]"), ix, pos_auth("position_token_account", true), Some(pi.pool), Some(i));
    }
    // close / reset / lock / transfer
    push("close_position", w.close_position_ix(bs.pos_empty), pos_auth("position_token_account", true), None, Some(bs.pos_empty));
    push("close_position_with_token_extensions", w.close_position_ix(bs.te_empty), pos_auth("position_token_account", true), None, Some(bs.te_empty));
    for (label, i) in [("plain", bs.pos_empty), ("token_ext", bs.te_empty)] {
        let pi = w.positions[i].clone();
        let ix = b::ResetPositionRange { funder: ADMIN, position_authority: ownerk, whirlpool: pa.key, position: pi.position, position_token_account: pi.token_account, system_program: system_program::ID }.ix(pi.lower - 64, pi.upper + 64);
        push(&format!("reset_position_range[{label}]"), ix, pos_auth("position_token_account", true), Some(bs.p_a), Some(i));
    }
    {
        let pi = w.positions[bs.te_lockable].clone();
        let ix = b::LockPosition {
            funder: ADMIN,
            position_authority: ownerk,
            position: pi.position,
            position_mint: pi.mint,
            position_token_account: pi.token_account,
            lock_config: b::pda_lock_config(pi.position).0,
            whirlpool: pa.key,
            token_2022_program: TOKEN22,
            system_program: system_program::ID,
        }
        .ix(b::LockType::Permanent);
        push("lock_position", ix, pos_auth("position_token_account", true), Some(bs.p_a), Some(bs.te_lockable));
    }
    {
        let pi = w.positions[bs.te_locked].clone();
        let dest_owner = w.users[bs.other].key;
        let dest = w.create_token_account(pi.mint, dest_owner);
        let ix = b::TransferLockedPosition {
            position_authority: ownerk,
            receiver: ownerk,
            position: pi.position,
            position_mint: pi.mint,
            position_token_account: pi.token_account,
            destination_token_account: dest,
            lock_config: b::pda_lock_config(pi.position).0,
            token_2022_program: TOKEN22,
        }
        .ix();
        push("transfer_locked_position", ix, pos_auth("position_token_account", true), None, Some(bs.te_locked));
    }
    // bundles: holder of the bundle token
    {
        let bundle = b::pda_position_bundle(bs.bundle_mint).0;
        let ix = b::OpenBundledPosition {
            bundled_position: b::pda_bundled_position(bs.bundle_mint, 7).0,
            position_bundle: bundle,
            position_bundle_token_account: bs.bundle_token,
            position_bundle_authority: ownerk,
            whirlpool: pa.key,
            funder: ADMIN,
            system_program: system_program::ID,
            rent: RENT_ID,
        }
        .ix(7, -640, 640);
        v.push(Golden { alts: vec![], name: "open_bundled_position".into(), ix, auth: vec![Auth { slot: "position_bundle_authority", kind: AuthKind::Position { token_slot: "position_bundle_token_account", delegate_may_pass: true } }], pool: Some(bs.p_a), position: None });
    }
    {
        let ix = b::CloseBundledPosition {
            bundled_position: b::pda_bundled_position(bs.bundle_mint, 9).0,
            position_bundle: b::pda_position_bundle(bs.bundle_mint).0,
            position_bundle_token_account: bs.bundle_token,
            position_bundle_authority: ownerk,
            receiver: ownerk,
        }
        .ix(9);
        v.push(Golden { alts: vec![], name: "close_bundled_position".into(), ix, auth: vec![Auth { slot: "position_bundle_authority", kind: AuthKind::Position { token_slot: "position_bundle_token_account", delegate_may_pass: true } }], pool: None, position: None });
    }
    {
        let ebundle = b::pda_position_bundle(bs.empty_bundle_mint).0;
        let ix = b::DeletePositionBundle {
            position_bundle: ebundle,
            position_bundle_mint: bs.empty_bundle_mint,
            position_bundle_token_account: bs.empty_bundle_token,
            position_bundle_owner: ownerk,
            receiver: ownerk,
            token_program: TOKEN,
        }
        .ix();
        v.push(Golden { alts: vec![], name: "delete_position_bundle".into(), ix, auth: vec![Auth { slot: "position_bundle_owner", kind: AuthKind::Position { token_slot: "position_bundle_token_account", delegate_may_pass: false } }], pool: None, position: None });
    }
    let w = &mut bs.w;
    let mut push = |name: &str, ix: Ix, auth: Vec<Auth>, pool: Option<usize>| {
        v.push(Golden { alts: vec![], name: name.to_string(), ix, auth, pool, position: None });
    };
    // ------------------------------------------------------------ settings
    let new_key = w.new_key();
    push("initialize_fee_tier", b::InitializeFeeTier { config: ca.key, fee_tier: b::pda_fee_tier(ca.key, 8).0, funder: ADMIN, fee_authority: ca.fee_authority, system_program: system_program::ID }.ix(8, 500), setting("fee_authority", Some(cb.fee_authority)), None);
    push("set_default_fee_rate", b::SetDefaultFeeRate { whirlpools_config: ca.key, fee_tier: b::pda_fee_tier(ca.key, 64).0, fee_authority: ca.fee_authority }.ix(2500), setting("fee_authority", Some(cb.fee_authority)), None);
    push("set_default_protocol_fee_rate", b::SetDefaultProtocolFeeRate { whirlpools_config: ca.key, fee_authority: ca.fee_authority }.ix(250), setting("fee_authority", Some(cb.fee_authority)), None);
    push("set_fee_rate", b::SetFeeRate { whirlpools_config: ca.key, whirlpool: pa.key, fee_authority: ca.fee_authority }.ix(4000), setting("fee_authority", Some(cb.fee_authority)), Some(bs.p_a));
    push("set_protocol_fee_rate", b::SetProtocolFeeRate { whirlpools_config: ca.key, whirlpool: pa.key, fee_authority: ca.fee_authority }.ix(400), setting("fee_authority", Some(cb.fee_authority)), Some(bs.p_a));
    push("set_fee_authority", b::SetFeeAuthority { whirlpools_config: ca.key, fee_authority: ca.fee_authority, new_fee_authority: new_key }.ix(), setting("fee_authority", Some(cb.fee_authority)), None);
    push("set_collect_protocol_fees_authority", b::SetCollectProtocolFeesAuthority { whirlpools_config: ca.key, collect_protocol_fees_authority: ca.collect_protocol_fees_authority, new_collect_protocol_fees_authority: new_key }.ix(), setting("collect_protocol_fees_authority", Some(cb.collect_protocol_fees_authority)), None);
    push("set_reward_emissions_super_authority", b::SetRewardEmissionsSuperAuthority { whirlpools_config: ca.key, reward_emissions_super_authority: ca.reward_emissions_super_authority, new_reward_emissions_super_authority: new_key }.ix(), setting("reward_emissions_super_authority", Some(cb.reward_emissions_super_authority)), None);
    push("set_reward_authority", b::SetRewardAuthority { whirlpool: pa.key, reward_authority: pa.reward_authority, new_reward_authority: new_key }.ix(0), setting("reward_authority", Some(cb.reward_emissions_super_authority)), Some(bs.p_a));
    push("set_reward_authority_by_super_authority", b::SetRewardAuthorityBySuperAuthority { whirlpools_config: ca.key, whirlpool: pa.key, reward_emissions_super_authority: ca.reward_emissions_super_authority, new_reward_authority: new_key }.ix(0), setting("reward_emissions_super_authority", Some(cb.reward_emissions_super_authority)), Some(bs.p_a));
    {
        let mint = w.add_spl_mint(6);
        let vault = w.new_key();
        let ix = b::InitializeReward { reward_authority: pa.reward_authority, funder: ADMIN, whirlpool: pa.key, reward_mint: mint, reward_vault: vault, token_program: TOKEN, system_program: system_program::ID, rent: RENT_ID }.ix(2);
        push("initialize_reward", ix, setting("reward_authority", Some(cb.reward_emissions_super_authority)), Some(bs.p_a));
        let mint2 = w.add_t22_mint(6, None);
        let vault2 = w.new_key();
        let ix = b::InitializeRewardV2 { reward_authority: pa.reward_authority, funder: ADMIN, whirlpool: pa.key, reward_mint: mint2, reward_token_badge: b::pda_token_badge(ca.key, mint2).0, reward_vault: vault2, reward_token_program: TOKEN22, system_program: system_program::ID, rent: RENT_ID }.ix(2);
        push("initialize_reward_v2", ix, setting("reward_authority", Some(cb.reward_emissions_super_authority)), Some(bs.p_a));
    }
    push("set_reward_emissions", b::SetRewardEmissions { whirlpool: pa.key, reward_authority: pa.reward_authority, reward_vault: pa.rewards[0].1 }.ix(0, 5u128 << 64), setting("reward_authority", Some(cb.reward_emissions_super_authority)), Some(bs.p_a));
    push("set_reward_emissions_v2", b::SetRewardEmissionsV2 { whirlpool: pa.key, reward_authority: pa.reward_authority, reward_vault: pa.rewards[1].1 }.ix(1, 7u128 << 64), setting("reward_authority", Some(cb.reward_emissions_super_authority)), Some(bs.p_a));
    // the same two with the other reward: reward 1 pays one of the pool's own tokens, so the pool's vault of that token is a same-mint, pool-owned substitute
    push("set_reward_emissions", b::SetRewardEmissions { whirlpool: pa.key, reward_authority: pa.reward_authority, reward_vault: pa.rewards[1].1 }.ix(1, 6u128 << 64), setting("reward_authority", Some(cb.reward_emissions_super_authority)), Some(bs.p_a));
    push("set_reward_emissions_v2", b::SetRewardEmissionsV2 { whirlpool: pa.key, reward_authority: pa.reward_authority, reward_vault: pa.rewards[0].1 }.ix(0, 8u128 << 64), setting("reward_authority", Some(cb.reward_emissions_super_authority)), Some(bs.p_a));
    let ix = w.collect_protocol_fees_ix(bs.p_a, bs.other, false);
    push("collect_protocol_fees", ix, setting("collect_protocol_fees_authority", Some(cb.collect_protocol_fees_authority)), Some(bs.p_a));
    let ix = w.collect_protocol_fees_ix(bs.p_t, bs.other, true);
    push("collect_protocol_fees_v2", ix, setting("collect_protocol_fees_authority", Some(cb.collect_protocol_fees_authority)), Some(bs.p_t));
    push(
        "initialize_adaptive_fee_tier",
        b::InitializeAdaptiveFeeTier { whirlpools_config: ca.key, adaptive_fee_tier: b::pda_fee_tier(ca.key, 2000).0, funder: ADMIN, fee_authority: ca.fee_authority, system_program: system_program::ID }.ix(2000, 128, Pubkey::default(), Pubkey::default(), 1500, 30, 600, 5000, 4000, 350_000, 128, 128),
        setting("fee_authority", Some(cb.fee_authority)),
        None,
    );
    push("set_default_base_fee_rate", b::SetDefaultBaseFeeRate { whirlpools_config: ca.key, adaptive_fee_tier: bs.aft_a, fee_authority: ca.fee_authority }.ix(2222), setting("fee_authority", Some(cb.fee_authority)), None);
    push("set_delegated_fee_authority", b::SetDelegatedFeeAuthority { whirlpools_config: ca.key, adaptive_fee_tier: bs.aft_a, fee_authority: ca.fee_authority, new_delegated_fee_authority: new_key }.ix(), setting("fee_authority", Some(cb.fee_authority)), None);
    push("set_initialize_pool_authority", b::SetInitializePoolAuthority { whirlpools_config: ca.key, adaptive_fee_tier: bs.aft_a, fee_authority: ca.fee_authority, new_initialize_pool_authority: new_key }.ix(), setting("fee_authority", Some(cb.fee_authority)), None);
    push("set_preset_adaptive_fee_constants", b::SetPresetAdaptiveFeeConstants { whirlpools_config: ca.key, adaptive_fee_tier: bs.aft_a, fee_authority: ca.fee_authority }.ix(20, 500, 4000, 3000, 300_000, 64, 32), setting("fee_authority", Some(cb.fee_authority)), None);
    let pad = w.pools[bs.p_ad].clone();
    push("set_adaptive_fee_constants", b::SetAdaptiveFeeConstants { whirlpool: pad.key, whirlpools_config: ca.key, oracle: pad.oracle, fee_authority: ca.fee_authority }.ix(Some(25), None, None, Some(3500), None, None, None), setting("fee_authority", Some(cb.fee_authority)), Some(bs.p_ad));
    push("set_fee_rate_by_delegated_fee_authority", b::SetFeeRateByDelegatedFeeAuthority { whirlpool: pad.key, adaptive_fee_tier: bs.aft_a, delegated_fee_authority: bs.aft_delegate }.ix(2500), setting("delegated_fee_authority", Some(cb.fee_authority)), Some(bs.p_ad));
    {
        // a third config without extension yet
        let cc = w.add_config(100);
        let c = w.configs[cc].clone();
        push("initialize_config_extension", b::InitializeConfigExtension { config: c.key, config_extension: b::pda_config_extension(c.key).0, funder: ADMIN, fee_authority: c.fee_authority, system_program: system_program::ID }.ix(), setting("fee_authority", Some(cb.fee_authority)), None);
    }
    let ext_a = b::pda_config_extension(ca.key).0;
    push("set_config_extension_authority", b::SetConfigExtensionAuthority { whirlpools_config: ca.key, whirlpools_config_extension: ext_a, config_extension_authority: ca.config_extension_authority, new_config_extension_authority: new_key }.ix(), setting("config_extension_authority", Some(cb.config_extension_authority)), None);
    push("set_token_badge_authority", b::SetTokenBadgeAuthority { whirlpools_config: ca.key, whirlpools_config_extension: ext_a, config_extension_authority: ca.config_extension_authority, new_token_badge_authority: new_key }.ix(), setting("config_extension_authority", Some(cb.config_extension_authority)), None);
    {
        let m = w.add_t22_mint(6, None);
        push("initialize_token_badge", b::InitializeTokenBadge { whirlpools_config: ca.key, whirlpools_config_extension: ext_a, token_badge_authority: ca.token_badge_authority, token_mint: m, token_badge: b::pda_token_badge(ca.key, m).0, funder: ADMIN, system_program: system_program::ID }.ix(), setting("token_badge_authority", Some(cb.token_badge_authority)), None);
    }
    let badge = b::pda_token_badge(ca.key, bs.badge_mint).0;
    push("delete_token_badge", b::DeleteTokenBadge { whirlpools_config: ca.key, whirlpools_config_extension: ext_a, token_badge_authority: ca.token_badge_authority, token_mint: bs.badge_mint, token_badge: badge, receiver: ownerk }.ix(), setting("token_badge_authority", Some(cb.token_badge_authority)), None);
    push("set_token_badge_attribute", b::SetTokenBadgeAttribute { whirlpools_config: ca.key, whirlpools_config_extension: ext_a, token_badge_authority: ca.token_badge_authority, token_mint: bs.badge_mint, token_badge: badge }.ix(b::TokenBadgeAttribute::RequireNonTransferablePosition(true)), setting("token_badge_authority", Some(cb.token_badge_authority)), None);
    push("set_config_feature_flag", b::SetConfigFeatureFlag { whirlpools_config: ca.key, authority: ADMIN }.ix(b::ConfigFeatureFlag::TokenBadge(true)), setting("authority", Some(ca.fee_authority)), None);
    {
        let k = w.new_key();
        let fa = w.new_key();
        push("initialize_config", b::InitializeConfig { config: k, funder: ADMIN, system_program: system_program::ID }.ix(fa, fa, fa, 100), setting("funder", Some(ca.fee_authority)), None);
    }
    {
        // pool on the permissioned adaptive tier: only its initialize_pool_authority may create pools
        let (m1, m2) = (w.add_spl_mint(6), w.add_spl_mint(6));
        let (ma, mb) = if m1 < m2 { (m1, m2) } else { (m2, m1) };
        let pool = b::pda_whirlpool(ca.key, ma, mb, 1025).0;
        let (va, vb) = (w.new_key(), w.new_key());
        let ix = b::InitializePoolWithAdaptiveFee {
            whirlpools_config: ca.key,
            token_mint_a: ma,
            token_mint_b: mb,
            token_badge_a: b::pda_token_badge(ca.key, ma).0,
            token_badge_b: b::pda_token_badge(ca.key, mb).0,
            funder: ADMIN,
            initialize_pool_authority: ownerk,
            whirlpool: pool,
            oracle: b::pda_oracle(pool).0,
            token_vault_a: va,
            token_vault_b: vb,
            adaptive_fee_tier: bs.aft_perm,
            token_program_a: TOKEN,
            token_program_b: TOKEN,
            system_program: system_program::ID,
            rent: RENT_ID,
        }
        .ix(1u128 << 64, None);
        push("initialize_pool_with_adaptive_fee[permissioned]", ix, setting("initialize_pool_authority", Some(ca.fee_authority)), None);
    }
    // ---- "right authority of a sibling object" scenarios ----
    let ext_b = b::pda_config_extension(cb.key).0;
    for g in v.iter_mut() {
        let Some(a) = g.auth.first() else { continue };
        let AuthKind::Setting { other: Some(other) } = &a.kind else { continue };
        // the config (and its extension) of another deployment together with that deployment's authority,
        // aimed at an object of this deployment
        for cslot in ["whirlpools_config", "config"] {
            if let Some(i) = g.ix.slot(cslot) {
                if !g.ix.metas[i].writable && g.ix.metas[i].key == ca.key {
                    let mut replace = vec![(cslot, cb.key)];
                    // the extension goes with its config only where it is a read-only companion; where it is
                    // the object being changed it stays the one of this deployment
                    if let Some(e) = g.ix.slot("whirlpools_config_extension") {
                        if !g.ix.metas[e].writable {
                            replace.push(("whirlpools_config_extension", ext_b));
                        }
                    }
                    g.alts.push(Alt { name: "c2:other_config_with_its_authority", replace, slot: a.slot, signer: *other });
                }
            }
        }
        if g.ix.name == "set_fee_rate_by_delegated_fee_authority" {
            g.alts.push(Alt { name: "c2:sibling_tier_with_its_delegate", replace: vec![("adaptive_fee_tier", bs.aft_perm)], slot: a.slot, signer: bs.aft_perm_delegate });
            g.alts.push(Alt { name: "c2:tier_of_other_config_with_its_delegate", replace: vec![("adaptive_fee_tier", bs.aft_b)], slot: a.slot, signer: bs.aft_delegate });
        }
    }
    v
}

/// Names of the instructions of the `#[program]` module, parsed from /repo at run time.
pub fn program_instruction_names() -> Vec<String> {
    let src = std::fs::read_to_string("/repo/programs/whirlpool/src/lib.rs").unwrap_or_default();
    let mut v = vec![];
    let mut in_program = false;
    for line in src.lines() {
        if line.contains("#[program]") {
            in_program = true;
        }
        if !in_program {
            continue;
        }
        let t = line.trim_start();
        if let Some(rest) = t.strip_prefix("pub fn ") {
            let name: String = rest.chars().take_while(|c| c.is_alphanumeric() || *c == '_').collect();
            if !name.is_empty() && name != "idl_include" {
                v.push(name);
            }
        }
    }
    v
}

pub fn bank_of(bs: &Base) -> Bank {
    bs.w.bank.clone()
}
