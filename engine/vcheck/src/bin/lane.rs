//! Sanitizer lane driver: small, single-threaded slices of the function-level and instruction-level
//! workloads, meant to be executed under Miri (`cargo +nightly miri run --bin lane -- ...`), under an
//! AddressSanitizer build, or natively (self-test). Oracles are the same functions the checks use.
//!
//! usage: lane <c13|c12|c02|c08|c09|c16|smoke> <part> <parts> <seed>
//! prints one line `LANE <name> part=<p>/<n> evaluations=<k> violations=<v>`; exit 1 if an oracle fired.
use rand::Rng;
use vcheck::checks::{c02, c13};
use vcheck::codec;
use vcheck::report::Acc;
use vcheck::rnd;

fn lane_c13(part: usize, parts: usize, seed: u64, acc: &mut Acc) {
    let mut r = rnd::rng(seed ^ part as u64);
    let slots = [0i32, 1, 62, 63, 64, 65, 86, 87];
    // every subset of the boundary slots whose index falls into this part, one spacing/start combination per part
    let combos = [(1u16, 0i32), (64, -88 * 64 * 3), (1, c13::min_array_start(1)), (32896, c13::min_array_start(32896))];
    let (sp, st) = combos[part % combos.len()];
    for subset in 0u32..256 {
        if (subset as usize) % parts != part {
            continue;
        }
        let mut q = c13::Quad::new(st, sp);
        for (b, s) in slots.iter().enumerate() {
            if subset & (1 << b) != 0 {
                let idx = q.slot_index(*s);
                let td = c13::TD { net: r.gen(), gross: r.gen::<u128>() | 1, fa: r.gen(), fb: r.gen(), rw: [r.gen(), r.gen(), u128::MAX - r.gen::<u64>() as u128] };
                let _ = q.update(idx, Some(td)).map_err(|e| acc.violation("lane:c13:update", e, serde_json::json!({"subset": subset})));
            }
        }
        for (b, s) in slots.iter().enumerate() {
            for init in [true, false] {
                let idx = q.slot_index(*s);
                let td = init.then(|| c13::TD { net: -1, gross: 7, fa: r.gen(), fb: 3, rw: [r.gen(), 0, u128::MAX] });
                if let Err(e) = q.update(idx, td) {
                    acc.violation("lane:c13:update", e, serde_json::json!({"subset": subset, "slot": b}));
                }
                if let Err(e) = q.check_encoding() {
                    acc.violation("lane:c13:encoding", e, serde_json::json!({"subset": subset, "slot": b}));
                }
                for probe in [0i32, 1, 63, 64, 87, -1, 88] {
                    let i2 = q.slot_index(probe);
                    if let Err(e) = q.check_get(i2).and_then(|_| q.check_next(i2, true)).and_then(|_| q.check_next(i2, false)) {
                        acc.violation("lane:c13:query", e, serde_json::json!({"subset": subset, "slot": b}));
                    }
                    acc.evaluations += 3;
                }
            }
        }
    }
}

fn lane_c12(part: usize, _parts: usize, seed: u64, n: usize, acc: &mut Acc) {
    // synthetic but well-formed bytes written by the harness encoders (fixed and dynamic arrays, one or two arrays)
    let mut r = rnd::rng(seed ^ (part as u64) << 8);
    for k in 0..n {
        let sp: u16 = *rnd::pick(&mut r, &[1u16, 8, 64]);
        let tia = 88 * sp as i32;
        let pool_key = solana_program::pubkey::Pubkey::new_from_array(r.gen());
        let lo = r.gen_range(-60..40) * sp as i32;
        let hi = lo + r.gen_range(1..120) * sp as i32;
        let tc = r.gen_range(-80..80) * sp as i32 + r.gen_range(0..sp as i32);
        let pool = codec::Pool {
            tick_spacing: sp,
            fee_tier_index: sp,
            fee_rate: 3000,
            protocol_fee_rate: 300,
            liquidity: rnd::log_u128(&mut r, 90),
            sqrt_price: whirlpool::math::sqrt_price_from_tick_index(tc) + 1,
            tick_current_index: tc,
            fee_growth_global_a: r.gen(),
            fee_growth_global_b: r.gen(),
            reward_last_updated_timestamp: 1_000,
            reward_infos: [
                codec::RewardInfo { mint: pool_key, vault: pool_key, emissions_per_second_x64: if k % 4 == 1 { 0 } else { rnd::log_u128(&mut r, 80) }, growth_global_x64: r.gen(), ..Default::default() },
                Default::default(),
                Default::default(),
            ],
            ..Default::default()
        };
        let l_pos = if k % 3 == 0 { 0 } else { rnd::log_u128(&mut r, 80) };
        let pos = codec::Position { whirlpool: pool_key, liquidity: l_pos, tick_lower_index: lo, tick_upper_index: hi, fee_growth_checkpoint_a: r.gen(), fee_growth_checkpoint_b: r.gen(), ..Default::default() };
        let mk_array = |r: &mut rnd::R, start: i32| -> codec::TickArray {
            let mut ticks = vec![codec::Tick::default(); 88];
            for (i, t) in ticks.iter_mut().enumerate() {
                let idx = start + i as i32 * sp as i32;
                if (idx == lo || idx == hi) && l_pos > 0 || r.gen_range(0..20) == 0 {
                    *t = codec::Tick { initialized: true, liquidity_net: if idx == hi { -(l_pos as i128) } else { l_pos as i128 }, liquidity_gross: l_pos.max(1), fee_growth_outside_a: r.gen(), fee_growth_outside_b: r.gen(), reward_growths_outside: [r.gen(), 0, 0] };
                }
            }
            codec::TickArray { dynamic: false, start_tick_index: start, whirlpool: pool_key, ticks, bitmap: 0, used_len: 0 }
        };
        let (sl, su) = (lo.div_euclid(tia) * tia, hi.div_euclid(tia) * tia);
        let al = mk_array(&mut r, sl);
        let bl = if r.gen() { al.encode_dynamic() } else { al.encode_fixed() };
        let bu = if su != sl {
            let au = mk_array(&mut r, su);
            Some(if r.gen() { au.encode_dynamic() } else { au.encode_fixed() })
        } else {
            None
        };
        let delta: i128 = match r.gen_range(0..6) {
            0 => 0,
            1 => -(l_pos as i128),
            2 => i128::MAX,
            3 => -((l_pos as i128) / 2),
            _ => rnd::log_u128(&mut r, 70) as i128,
        };
        let ts = if r.gen_range(0..8) == 0 { 999 } else { 1_000 + r.gen_range(0..100_000) };
        if let Some(d) = vcheck::monitors::c12::differential(&pool.encode(), &pos.encode(), &bl, bu.as_deref(), delta, ts, acc) {
            acc.violation("lane:c12:function_differential", d, serde_json::json!({"case": k}));
        }
    }
}

fn lane_c02(part: usize, seed: u64, n: usize, acc: &mut Acc) {
    let mut r = rnd::rng(seed ^ (part as u64) << 16);
    for _ in 0..n {
        let c = c02::gen_case(&mut r);
        acc.evaluations += 1;
        match vcheck::svm::quiet_catch(|| whirlpool::math::compute_swap(c.amount, c.rate, c.liquidity, c.p0, c.pt, c.exact_in, c.a_to_b)) {
            Ok(Ok(o)) => {
                acc.count("ok");
                let o = c02::StepOut { amount_in: o.amount_in, amount_out: o.amount_out, next_price: o.next_price, fee_amount: o.fee_amount };
                if let Some((sig, d)) = c02::check_step(&c, &o) {
                    acc.violation(format!("lane:c02:{sig}"), d, c02::step_json(&c, Some(&o)));
                }
            }
            Ok(Err(_)) => acc.count("err"),
            Err(_) => acc.count("program_panicked"),
        }
    }
}

/// Transfer-fee algebra and the Pinocchio mint loader / TLV parser on well-formed and corrupted mint bytes.
fn lane_c16(part: usize, seed: u64, n: usize, acc: &mut Acc) {
    let mut r = rnd::rng(seed ^ (part as u64) << 32 ^ 0xc16);
    vcheck::checks::c16::fee_slice(&mut r, n as u64, 6, acc);
    vcheck::checks::c16::tlv_slice(&mut r, n as u64, acc);
}

fn lane_c09(part: usize, parts: usize, acc: &mut Acc) {
    // a stride through the whole tick range
    let mut prev: Option<u128> = None;
    let mut t = codec::MIN_TICK_INDEX + part as i32;
    while t <= codec::MAX_TICK_INDEX {
        let p = whirlpool::math::sqrt_price_from_tick_index(t);
        let back = whirlpool::math::tick_index_from_sqrt_price(&p);
        acc.evaluations += 1;
        if back != t {
            acc.violation("lane:c09:round_trip", format!("tick {t} -> {p} -> {back}"), serde_json::json!({"tick": t}));
        }
        if let Some(q) = prev {
            if p <= q {
                acc.violation("lane:c09:monotone", format!("price({t}) = {p} <= {q}"), serde_json::json!({"tick": t}));
            }
        }
        prev = Some(p);
        t += (parts as i32) * 97;
    }
}

fn lane_c08(part: usize, seed: u64, n: usize, acc: &mut Acc) {
    use anchor_lang::AccountDeserialize;
    use vcheck::model::position_amounts;
    let mut r = rnd::rng(seed ^ (part as u64) << 24);
    for _ in 0..n {
        let s = *rnd::pick(&mut r, &[1i32, 64, 128]);
        let lo = r.gen_range(-3000..3000) * s;
        let hi = lo + r.gen_range(1..500) * s;
        if hi > codec::MAX_TICK_INDEX || lo < codec::MIN_TICK_INDEX {
            continue;
        }
        let price = rnd::sqrt_price(&mut r);
        let tc = whirlpool::math::tick_index_from_sqrt_price(&price);
        let l = rnd::log_u128(&mut r, 100).max(1);
        let up: bool = r.gen();
        let pos = codec::Position { tick_lower_index: lo, tick_upper_index: hi, ..Default::default() };
        let bytes = pos.encode();
        let apos = whirlpool::state::Position::try_deserialize(&mut &bytes[..]).unwrap();
        let ppos = unsafe { &*(bytes.as_ptr() as *const whirlpool::pinocchio::verif_export::wp_state::MemoryMappedPosition) };
        let (pl, pu) = (whirlpool::math::sqrt_price_from_tick_index(lo), whirlpool::math::sqrt_price_from_tick_index(hi));
        let (ea, eb) = position_amounts(tc, price, lo, hi, pl, pu, l, up);
        let d = if up { l as i128 } else { -(l as i128) };
        let ra = whirlpool::manager::liquidity_manager::calculate_liquidity_token_deltas(tc, price, &apos, d).ok();
        let rp = whirlpool::pinocchio::verif_export::manager_liquidity_manager::pino_calculate_liquidity_token_deltas(tc, price, ppos, d).ok();
        acc.evaluations += 1;
        for (name, res) in [("anchor", ra), ("pinocchio", rp)] {
            if let Some((a, b)) = res {
                if num_bigint::BigUint::from(a) != ea || num_bigint::BigUint::from(b) != eb {
                    acc.violation(format!("lane:c08:{name}"), format!("({a}, {b}) != exact ({ea}, {eb})"), serde_json::json!({"lower": lo, "upper": hi, "liquidity": l.to_string()}));
                }
            }
        }
    }
}

/// Instruction-level smoke history (both array kinds, Pinocchio increase/decrease/reposition with
/// resize, swaps with crossings, fee update, collection) with the C05 / C13 in-situ invariants.
fn lane_smoke(seed: u64, acc: &mut Acc) {
    use vcheck::world::*;
    let mut w = World::new(rnd::rng(seed));
    let c = w.add_config(300);
    let (m1, m2) = (w.add_spl_mint(6), w.add_spl_mint(6));
    let u = w.add_user();
    let p = w.add_pool(c, m1, m2, 64, 3000, 1u128 << 64, false).ok().expect("pool");
    let check = |w: &mut World, what: &str, acc: &mut Acc| {
        let pk = w.pools[p].key;
        for (sig, d) in vcheck::monitors::c05::check_pool(&w.bank, &pk, acc) {
            acc.violation(format!("lane:smoke:{sig}:{what}"), d, serde_json::json!({}));
        }
        acc.evaluations += 1;
    };
    let open = |w: &mut World, lo: i32, hi: i32, dl: bool, du: bool, l: u128, acc: &mut Acc| -> usize {
        let (ix, info) = w.open_position_ix(p, u, lo, hi, false);
        assert!(w.exec(ix).ok());
        w.positions.push(info);
        let i = w.positions.len() - 1;
        w.ensure_tick_array(p, lo, dl);
        w.ensure_tick_array(p, hi, du);
        let ix = w.modify_v1(i).increase_liquidity(l, u64::MAX, u64::MAX);
        let o = w.exec(ix);
        assert!(o.ok(), "{:?}", o.out.err);
        check(w, "increase", acc);
        i
    };
    let a = open(&mut w, -128, 128, true, false, 1_000_000_000, acc);
    let b = open(&mut w, -6400, 6400, true, true, 500_000_000, acc);
    let _c = open(&mut w, -64, 5632, true, false, 200_000_000, acc);
    for (amt, dir, exact) in [(3_000_000u64, true, true), (9_000_000, false, true), (1_000_000, true, false)] {
        let ix = w.swap_ix(p, u, amt, if exact { 0 } else { u64::MAX }, 0, exact, dir, !exact);
        let o = w.exec(ix);
        assert!(o.ok(), "{:?} {:?}", o.out.err, o.out.logs);
        check(&mut w, "swap", acc);
    }
    let o = w.exec(w.update_fees_ix(a));
    assert!(o.ok());
    let ix = w.collect_fees_ix(a, true);
    assert!(w.exec(ix).ok());
    let ix = w.modify_v2(b).decrease_liquidity_v2(500_000_000, 0, 0, None);
    assert!(w.exec(ix).ok());
    check(&mut w, "decrease", acc);
    let ix = w.modify_v1(a).decrease_liquidity(1_000_000_000, 0, 0);
    assert!(w.exec(ix).ok());
    check(&mut w, "decrease_all", acc);
    let ix = w.collect_fees_ix(a, false);
    assert!(w.exec(ix).ok());
    assert!(w.exec(w.close_position_ix(a)).ok());
    check(&mut w, "close", acc);
}

/// Second smoke history: Token-2022 mints (one with a transfer fee), v2 instructions, Pinocchio
/// reposition onto dynamic arrays (account growth), two-hop v2 across both pools.
fn lane_smoke2(seed: u64, acc: &mut Acc) {
    use solana_program::system_program;
    use vcheck::ix::build as b;
    use vcheck::world::*;
    let mut w = World::new(rnd::rng(seed ^ 0x5eed));
    let c = w.add_config(1000);
    let m1 = w.add_spl_mint(6);
    let m2 = w.add_t22_mint(9, Some(((100, 5_000, 0), (250, 9_000, 1))));
    let m3 = w.add_t22_mint(6, None);
    let u = w.add_user();
    let p = w.add_pool(c, m1, m2, 8, 500, 1u128 << 64, true).ok().expect("pool one");
    let q = w.add_pool(c, m2, m3, 128, 10000, 3u128 << 63, true).ok().expect("pool two");
    let check = |w: &mut World, what: &str, acc: &mut Acc| {
        for pi in [p, q] {
            let pk = w.pools[pi].key;
            for (sig, d) in vcheck::monitors::c05::check_pool(&w.bank, &pk, acc) {
                acc.violation(format!("lane:smoke2:{sig}:{what}"), d, serde_json::json!({}));
            }
        }
        acc.evaluations += 1;
    };
    let open = |w: &mut World, pool: usize, lo: i32, hi: i32, l: u128, acc: &mut Acc| -> usize {
        let (ix, info) = w.open_position_ix(pool, u, lo, hi, true);
        let o = w.exec(ix);
        assert!(o.ok(), "{:?}", o.out.err);
        w.positions.push(info);
        let i = w.positions.len() - 1;
        w.ensure_tick_array(pool, lo, true);
        w.ensure_tick_array(pool, hi, true);
        let ix = w.modify_v2(i).increase_liquidity_v2(l, u64::MAX, u64::MAX, None);
        let o = w.exec(ix);
        assert!(o.ok(), "{:?} {:?}", o.out.err, o.out.logs);
        check(w, "increase_v2", acc);
        i
    };
    let a = open(&mut w, p, -800, 800, 4_000_000_000, acc);
    let _b = open(&mut w, q, 0, 12800, 2_000_000_000, acc);
    let _c = open(&mut w, q, 6400, 8960, 900_000_000, acc);
    for (amt, dir, exact) in [(5_000_000u64, true, true), (2_000_000, false, false)] {
        let ix = w.swap_ix(p, u, amt, if exact { 0 } else { u64::MAX }, 0, exact, dir, true);
        let o = w.exec(ix);
        assert!(o.ok(), "{:?} {:?}", o.out.err, o.out.logs);
        check(&mut w, "swap_v2", acc);
    }
    // m1 -> m2 -> m3 and back, whichever orientation the mint order gave the pools
    let d1 = w.pools[p].mint_a == m1;
    let d2 = w.pools[q].mint_a == m2;
    for (amt, exact, fwd) in [(1_500_000u64, true, true), (700_000, false, false)] {
        let ix = if fwd { w.two_hop_ix(p, q, u, amt, if exact { 0 } else { u64::MAX }, exact, d1, d2, 0, 0, true) } else { w.two_hop_ix(q, p, u, amt, if exact { 0 } else { u64::MAX }, exact, !d2, !d1, 0, 0, true) };
        let o = w.exec(ix);
        assert!(o.ok(), "{:?} {:?}", o.out.err, o.out.logs);
        check(&mut w, "two_hop_v2", acc);
    }
    // reposition position a onto fresh dynamic arrays
    let pi = w.positions[a].clone();
    let pool = w.pools[p].clone();
    let (nl, nu) = (-8 * 88 * 2 - 16, 8 * 88 + 24);
    let (tl, tu) = w.pos_arrays(&pi);
    let ntl = w.ensure_tick_array(p, nl, true);
    let ntu = w.ensure_tick_array(p, nu, true);
    let ix = b::RepositionLiquidityV2 {
        whirlpool: pool.key,
        token_program_a: pool.program_a,
        token_program_b: pool.program_b,
        memo_program: MEMO,
        position_authority: w.users[pi.owner].key,
        funder: ADMIN,
        position: pi.position,
        position_token_account: pi.token_account,
        token_mint_a: pool.mint_a,
        token_mint_b: pool.mint_b,
        token_owner_account_a: w.user_token(pi.owner, pool.mint_a),
        token_owner_account_b: w.user_token(pi.owner, pool.mint_b),
        token_vault_a: pool.vault_a,
        token_vault_b: pool.vault_b,
        existing_tick_array_lower: tl,
        existing_tick_array_upper: tu,
        new_tick_array_lower: ntl,
        new_tick_array_upper: ntu,
        system_program: system_program::ID,
    }
    .ix(nl, nu, b::RepositionLiquidityMethod::ByLiquidity { new_liquidity_amount: 3_000_000_000, existing_range_token_min_a: 0, existing_range_token_min_b: 0, new_range_token_max_a: u64::MAX, new_range_token_max_b: u64::MAX }, None);
    let o = w.exec(ix);
    assert!(o.ok(), "{:?} {:?}", o.out.err, o.out.logs);
    w.positions[a].lower = nl;
    w.positions[a].upper = nu;
    check(&mut w, "reposition", acc);
    let ix = w.collect_fees_ix(a, true);
    assert!(w.exec(ix).ok());
    let ix = w.modify_v2(a).decrease_liquidity_v2(3_000_000_000, 0, 0, None);
    let o = w.exec(ix);
    assert!(o.ok(), "{:?} {:?}", o.out.err, o.out.logs);
    check(&mut w, "decrease_v2", acc);
    let ix = w.collect_protocol_fees_ix(p, u, true);
    assert!(w.exec(ix).ok());
}

/// Third smoke history: adaptive-fee pool (zero-copy Oracle account), swaps across tick groups with the
/// clock moving through the filter and decay periods, constants update, two-hop v1 into a static pool.
fn lane_smoke3(seed: u64, acc: &mut Acc) {
    use vcheck::world::*;
    let mut w = World::new(rnd::rng(seed ^ 0xada));
    let c = w.add_config(300);
    let (m1, m2, m3) = (w.add_spl_mint(6), w.add_spl_mint(6), w.add_spl_mint(9));
    let u = w.add_user();
    let p = w.add_adaptive_pool(c, m1, m2, 1024, 64, 3000, (30, 600, 5000, 4000, 350_000, 64, 64), 1u128 << 64, None).ok().expect("adaptive pool");
    let q = w.add_pool(c, m2, m3, 64, 3000, 1u128 << 64, false).ok().expect("static pool");
    let check = |w: &mut World, what: &str, acc: &mut Acc| {
        for pi in [p, q] {
            let pk = w.pools[pi].key;
            for (sig, d) in vcheck::monitors::c05::check_pool(&w.bank, &pk, acc) {
                acc.violation(format!("lane:smoke3:{sig}:{what}"), d, serde_json::json!({}));
            }
        }
        acc.evaluations += 1;
    };
    for (pool, lo, hi, l) in [(p, -1280, 1280, 3_000_000_000u128), (p, -256, 192, 1_000_000_000), (q, -2560, 2560, 2_000_000_000)] {
        let (ix, info) = w.open_position_ix(pool, u, lo, hi, false);
        assert!(w.exec(ix).ok());
        w.positions.push(info);
        let i = w.positions.len() - 1;
        w.ensure_tick_array(pool, lo, false);
        w.ensure_tick_array(pool, hi, true);
        let ix = w.modify_v1(i).increase_liquidity(l, u64::MAX, u64::MAX);
        let o = w.exec(ix);
        assert!(o.ok(), "{:?} {:?}", o.out.err, o.out.logs);
        check(&mut w, "increase", acc);
    }
    for (amt, dir, dt) in [(4_000_000u64, true, 1i64), (9_000_000, false, 10), (2_000_000, true, 45), (6_000_000, true, 700)] {
        w.advance_clock(dt);
        let ix = w.swap_ix(p, u, amt, 0, 0, true, dir, dt % 2 == 0);
        let o = w.exec(ix);
        assert!(o.ok(), "{:?} {:?}", o.out.err, o.out.logs);
        check(&mut w, "adaptive_swap", acc);
    }
    let d1 = w.pools[p].mint_a == m1;
    let d2 = w.pools[q].mint_a == m2;
    let ix = w.two_hop_ix(p, q, u, 1_200_000, 0, true, d1, d2, 0, 0, false);
    let o = w.exec(ix);
    assert!(o.ok(), "{:?} {:?}", o.out.err, o.out.logs);
    check(&mut w, "two_hop", acc);
    let cfg = w.configs[c].clone();
    let ix = vcheck::ix::build::SetAdaptiveFeeConstants { whirlpool: w.pools[p].key, whirlpools_config: cfg.key, oracle: w.pools[p].oracle, fee_authority: cfg.fee_authority }.ix(Some(25), None, Some(4000), None, None, Some(32), None);
    let o = w.exec(ix);
    assert!(o.ok(), "{:?} {:?}", o.out.err, o.out.logs);
    w.advance_clock(5);
    let ix = w.swap_ix(p, u, 3_000_000, 0, 0, true, false, true);
    assert!(w.exec(ix).ok());
    check(&mut w, "after_constants", acc);
}

fn main() {
    let a: Vec<String> = std::env::args().collect();
    let name = a.get(1).map(|s| s.as_str()).unwrap_or("c13");
    let part: usize = a.get(2).and_then(|s| s.parse().ok()).unwrap_or(0);
    let parts: usize = a.get(3).and_then(|s| s.parse().ok()).unwrap_or(1);
    let seed: u64 = a.get(4).and_then(|s| s.parse().ok()).unwrap_or(1);
    let n: usize = a.get(5).and_then(|s| s.parse().ok()).unwrap_or(60);
    let mut acc = Acc::default();
    match name {
        "c13" => lane_c13(part, parts, seed, &mut acc),
        "c12" => lane_c12(part, parts, seed, n, &mut acc),
        "c02" => lane_c02(part, seed, n, &mut acc),
        "c08" => lane_c08(part, seed, n, &mut acc),
        "c13fill" => {
            // one array filled completely and emptied again (all four implementations, encoding oracle after every update)
            let combos = [(1u16, 0i32), (64, -88 * 64 * 3), (1, c13::min_array_start(1)), (8, 88 * 8 * 5)];
            let (sp, st) = combos[part % combos.len()];
            let mut r = rnd::rng(seed ^ 0xf111 ^ part as u64);
            c13::fill_and_drain(st, sp, &mut r, 44, &mut acc);
        }
        "c09" => lane_c09(part, parts, &mut acc),
        "c16" => lane_c16(part, seed, n, &mut acc),
        "smoke" if part % 3 == 0 => lane_smoke(seed, &mut acc),
        "smoke" if part % 3 == 1 => lane_smoke2(seed, &mut acc),
        "smoke" => lane_smoke3(seed, &mut acc),
        _ => {
            eprintln!("unknown lane {name}");
            std::process::exit(2);
        }
    }
    println!("LANE {name} part={part}/{parts} evaluations={} violations={}", acc.evaluations, acc.violations.len());
    println!("LANE-COUNTERS {}", serde_json::json!(acc.counters));
    for v in acc.violations.iter().take(5) {
        println!("LANE-VIOLATION {} :: {}", v.signature, v.detail);
    }
    std::process::exit(if acc.violations.is_empty() { 0 } else { 1 });
}
