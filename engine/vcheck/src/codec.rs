//! Harness-owned decoders / encoders for the whirlpool account layouts.
//!
//! Everything here works from documented byte offsets, NOT from whirlpool's own Rust
//! types, so a change in the program's (de)serialisation shows up as a disagreement
//! instead of being silently mirrored.
use solana_program::pubkey::Pubkey;

pub const NUM_REWARDS: usize = 3;
pub const TICK_ARRAY_SIZE: i32 = 88;
pub const MIN_TICK_INDEX: i32 = -443636;
pub const MAX_TICK_INDEX: i32 = 443636;
pub const MIN_SQRT_PRICE_X64: u128 = 4295048016;
pub const MAX_SQRT_PRICE_X64: u128 = 79226673515401279992447579055;
pub const FULL_RANGE_ONLY_TICK_SPACING_THRESHOLD: u16 = 32768;

pub fn account_disc(name: &str) -> [u8; 8] {
    let h = solana_program::hash::hash(format!("account:{name}").as_bytes());
    h.to_bytes()[..8].try_into().unwrap()
}
pub fn event_disc(name: &str) -> [u8; 8] {
    let h = solana_program::hash::hash(format!("event:{name}").as_bytes());
    h.to_bytes()[..8].try_into().unwrap()
}

pub struct Rd<'a> {
    pub d: &'a [u8],
    pub o: usize,
}
impl<'a> Rd<'a> {
    pub fn new(d: &'a [u8], o: usize) -> Self {
        Rd { d, o }
    }
    pub fn take(&mut self, n: usize) -> &'a [u8] {
        let s = &self.d[self.o..self.o + n];
        self.o += n;
        s
    }
    pub fn u8(&mut self) -> u8 {
        self.take(1)[0]
    }
    pub fn bool(&mut self) -> bool {
        self.u8() != 0
    }
    pub fn u16(&mut self) -> u16 {
        u16::from_le_bytes(self.take(2).try_into().unwrap())
    }
    pub fn u32(&mut self) -> u32 {
        u32::from_le_bytes(self.take(4).try_into().unwrap())
    }
    pub fn i32(&mut self) -> i32 {
        i32::from_le_bytes(self.take(4).try_into().unwrap())
    }
    pub fn u64(&mut self) -> u64 {
        u64::from_le_bytes(self.take(8).try_into().unwrap())
    }
    pub fn u128(&mut self) -> u128 {
        u128::from_le_bytes(self.take(16).try_into().unwrap())
    }
    pub fn i128(&mut self) -> i128 {
        i128::from_le_bytes(self.take(16).try_into().unwrap())
    }
    pub fn pk(&mut self) -> Pubkey {
        Pubkey::new_from_array(self.take(32).try_into().unwrap())
    }
    pub fn left(&self) -> usize {
        self.d.len() - self.o
    }
}

#[derive(Clone, Debug, Default, PartialEq, Eq)]
pub struct RewardInfo {
    pub mint: Pubkey,
    pub vault: Pubkey,
    pub extension: [u8; 32],
    pub emissions_per_second_x64: u128,
    pub growth_global_x64: u128,
}
impl RewardInfo {
    pub fn initialized(&self) -> bool {
        self.mint != Pubkey::default()
    }
}

#[derive(Clone, Debug, Default, PartialEq, Eq)]
pub struct Pool {
    pub whirlpools_config: Pubkey,
    pub bump: u8,
    pub tick_spacing: u16,
    pub fee_tier_index: u16,
    pub fee_rate: u16,
    pub protocol_fee_rate: u16,
    pub liquidity: u128,
    pub sqrt_price: u128,
    pub tick_current_index: i32,
    pub protocol_fee_owed_a: u64,
    pub protocol_fee_owed_b: u64,
    pub token_mint_a: Pubkey,
    pub token_vault_a: Pubkey,
    pub fee_growth_global_a: u128,
    pub token_mint_b: Pubkey,
    pub token_vault_b: Pubkey,
    pub fee_growth_global_b: u128,
    pub reward_last_updated_timestamp: u64,
    pub reward_infos: [RewardInfo; NUM_REWARDS],
}
pub const POOL_LEN: usize = 653;
// byte offsets used by state seeding
pub const POOL_OFF_FEE_GROWTH_A: usize = 8 + 32 + 1 + 2 + 2 + 2 + 2 + 16 + 16 + 4 + 8 + 8 + 32 + 32;
pub const POOL_OFF_FEE_GROWTH_B: usize = POOL_OFF_FEE_GROWTH_A + 16 + 32 + 32;
pub const POOL_OFF_REWARD_INFOS: usize = POOL_OFF_FEE_GROWTH_B + 16 + 8;
pub const REWARD_INFO_LEN: usize = 128;

impl Pool {
    pub fn is(d: &[u8]) -> bool {
        d.len() == POOL_LEN && d[..8] == account_disc("Whirlpool")
    }
    pub fn decode(d: &[u8]) -> Option<Pool> {
        if !Self::is(d) {
            return None;
        }
        let mut r = Rd::new(d, 8);
        let mut p = Pool {
            whirlpools_config: r.pk(),
            bump: r.u8(),
            tick_spacing: r.u16(),
            fee_tier_index: r.u16(),
            fee_rate: r.u16(),
            protocol_fee_rate: r.u16(),
            liquidity: r.u128(),
            sqrt_price: r.u128(),
            tick_current_index: r.i32(),
            protocol_fee_owed_a: r.u64(),
            protocol_fee_owed_b: r.u64(),
            token_mint_a: r.pk(),
            token_vault_a: r.pk(),
            fee_growth_global_a: r.u128(),
            token_mint_b: r.pk(),
            token_vault_b: r.pk(),
            fee_growth_global_b: r.u128(),
            reward_last_updated_timestamp: r.u64(),
            reward_infos: Default::default(),
        };
        for i in 0..NUM_REWARDS {
            p.reward_infos[i] = RewardInfo {
                mint: r.pk(),
                vault: r.pk(),
                extension: r.take(32).try_into().unwrap(),
                emissions_per_second_x64: r.u128(),
                growth_global_x64: r.u128(),
            };
        }
        debug_assert_eq!(r.o, POOL_LEN);
        Some(p)
    }
    pub fn is_adaptive(&self) -> bool {
        self.fee_tier_index != self.tick_spacing
    }
    pub fn reward_authority(&self) -> Pubkey {
        Pubkey::new_from_array(self.reward_infos[0].extension)
    }
}

#[derive(Clone, Copy, Debug, Default, PartialEq, Eq)]
pub struct PosReward {
    pub growth_inside_checkpoint: u128,
    pub amount_owed: u64,
}
#[derive(Clone, Debug, Default, PartialEq, Eq)]
pub struct Position {
    pub whirlpool: Pubkey,
    pub position_mint: Pubkey,
    pub liquidity: u128,
    pub tick_lower_index: i32,
    pub tick_upper_index: i32,
    pub fee_growth_checkpoint_a: u128,
    pub fee_owed_a: u64,
    pub fee_growth_checkpoint_b: u128,
    pub fee_owed_b: u64,
    pub reward_infos: [PosReward; NUM_REWARDS],
}
pub const POSITION_LEN: usize = 216;
impl Position {
    pub fn is(d: &[u8]) -> bool {
        d.len() >= POSITION_LEN && d[..8] == account_disc("Position")
    }
    pub fn decode(d: &[u8]) -> Option<Position> {
        if !Self::is(d) {
            return None;
        }
        let mut r = Rd::new(d, 8);
        let mut p = Position {
            whirlpool: r.pk(),
            position_mint: r.pk(),
            liquidity: r.u128(),
            tick_lower_index: r.i32(),
            tick_upper_index: r.i32(),
            fee_growth_checkpoint_a: r.u128(),
            fee_owed_a: r.u64(),
            fee_growth_checkpoint_b: r.u128(),
            fee_owed_b: r.u64(),
            reward_infos: Default::default(),
        };
        for i in 0..NUM_REWARDS {
            p.reward_infos[i] = PosReward { growth_inside_checkpoint: r.u128(), amount_owed: r.u64() };
        }
        Some(p)
    }
}

impl Position {
    pub fn encode(&self) -> Vec<u8> {
        let mut o = account_disc("Position").to_vec();
        o.extend_from_slice(self.whirlpool.as_ref());
        o.extend_from_slice(self.position_mint.as_ref());
        o.extend_from_slice(&self.liquidity.to_le_bytes());
        o.extend_from_slice(&self.tick_lower_index.to_le_bytes());
        o.extend_from_slice(&self.tick_upper_index.to_le_bytes());
        o.extend_from_slice(&self.fee_growth_checkpoint_a.to_le_bytes());
        o.extend_from_slice(&self.fee_owed_a.to_le_bytes());
        o.extend_from_slice(&self.fee_growth_checkpoint_b.to_le_bytes());
        o.extend_from_slice(&self.fee_owed_b.to_le_bytes());
        for r in &self.reward_infos {
            o.extend_from_slice(&r.growth_inside_checkpoint.to_le_bytes());
            o.extend_from_slice(&r.amount_owed.to_le_bytes());
        }
        debug_assert_eq!(o.len(), POSITION_LEN);
        o
    }
}
impl Pool {
    pub fn encode(&self) -> Vec<u8> {
        let mut o = account_disc("Whirlpool").to_vec();
        o.extend_from_slice(self.whirlpools_config.as_ref());
        o.push(self.bump);
        o.extend_from_slice(&self.tick_spacing.to_le_bytes());
        o.extend_from_slice(&self.fee_tier_index.to_le_bytes());
        o.extend_from_slice(&self.fee_rate.to_le_bytes());
        o.extend_from_slice(&self.protocol_fee_rate.to_le_bytes());
        o.extend_from_slice(&self.liquidity.to_le_bytes());
        o.extend_from_slice(&self.sqrt_price.to_le_bytes());
        o.extend_from_slice(&self.tick_current_index.to_le_bytes());
        o.extend_from_slice(&self.protocol_fee_owed_a.to_le_bytes());
        o.extend_from_slice(&self.protocol_fee_owed_b.to_le_bytes());
        o.extend_from_slice(self.token_mint_a.as_ref());
        o.extend_from_slice(self.token_vault_a.as_ref());
        o.extend_from_slice(&self.fee_growth_global_a.to_le_bytes());
        o.extend_from_slice(self.token_mint_b.as_ref());
        o.extend_from_slice(self.token_vault_b.as_ref());
        o.extend_from_slice(&self.fee_growth_global_b.to_le_bytes());
        o.extend_from_slice(&self.reward_last_updated_timestamp.to_le_bytes());
        for r in &self.reward_infos {
            o.extend_from_slice(r.mint.as_ref());
            o.extend_from_slice(r.vault.as_ref());
            o.extend_from_slice(&r.extension);
            o.extend_from_slice(&r.emissions_per_second_x64.to_le_bytes());
            o.extend_from_slice(&r.growth_global_x64.to_le_bytes());
        }
        debug_assert_eq!(o.len(), POOL_LEN);
        o
    }
}

#[derive(Clone, Copy, Debug, Default, PartialEq, Eq)]
pub struct Tick {
    pub initialized: bool,
    pub liquidity_net: i128,
    pub liquidity_gross: u128,
    pub fee_growth_outside_a: u128,
    pub fee_growth_outside_b: u128,
    pub reward_growths_outside: [u128; NUM_REWARDS],
}
impl Tick {
    fn read_data(r: &mut Rd) -> Tick {
        Tick {
            initialized: true,
            liquidity_net: r.i128(),
            liquidity_gross: r.u128(),
            fee_growth_outside_a: r.u128(),
            fee_growth_outside_b: r.u128(),
            reward_growths_outside: [r.u128(), r.u128(), r.u128()],
        }
    }
    fn write_data(&self, out: &mut Vec<u8>) {
        out.extend_from_slice(&self.liquidity_net.to_le_bytes());
        out.extend_from_slice(&self.liquidity_gross.to_le_bytes());
        out.extend_from_slice(&self.fee_growth_outside_a.to_le_bytes());
        out.extend_from_slice(&self.fee_growth_outside_b.to_le_bytes());
        for g in self.reward_growths_outside {
            out.extend_from_slice(&g.to_le_bytes());
        }
    }
}

#[derive(Clone, Debug, PartialEq, Eq)]
pub struct TickArray {
    pub dynamic: bool,
    pub start_tick_index: i32,
    pub whirlpool: Pubkey,
    pub ticks: Vec<Tick>, // 88
    /// dynamic only: stored bitmap
    pub bitmap: u128,
    /// number of bytes the encoding actually uses
    pub used_len: usize,
}
pub const FIXED_TICK_ARRAY_LEN: usize = 8 + 4 + 113 * 88 + 32;
pub const DYNAMIC_TICK_ARRAY_MIN_LEN: usize = 8 + 4 + 32 + 16 + 88;
pub const DYNAMIC_TICK_ARRAY_MAX_LEN: usize = 8 + 4 + 32 + 16 + 88 * 113;

impl TickArray {
    pub fn is_fixed(d: &[u8]) -> bool {
        d.len() == FIXED_TICK_ARRAY_LEN && d[..8] == account_disc("TickArray")
    }
    pub fn is_dynamic(d: &[u8]) -> bool {
        d.len() >= DYNAMIC_TICK_ARRAY_MIN_LEN && d[..8] == account_disc("DynamicTickArray")
    }
    /// Decode either encoding. For dynamic arrays `Err` describes a malformed encoding.
    pub fn decode(d: &[u8]) -> Option<Result<TickArray, String>> {
        if Self::is_fixed(d) {
            let mut r = Rd::new(d, 8);
            let start = r.i32();
            let mut ticks = Vec::with_capacity(88);
            for _ in 0..88 {
                let init = r.u8();
                let mut t = Tick::read_data(&mut r);
                t.initialized = init != 0;
                if init > 1 {
                    return Some(Err(format!("fixed tick array: initialized byte {init}")));
                }
                ticks.push(t);
            }
            let whirlpool = r.pk();
            return Some(Ok(TickArray {
                dynamic: false,
                start_tick_index: start,
                whirlpool,
                ticks,
                bitmap: 0,
                used_len: FIXED_TICK_ARRAY_LEN,
            }));
        }
        if Self::is_dynamic(d) {
            let mut r = Rd::new(d, 8);
            let start = r.i32();
            let whirlpool = r.pk();
            let bitmap = r.u128();
            let mut ticks = Vec::with_capacity(88);
            for i in 0..88 {
                if r.left() < 1 {
                    return Some(Err(format!("dynamic tick array: truncated at slot {i}")));
                }
                let tag = r.u8();
                match tag {
                    0 => ticks.push(Tick::default()),
                    1 => {
                        if r.left() < 112 {
                            return Some(Err(format!("dynamic tick array: truncated data at slot {i}")));
                        }
                        ticks.push(Tick::read_data(&mut r));
                    }
                    t => return Some(Err(format!("dynamic tick array: tag {t} at slot {i}"))),
                }
            }
            return Some(Ok(TickArray {
                dynamic: true,
                start_tick_index: start,
                whirlpool,
                ticks,
                bitmap,
                used_len: r.o,
            }));
        }
        None
    }
    pub fn count_initialized(&self) -> usize {
        self.ticks.iter().filter(|t| t.initialized).count()
    }
    pub fn encode_fixed(&self) -> Vec<u8> {
        let mut out = account_disc("TickArray").to_vec();
        out.extend_from_slice(&self.start_tick_index.to_le_bytes());
        for t in &self.ticks {
            out.push(t.initialized as u8);
            t.write_data(&mut out);
        }
        out.extend_from_slice(self.whirlpool.as_ref());
        debug_assert_eq!(out.len(), FIXED_TICK_ARRAY_LEN);
        out
    }
    pub fn encode_dynamic(&self) -> Vec<u8> {
        let mut out = account_disc("DynamicTickArray").to_vec();
        out.extend_from_slice(&self.start_tick_index.to_le_bytes());
        out.extend_from_slice(self.whirlpool.as_ref());
        let mut bm: u128 = 0;
        for (i, t) in self.ticks.iter().enumerate() {
            if t.initialized {
                bm |= 1u128 << i;
            }
        }
        out.extend_from_slice(&bm.to_le_bytes());
        for t in &self.ticks {
            if t.initialized {
                out.push(1);
                t.write_data(&mut out);
            } else {
                out.push(0);
            }
        }
        out
    }
}

#[derive(Clone, Debug, Default, PartialEq, Eq)]
pub struct AfConstants {
    pub filter_period: u16,
    pub decay_period: u16,
    pub reduction_factor: u16,
    pub adaptive_fee_control_factor: u32,
    pub max_volatility_accumulator: u32,
    pub tick_group_size: u16,
    pub major_swap_threshold_ticks: u16,
}
#[derive(Clone, Debug, Default, PartialEq, Eq)]
pub struct AfVariables {
    pub last_reference_update_timestamp: u64,
    pub last_major_swap_timestamp: u64,
    pub volatility_reference: u32,
    pub tick_group_index_reference: i32,
    pub volatility_accumulator: u32,
}
#[derive(Clone, Debug, Default, PartialEq, Eq)]
pub struct Oracle {
    pub whirlpool: Pubkey,
    pub trade_enable_timestamp: u64,
    pub constants: AfConstants,
    pub variables: AfVariables,
}
pub const ORACLE_LEN: usize = 8 + 32 + 8 + 34 + 44 + 128;
pub const ORACLE_OFF_VARIABLES: usize = 8 + 32 + 8 + 34;
impl Oracle {
    pub fn is(d: &[u8]) -> bool {
        d.len() == ORACLE_LEN && d[..8] == account_disc("Oracle")
    }
    pub fn decode(d: &[u8]) -> Option<Oracle> {
        if !Self::is(d) {
            return None;
        }
        let mut r = Rd::new(d, 8);
        let whirlpool = r.pk();
        let trade_enable_timestamp = r.u64();
        let constants = AfConstants {
            filter_period: r.u16(),
            decay_period: r.u16(),
            reduction_factor: r.u16(),
            adaptive_fee_control_factor: r.u32(),
            max_volatility_accumulator: r.u32(),
            tick_group_size: r.u16(),
            major_swap_threshold_ticks: r.u16(),
        };
        r.take(16);
        let variables = AfVariables {
            last_reference_update_timestamp: r.u64(),
            last_major_swap_timestamp: r.u64(),
            volatility_reference: r.u32(),
            tick_group_index_reference: r.i32(),
            volatility_accumulator: r.u32(),
        };
        Some(Oracle { whirlpool, trade_enable_timestamp, constants, variables })
    }
}

#[derive(Clone, Debug, Default, PartialEq, Eq)]
pub struct Config {
    pub fee_authority: Pubkey,
    pub collect_protocol_fees_authority: Pubkey,
    pub reward_emissions_super_authority: Pubkey,
    pub default_protocol_fee_rate: u16,
    pub feature_flags: u16,
}
impl Config {
    pub fn decode(d: &[u8]) -> Option<Config> {
        if d.len() != 108 || d[..8] != account_disc("WhirlpoolsConfig") {
            return None;
        }
        let mut r = Rd::new(d, 8);
        Some(Config {
            fee_authority: r.pk(),
            collect_protocol_fees_authority: r.pk(),
            reward_emissions_super_authority: r.pk(),
            default_protocol_fee_rate: r.u16(),
            feature_flags: r.u16(),
        })
    }
}

#[derive(Clone, Debug, Default, PartialEq, Eq)]
pub struct FeeTier {
    pub whirlpools_config: Pubkey,
    pub tick_spacing: u16,
    pub default_fee_rate: u16,
}
impl FeeTier {
    pub fn decode(d: &[u8]) -> Option<FeeTier> {
        if d.len() != 44 || d[..8] != account_disc("FeeTier") {
            return None;
        }
        let mut r = Rd::new(d, 8);
        Some(FeeTier { whirlpools_config: r.pk(), tick_spacing: r.u16(), default_fee_rate: r.u16() })
    }
}

#[derive(Clone, Debug, Default, PartialEq, Eq)]
pub struct AdaptiveFeeTier {
    pub whirlpools_config: Pubkey,
    pub fee_tier_index: u16,
    pub tick_spacing: u16,
    pub initialize_pool_authority: Pubkey,
    pub delegated_fee_authority: Pubkey,
    pub default_base_fee_rate: u16,
    pub constants: AfConstants,
}
impl AdaptiveFeeTier {
    pub fn decode(d: &[u8]) -> Option<AdaptiveFeeTier> {
        if d.len() != 256 || d[..8] != account_disc("AdaptiveFeeTier") {
            return None;
        }
        let mut r = Rd::new(d, 8);
        Some(AdaptiveFeeTier {
            whirlpools_config: r.pk(),
            fee_tier_index: r.u16(),
            tick_spacing: r.u16(),
            initialize_pool_authority: r.pk(),
            delegated_fee_authority: r.pk(),
            default_base_fee_rate: r.u16(),
            constants: AfConstants {
                filter_period: r.u16(),
                decay_period: r.u16(),
                reduction_factor: r.u16(),
                adaptive_fee_control_factor: r.u32(),
                max_volatility_accumulator: r.u32(),
                tick_group_size: r.u16(),
                major_swap_threshold_ticks: r.u16(),
            },
        })
    }
}

#[derive(Clone, Debug, Default, PartialEq, Eq)]
pub struct TokenBadge {
    pub whirlpools_config: Pubkey,
    pub token_mint: Pubkey,
    pub attribute_require_non_transferable_position: bool,
}
impl TokenBadge {
    pub fn decode(d: &[u8]) -> Option<TokenBadge> {
        if d.len() != 200 || d[..8] != account_disc("TokenBadge") {
            return None;
        }
        let mut r = Rd::new(d, 8);
        Some(TokenBadge {
            whirlpools_config: r.pk(),
            token_mint: r.pk(),
            attribute_require_non_transferable_position: r.bool(),
        })
    }
}

#[derive(Clone, Debug, Default, PartialEq, Eq)]
pub struct ConfigExtension {
    pub whirlpools_config: Pubkey,
    pub config_extension_authority: Pubkey,
    pub token_badge_authority: Pubkey,
}
impl ConfigExtension {
    pub fn decode(d: &[u8]) -> Option<ConfigExtension> {
        if d.len() != 616 || d[..8] != account_disc("WhirlpoolsConfigExtension") {
            return None;
        }
        let mut r = Rd::new(d, 8);
        Some(ConfigExtension {
            whirlpools_config: r.pk(),
            config_extension_authority: r.pk(),
            token_badge_authority: r.pk(),
        })
    }
}

#[derive(Clone, Debug, Default, PartialEq, Eq)]
pub struct LockConfig {
    pub position: Pubkey,
    pub position_owner: Pubkey,
    pub whirlpool: Pubkey,
    pub locked_timestamp: u64,
    pub lock_type: u8,
}
impl LockConfig {
    pub fn decode(d: &[u8]) -> Option<LockConfig> {
        if d.len() != 241 || d[..8] != account_disc("LockConfig") {
            return None;
        }
        let mut r = Rd::new(d, 8);
        Some(LockConfig {
            position: r.pk(),
            position_owner: r.pk(),
            whirlpool: r.pk(),
            locked_timestamp: r.u64(),
            lock_type: r.u8(),
        })
    }
}

#[derive(Clone, Debug, PartialEq, Eq)]
pub struct PositionBundle {
    pub position_bundle_mint: Pubkey,
    pub bitmap: [u8; 32],
}
impl PositionBundle {
    pub fn decode(d: &[u8]) -> Option<PositionBundle> {
        if d.len() != 136 || d[..8] != account_disc("PositionBundle") {
            return None;
        }
        let mut r = Rd::new(d, 8);
        Some(PositionBundle { position_bundle_mint: r.pk(), bitmap: r.take(32).try_into().unwrap() })
    }
    pub fn is_open(&self, i: u16) -> bool {
        self.bitmap[(i / 8) as usize] & (1 << (i % 8)) != 0
    }
}

// ---- token accounts (SPL Token and Token-2022 share the 165-byte base layout) ----
#[derive(Clone, Debug, Default, PartialEq, Eq)]
pub struct TokenAccount {
    pub mint: Pubkey,
    pub owner: Pubkey,
    pub amount: u64,
    pub delegate: Option<Pubkey>,
    pub state: u8,
    pub delegated_amount: u64,
    pub close_authority: Option<Pubkey>,
}
impl TokenAccount {
    pub fn decode(d: &[u8]) -> Option<TokenAccount> {
        if d.len() < 165 {
            return None;
        }
        if d.len() > 165 && d[165] != 2 {
            return None;
        }
        let mut r = Rd::new(d, 0);
        let mint = r.pk();
        let owner = r.pk();
        let amount = r.u64();
        let dtag = r.u32();
        let dk = r.pk();
        let state = r.u8();
        r.take(12);
        let delegated_amount = r.u64();
        let ctag = r.u32();
        let ck = r.pk();
        if state == 0 {
            return None;
        }
        Some(TokenAccount {
            mint,
            owner,
            amount,
            delegate: (dtag == 1).then_some(dk),
            state,
            delegated_amount,
            close_authority: (ctag == 1).then_some(ck),
        })
    }
}
#[derive(Clone, Debug, Default, PartialEq, Eq)]
pub struct Mint {
    pub mint_authority: Option<Pubkey>,
    pub supply: u64,
    pub decimals: u8,
    pub is_initialized: bool,
    pub freeze_authority: Option<Pubkey>,
}
impl Mint {
    pub fn decode(d: &[u8]) -> Option<Mint> {
        if d.len() < 82 {
            return None;
        }
        if d.len() > 82 && (d.len() <= 165 || d[165] != 1) {
            return None;
        }
        let mut r = Rd::new(d, 0);
        let mtag = r.u32();
        let mk = r.pk();
        let supply = r.u64();
        let decimals = r.u8();
        let is_initialized = r.bool();
        let ftag = r.u32();
        let fk = r.pk();
        Some(Mint {
            mint_authority: (mtag == 1).then_some(mk),
            supply,
            decimals,
            is_initialized,
            freeze_authority: (ftag == 1).then_some(fk),
        })
    }
}

pub fn token_amount(d: &[u8]) -> u64 {
    if d.len() < 72 {
        return 0;
    }
    u64::from_le_bytes(d[64..72].try_into().unwrap())
}
