//! C04 Only the designated authority can move a position's funds or change settings.
//! Enumeration over the instruction catalogue x variant table.
use crate::catalog::*;
use crate::codec;
use crate::ix::Ix;
use crate::report::*;
use crate::svm::Bank;
use crate::world::*;
use serde_json::json;
use solana_program::pubkey::Pubkey;

/// Instructions that need no authority by design (anyone may call them).
pub const PERMISSIONLESS: &[&str] = &[
    "initialize_pool", "initialize_pool_v2", "initialize_tick_array", "initialize_dynamic_tick_array",
    "open_position", "open_position_with_metadata", "open_position_with_token_extensions",
    "update_fees_and_rewards", "swap", "swap_v2", "two_hop_swap", "two_hop_swap_v2",
    "initialize_position_bundle", "initialize_position_bundle_with_metadata",
    "migrate_repurpose_reward_authority_space",
    // permission-less when the adaptive tier names no initialize_pool_authority (the permissioned case is in the catalogue)
    "initialize_pool_with_adaptive_fee",
];

fn unsign(ix: &Ix, slot: &str) -> Ix {
    let mut i = ix.clone();
    let k = i.key(slot);
    for m in i.metas.iter_mut() {
        if m.key == k {
            m.signer = false;
        }
    }
    i
}
fn with_signer(ix: &Ix, slot: &str, key: Pubkey) -> Ix {
    let mut i = ix.clone();
    let idx = i.slot(slot).unwrap();
    i.metas[idx].key = key;
    i.metas[idx].signer = true;
    i
}

fn flip(k: &Pubkey, at: usize) -> Pubkey {
    let mut b = k.to_bytes();
    b[at] ^= 1;
    Pubkey::new_from_array(b)
}

/// which role a rotation instruction hands over, and the account that scopes the role
const ROTATIONS: &[(&str, &str, &str)] = &[
    ("set_fee_authority", "fee_authority", "whirlpools_config"),
    ("set_collect_protocol_fees_authority", "collect_protocol_fees_authority", "whirlpools_config"),
    ("set_reward_emissions_super_authority", "reward_emissions_super_authority", "whirlpools_config"),
    ("set_reward_authority", "reward_authority", "whirlpool"),
    ("set_reward_authority_by_super_authority", "reward_authority", "whirlpool"),
    ("set_delegated_fee_authority", "delegated_fee_authority", "adaptive_fee_tier"),
    ("set_initialize_pool_authority", "initialize_pool_authority", "adaptive_fee_tier"),
    ("set_config_extension_authority", "config_extension_authority", "whirlpools_config_extension"),
    ("set_token_badge_authority", "token_badge_authority", "whirlpools_config_extension"),
];

/// Authority hand-over: after a role has been handed to a new key, the previous holder is
/// "any other signer" for that role, and the new holder has that role only.  A second
/// hand-over (signed by the new holder) is followed the same way.
fn handover(bs: &mut crate::catalog::Base, gs: &[crate::catalog::Golden], bank: &Bank, acc: &mut Acc) {
    for (rname, role, scope) in ROTATIONS {
        let Some(r) = gs.iter().find(|g| g.name == *rname) else {
            acc.notes.push(format!("HARNESS-ERROR hand-over: no golden {rname}"));
            acc.count("harness_errors");
            continue;
        };
        let Some(newslot) = r.ix.metas.iter().position(|m| m.name.starts_with("new_")) else {
            acc.notes.push(format!("HARNESS-ERROR hand-over: {rname} has no new_* slot"));
            acc.count("harness_errors");
            continue;
        };
        let new_key = r.ix.metas[newslot].key;
        let (o, mut bank2) = bs.w.simulate(bank, &r.ix);
        acc.evaluations += 1;
        if !o.ok() {
            continue; // reported as a failed golden by the main loop
        }
        bank2.airdrop(new_key, 1_000_000_000);
        let scope_key = r.ix.slot(scope).map(|i| r.ix.metas[i].key);
        let in_role = |g: &crate::catalog::Golden, slot: &str| -> bool {
            if slot != *role {
                return false;
            }
            // (initialize_config_extension calls the config account `config`)
            match (scope_key, g.ix.slot(scope).or(if *scope == "whirlpools_config" { g.ix.slot("config") } else { None })) {
                (Some(k), Some(i)) => g.ix.metas[i].key == k,
                _ => true,
            }
        };
        // stage 1: old -> new_key ; stage 2 (self-rotating roles): new_key -> third
        let mut stages: Vec<(String, Bank, Vec<Pubkey>, Pubkey)> = vec![(format!("{rname}"), bank2.clone(), vec![], new_key)];
        if r.auth.iter().any(|a| in_role(r, a.slot)) {
            let third = bs.w.new_key();
            let mut r2 = with_signer(&r.ix, role, new_key);
            r2.metas[newslot].key = third;
            let (o2, mut bank3) = bs.w.simulate(&bank2, &r2);
            acc.evaluations += 1;
            if o2.ok() {
                bank3.airdrop(third, 1_000_000_000);
                stages.push((format!("{rname}+again"), bank3, vec![new_key], third));
                acc.count("second_handovers_accepted");
            } else {
                acc.notes.push(format!("hand-over: the new holder of {role} could not hand the role on ({:?})", o2.err));
                acc.count("handover_new_holder_not_accepted");
            }
        }
        for (sname, bk, former, holder) in &stages {
            for g in gs {
                for a in &g.auth {
                    if !matches!(a.kind, AuthKind::Setting { .. }) {
                        continue;
                    }
                    let old = g.ix.key(a.slot);
                    let dep = in_role(g, a.slot);
                    let (oo, _) = bs.w.simulate(bk, &g.ix);
                    let (on, bn) = bs.w.simulate(bk, &with_signer(&g.ix, a.slot, *holder));
                    acc.evaluations += 2;
                    acc.count("handover_probes");
                    acc.situation(format!("handover:{sname}:{}:{}", g.ix.name, if dep { "same_role" } else { "other_role" }));
                    let mut viol = |acc: &mut Acc, what: &str, detail: String| {
                        acc.violation(format!("c04:handover:{rname}:{}:{what}", g.ix.name), detail, json!({"rotation": sname, "golden": g.name, "slot": a.slot, "role_handed_over": role}));
                    };
                    if dep {
                        if oo.ok() && on.ok() {
                            viol(acc, "previous_and_new_holder_both_accepted", format!("after {sname} handed {role} to {holder}, {} succeeds for the previous holder {old} and for the new one", g.name));
                        } else if on.ok() {
                            acc.count("handover_role_followed");
                        } else if oo.ok() {
                            acc.notes.push(format!("hand-over {sname}: {} still answers to the previous holder only (the hand-over did not reach it)", g.name));
                            acc.count("handover_without_effect");
                        } else {
                            acc.count("handover_nobody_accepted");
                        }
                        for f in former {
                            if f == &old {
                                continue;
                            }
                            let (of, _) = bs.w.simulate(bk, &with_signer(&g.ix, a.slot, *f));
                            acc.evaluations += 1;
                            if of.ok() {
                                viol(acc, "former_holder_accepted", format!("after {sname}, {} succeeds for {f}, who handed {role} on", g.name));
                            } else {
                                acc.count("handover_former_holder_rejected");
                            }
                        }
                    } else {
                        if on.ok() {
                            viol(acc, "new_holder_of_another_role_accepted", format!("after {sname} handed only {role} to {holder}, {} (authority slot `{}`) succeeds with {holder} signing", g.name, a.slot));
                        } else {
                            acc.count("handover_other_role_rejected");
                            if !bn.diff(bk).is_empty() {
                                viol(acc, "state_changed_by_failed_tx", "bank changed by a failed transaction".to_string());
                            }
                        }
                        if !oo.ok() {
                            viol(acc, "unrelated_authority_lost_its_role", format!("after {sname} handed {role} on, {} no longer succeeds for its recorded authority {old} (slot `{}`): {:?}", g.name, a.slot, oo.err));
                        }
                    }
                }
            }
        }
    }
}

/// The permission-less migration instruction on a pool that still has the pre-migration layout (every
/// reward slot carries the reward authority; no instruction can create such an account any more, so the
/// bytes are written into a clone of the bank): nobody signs, so no recorded authority may change.
fn legacy_migration(bs: &mut crate::catalog::Base, bank: &Bank, acc: &mut Acc) {
    use crate::ix::build as b;
    for (label, pi) in [("static_pool", bs.p_a), ("adaptive_pool", bs.p_ad), ("token_2022_pool", bs.p_t)] {
        let poolk = bs.w.pools[pi].key;
        let mut bk = bank.clone();
        let Some(pre) = bk.data(&poolk).and_then(codec::Pool::decode) else { continue };
        let auth = pre.reward_infos[0].extension;
        {
            let Some(mut a) = bk.get(&poolk).cloned() else { continue };
            for k in 1..3 {
                let off = codec::POOL_OFF_REWARD_INFOS + k * codec::REWARD_INFO_LEN + 64;
                a.data[off..off + 32].copy_from_slice(&auth);
            }
            bk.set(poolk, a);
        }
        let cfg_pre = bk.data(&pre.whirlpools_config).map(|d| d.to_vec());
        let ix = b::MigrateRepurposeRewardAuthoritySpace { whirlpool: poolk }.ix();
        let (o, b2) = bs.w.simulate(&bk, &ix);
        acc.evaluations += 1;
        acc.situation(format!("legacy_migration:{label}:{}", o.ok()));
        if !o.ok() {
            acc.notes.push(format!("legacy migration of the {label} failed: {:?}", o.err));
            acc.count("legacy_migrations_failed");
            continue;
        }
        acc.count("legacy_migrations_ok");
        let post = b2.data(&poolk).and_then(codec::Pool::decode).unwrap_or_default();
        if post.reward_infos[0].extension != auth {
            acc.violation(
                format!("c04:permissionless_changed_authority:migrate_repurpose_reward_authority_space:{label}"),
                format!("the unsigned migration instruction changed the pool's reward authority from {} to {}", Pubkey::new_from_array(auth), Pubkey::new_from_array(post.reward_infos[0].extension)),
                json!({"pool": poolk.to_string()}),
            );
        }
        if b2.data(&pre.whirlpools_config).map(|d| d.to_vec()) != cfg_pre {
            acc.violation(format!("c04:permissionless_changed_authority:config:{label}"), "the unsigned migration instruction changed the config account".to_string(), json!({}));
        }
        // the previous authority still rules the reward settings, a stranger does not
        let n_init = post.reward_infos.iter().filter(|r| r.initialized()).count();
        if n_init > 0 {
            let old = Pubkey::new_from_array(auth);
            let vault = post.reward_infos[0].vault;
            let set = |k: Pubkey| b::SetRewardEmissions { whirlpool: poolk, reward_authority: k, reward_vault: vault }.ix(0, 0);
            let (o1, _) = bs.w.simulate(&b2, &set(old));
            let stranger = bs.w.new_key();
            let (o2, _) = bs.w.simulate(&b2, &set(stranger));
            acc.evaluations += 2;
            if o2.ok() {
                acc.violation(format!("c04:legacy_migration:stranger_sets_emissions:{label}"), "after the migration a stranger can set reward emissions".to_string(), json!({}));
            }
            if o1.ok() {
                acc.count("legacy_migration_authority_still_accepted");
            } else {
                acc.notes.push(format!("after the legacy migration of the {label} the reward authority can no longer set emissions: {:?}", o1.err));
            }
        }
    }
}

pub fn run(tier: Tier, seed: u64) -> i32 {
    let mut rep = Report::new("C04", tier, seed);
    rep.exhaustive = true;
    rep.level = "fault_enumeration";
    rep.rule = "enumeration: for every privileged instruction of the program (catalogue cross-checked at run time against the `pub fn` list of /repo/programs/whirlpool/src/lib.rs; unknown instruction => inconclusive) a golden invocation that must succeed on the base state, then every variant on a clone of that state: (a) authority key present without signature, (b) a different funded key signing, (b') keys differing from the authority in one bit at either end, (c) the corresponding authority of another config / pool, and for position-token authorities additionally (c') another holder with the token account of their own position, (d) a delegate with delegated amount 0, 1, 2 (only 1 may pass), (e) a token account of the position mint holding 0 tokens, (f) the token account of another position with its real owner signing, (g) the delegate's key in the slot while only the owner signs, (h) a forged copy of the token account (attacker as owner, amount 1) owned by a program that is not a token program: a random id and ids that share a prefix, a suffix or both ends with the Token / Token-2022 ids, (i) a Token-program multisig account created through the real InitializeMultisig whose bytes read as a token account of the position mint held by the attacker (for the catalogue position whose mint address starts with a valid multisig header). Every variant except the documented ones must fail. distinct = (instruction, variant)".into();
    rep.assumptions = vec!["native mini-SVM with the runtime's signer-privilege rules; a variant that would need a signature the transaction does not carry cannot be built by a client at all (counted as rejected)".into(), "keys are sampled: an authority comparison that ignores some byte is only probed at byte 0 and byte 31".into()];
    let flavours = tier.pick(1, 4);
    let mut acc = Acc::default();
    // ---- the authority recorded when an object is created is the designated one, not whoever paid for the account ----
    // (funder, signing authority and stored authorities are all different keys here)
    {
        use crate::ix::build as b;
        use crate::world::{World, ADMIN};
        use solana_program::system_program;
        let mut w = World::new(crate::rnd::rng(seed ^ 0xc4ea7e));
        let (fa, cpfa, resa) = (w.new_key(), w.new_key(), w.new_key());
        let cfgk = w.new_key();
        for k in [fa, cpfa, resa] {
            w.bank.airdrop(k, 1_000_000_000_000);
        }
        let o = w.exec(b::InitializeConfig { config: cfgk, funder: ADMIN, system_program: system_program::ID }.ix(fa, cpfa, resa, 300));
        acc.evaluations += 1;
        let fail = |acc: &mut Acc, what: &str, detail: String| acc.violation(format!("c04:authority_recorded_at_creation:{what}"), detail, json!({"object": what}));
        match w.bank.data(&cfgk).and_then(codec::Config::decode) {
            Some(c) if o.ok() => {
                acc.count("creation_authority_checks");
                if (c.fee_authority, c.collect_protocol_fees_authority, c.reward_emissions_super_authority) != (fa, cpfa, resa) {
                    fail(&mut acc, "initialize_config", format!("config records authorities ({}, {}, {}) but was created with ({fa}, {cpfa}, {resa}); the funder is {ADMIN}", c.fee_authority, c.collect_protocol_fees_authority, c.reward_emissions_super_authority));
                }
            }
            _ => {
                acc.notes.push("HARNESS-ERROR creation scenario: initialize_config failed".into());
                acc.count("harness_errors");
            }
        }
        let ext = b::pda_config_extension(cfgk).0;
        let o = w.exec(b::InitializeConfigExtension { config: cfgk, config_extension: ext, funder: ADMIN, fee_authority: fa, system_program: system_program::ID }.ix());
        acc.evaluations += 1;
        match w.bank.data(&ext).and_then(codec::ConfigExtension::decode) {
            Some(e) if o.ok() => {
                acc.count("creation_authority_checks");
                // the config's fee authority is the one who had to sign; it (not the rent payer) holds both roles until it hands them on
                if e.config_extension_authority != fa || e.token_badge_authority != fa {
                    fail(&mut acc, "initialize_config_extension", format!("config extension records (config_extension_authority {}, token_badge_authority {}) but the creating authority is the config's fee authority {fa}; the funder is {ADMIN}", e.config_extension_authority, e.token_badge_authority));
                }
            }
            _ => {
                acc.notes.push("HARNESS-ERROR creation scenario: initialize_config_extension failed".into());
                acc.count("harness_errors");
            }
        }
    }
    for fl in 0..flavours {
        // a set-up that no longer works on the tree under test must not hide a violation already found above
        let mut bs = match crate::svm::quiet_catch(|| build_base(seed.wrapping_add(fl as u64 * 7919))) {
            Ok(b) => b,
            Err(m) => {
                acc.notes.push(format!("HARNESS-ERROR catalogue set-up failed: {}", m.chars().take(300).collect::<String>()));
                acc.count("harness_errors");
                continue;
            }
        };
        let gs = goldens(&mut bs);
        let bank = bs.w.bank.clone();
        // ---- catalogue completeness ----
        let names = program_instruction_names();
        if names.len() < 60 {
            acc.notes.push(format!("HARNESS-ERROR could not parse the instruction list ({} names)", names.len()));
            acc.count("harness_errors");
        }
        for n in &names {
            let covered = gs.iter().any(|g| g.ix.name == n.as_str()) || PERMISSIONLESS.contains(&n.as_str());
            if !covered {
                acc.notes.push(format!("instruction `{n}` is not in the authority catalogue"));
                acc.count("uncatalogued_instructions");
            }
        }
        acc.add("catalogue_instructions", names.len() as u64);
        let other_user = bs.w.users[bs.other].key;
        let other_pos_token = bs.w.positions[bs.other_pos].token_account;
        for g in &gs {
            // golden
            let (o, _) = bs.w.simulate(&bank, &g.ix);
            acc.evaluations += 1;
            if !o.ok() {
                acc.notes.push(format!("HARNESS-ERROR golden {} failed: {:?} {:?}", g.name, o.err, o.logs.iter().rev().take(3).collect::<Vec<_>>()));
                acc.count("harness_errors");
                continue;
            }
            acc.count("goldens_ok");
            if fl == 0 && acc.samples.len() < 3 {
                acc.sample(json!({"golden": g.name, "instruction": crate::hist::ix_brief(&g.ix)}));
            }
            for a in &g.auth {
                let key = g.ix.key(a.slot);
                let mut variants: Vec<(String, Bank, Ix, bool)> = vec![]; // (name, bank, ix, may_pass)
                variants.push(("a:no_signature".into(), bank.clone(), unsign(&g.ix, a.slot), false));
                let stranger = bs.w.new_key();
                let mut bk = bank.clone();
                bk.airdrop(stranger, 1_000_000_000);
                variants.push(("b:other_signer".into(), bk.clone(), with_signer(&g.ix, a.slot, stranger), false));
                for at in [0usize, 31] {
                    let near = flip(&key, at);
                    let mut bk2 = bank.clone();
                    bk2.airdrop(near, 1_000_000_000);
                    variants.push((format!("b':one_bit_off_byte{at}"), bk2, with_signer(&g.ix, a.slot, near), false));
                }
                match &a.kind {
                    AuthKind::Setting { other } => {
                        if let Some(o) = other {
                            if *o != key {
                                variants.push(("c:authority_of_another_config".into(), bank.clone(), with_signer(&g.ix, a.slot, *o), false));
                            }
                        }
                    }
                    AuthKind::Position { token_slot, delegate_may_pass } => {
                        let tok = g.ix.key(token_slot);
                        let tok_acct = bank.get(&tok).cloned();
                        let mint = tok_acct.as_ref().and_then(|a| codec::TokenAccount::decode(&a.data)).map(|t| t.mint);
                        // (c') another holder with their own position's token account
                        variants.push(("c':holder_of_another_position".into(), bank.clone(), with_signer(&g.ix, a.slot, other_user).with_key(token_slot, other_pos_token), false));
                        // (f) token account of another position, slot keeps the genuine owner
                        variants.push(("f:token_account_of_another_position".into(), bank.clone(), g.ix.clone().with_key(token_slot, other_pos_token), false));
                        // (g) the holder moved the position token to somebody else's account and signs with the old,
                        //     now empty, account (same owner, same mint, amount 0) - and pays from the same funding accounts
                        if let Some(ta) = tok_acct.as_ref() {
                            let mut bk = bank.clone();
                            let mut a = ta.clone();
                            if a.data.len() >= 72 {
                                a.data[64..72].copy_from_slice(&0u64.to_le_bytes());
                                bk.set(tok, a);
                                variants.push(("g:holder_moved_the_token_away".into(), bk, g.ix.clone(), false));
                            }
                        }
                        // (e) an account of the position mint that holds 0 tokens
                        if let Some(mint) = mint {
                            let mut w2 = World::new(crate::rnd::rng(seed ^ 0xE));
                            w2.bank = bank.clone();
                            let empty = w2.create_token_account(mint, other_user);
                            variants.push(("e:empty_token_account".into(), w2.bank.clone(), with_signer(&g.ix, a.slot, other_user).with_key(token_slot, empty), false));
                        }
                        // (h) a forged token account (right mint, attacker as owner, amount 1) that is not owned by a
                        // token program: random program, and ids sharing a prefix / a suffix with the two real ones
                        if let Some(ta) = &tok_acct {
                            let mut fakes: Vec<(String, Pubkey)> = vec![("random".into(), bs.w.new_key())];
                            for (n, real) in [("token", TOKEN), ("token22", TOKEN22)] {
                                fakes.push((format!("{n}_first_byte_off"), flip(&real, 0)));
                                fakes.push((format!("{n}_last_byte_off"), flip(&real, 31)));
                                let mut b = real.to_bytes();
                                b[8..24].iter_mut().for_each(|x| *x ^= 0x5a);
                                fakes.push((format!("{n}_middle_off"), Pubkey::new_from_array(b)));
                            }
                            for (n, prog) in fakes {
                                let forged = bs.w.new_key();
                                let mut d = ta.data.clone();
                                d[32..64].copy_from_slice(other_user.as_ref());
                                d[64..72].copy_from_slice(&1u64.to_le_bytes());
                                let mut bk = bank.clone();
                                bk.set(forged, crate::svm::Acct { lamports: ta.lamports, data: d, owner: prog, executable: false });
                                variants.push((format!("h:forged_token_account_owned_by_{n}"), bk, with_signer(&g.ix, a.slot, other_user).with_key(token_slot, forged), false));
                            }
                        }
                        // (i) account-type confusion: a Token-program *multisig* (355 bytes) whose header bytes are the
                        // first bytes of the position mint and whose signer keys spell a token account of that mint
                        // held by the attacker; forged through the real InitializeMultisig where the mint allows it
                        if let (Some(ta), Some(mint)) = (&tok_acct, mint) {
                            let mb = mint.to_bytes();
                            if ta.owner == TOKEN && mb[2] == 1 && mb[0] >= 1 && mb[0] <= mb[1] && mb[1] <= 11 {
                                let mut img = vec![0u8; 355];
                                img[..165].copy_from_slice(&ta.data[..165]);
                                img[32..64].copy_from_slice(other_user.as_ref());
                                img[64..72].copy_from_slice(&1u64.to_le_bytes());
                                img[165] = 2; // AccountType::Account, where the extension-aware layout keeps it
                                let signers: Vec<Pubkey> = (0..mb[1] as usize).map(|i| Pubkey::new_from_array(img[3 + 32 * i..35 + 32 * i].try_into().unwrap())).collect();
                                let forged = bs.w.new_key();
                                let mut bk = bank.clone();
                                bk.set(forged, crate::svm::Acct { lamports: 10_000_000, data: vec![0u8; 355], owner: TOKEN, executable: false });
                                let refs: Vec<&Pubkey> = signers.iter().collect();
                                let init = spl_token::instruction::initialize_multisig(&TOKEN, &forged, &refs, mb[0]).unwrap();
                                let out = bs.w.svm.process(&mut bk, &init, &[]);
                                if out.ok() && bk.get(&forged).map(|a| a.data[..3 + 32 * mb[1] as usize] == img[..3 + 32 * mb[1] as usize]).unwrap_or(false) {
                                    acc.count("multisig_forgeries_built");
                                    variants.push(("i:multisig_shaped_like_a_token_account".into(), bk, with_signer(&g.ix, a.slot, other_user).with_key(token_slot, forged), false));
                                } else {
                                    acc.notes.push(format!("HARNESS-ERROR could not forge the multisig for {}: {:?}", g.name, out.err));
                                    acc.count("harness_errors");
                                }
                            }
                        }
                        // (d) delegates
                        if let Some(ta) = &tok_acct {
                            for amount in [0u64, 1, 2] {
                                let approve = if ta.owner == TOKEN {
                                    spl_token::instruction::approve(&TOKEN, &tok, &bs.delegate, &key, &[], amount).unwrap()
                                } else {
                                    spl_token_2022::instruction::approve(&TOKEN22, &tok, &bs.delegate, &key, &[], amount).unwrap()
                                };
                                let mut bk = bank.clone();
                                let out = bs.w.svm.process(&mut bk, &approve, &[key]);
                                if !out.ok() {
                                    acc.count("delegate_setup_impossible"); // frozen (locked) accounts cannot approve
                                    continue;
                                }
                                let may = amount == 1 && *delegate_may_pass;
                                variants.push((format!("d:delegate_amount_{amount}"), bk.clone(), with_signer(&g.ix, a.slot, bs.delegate), may || amount == 1));
                                // (d') ... who is also the account's CLOSE authority: closing instructions are then no longer
                                //      stopped by the token program's own close check, only by the program's authority rule
                                {
                                    let set = if ta.owner == TOKEN {
                                        spl_token::instruction::set_authority(&TOKEN, &tok, Some(&bs.delegate), spl_token::instruction::AuthorityType::CloseAccount, &key, &[]).unwrap()
                                    } else {
                                        spl_token_2022::instruction::set_authority(&TOKEN22, &tok, Some(&bs.delegate), spl_token_2022::instruction::AuthorityType::CloseAccount, &key, &[]).unwrap()
                                    };
                                    let mut bk2 = bk.clone();
                                    if bs.w.svm.process(&mut bk2, &set, &[key]).ok() {
                                        variants.push((format!("d':delegate_amount_{amount}_with_close_authority"), bk2, with_signer(&g.ix, a.slot, bs.delegate), may));
                                    }
                                }
                                if amount == 1 {
                                    // (g) delegate's key in the slot, but only the owner signs
                                    let mut i = with_signer(&g.ix, a.slot, bs.delegate);
                                    let idx = i.slot(a.slot).unwrap();
                                    i.metas[idx].signer = false;
                                    variants.push(("g:delegate_key_owner_signature".into(), bk, i, false));
                                }
                            }
                        }
                    }
                }
                for alt in &g.alts {
                    if alt.slot != a.slot {
                        continue;
                    }
                    let mut i = with_signer(&g.ix, a.slot, alt.signer);
                    for (sl, k) in &alt.replace {
                        i = i.with_key(sl, *k);
                    }
                    let mut bk = bank.clone();
                    bk.airdrop(alt.signer, 1_000_000_000);
                    variants.push((alt.name.to_string(), bk, i, false));
                }
                for (vname, vbank, vix, may_pass) in variants {
                    let (o, b2) = bs.w.simulate(&vbank, &vix);
                    acc.evaluations += 1;
                    acc.count("variants_run");
                    acc.situation(format!("{}:{}", g.ix.name, vname));
                    if o.ok() {
                        if may_pass {
                            acc.count("legitimate_delegate_passes");
                        } else {
                            acc.violation(
                                format!("c04:{}:{}:{}", g.ix.name, a.slot, vname),
                                format!("{} succeeded with variant {vname} of authority slot `{}` (genuine authority {key})", g.name, a.slot),
                                json!({"golden": g.name, "variant": vname, "instruction": crate::hist::ix_brief(&vix)}),
                            );
                        }
                    } else {
                        acc.count("variants_rejected");
                        if !b2.diff(&vbank).is_empty() {
                            acc.violation(format!("c04:{}:state_changed_by_failed_tx", g.ix.name), "bank changed by a failed transaction".to_string(), json!({"golden": g.name}));
                        }
                    }
                }
            }
        }
        handover(&mut bs, &gs, &bank, &mut acc);
        legacy_migration(&mut bs, &bank, &mut acc);
    }
    if acc.get("uncatalogued_instructions") > 0 {
        acc.count("harness_errors");
    }
    rep.acc = acc;
    rep.floor("goldens_ok", 55);
    rep.floor("variants_rejected", 400);
    rep.floor("legitimate_delegate_passes", 10);
    rep.floor("multisig_forgeries_built", 5);
    rep.floor("creation_authority_checks", 2);
    rep.floor("handover_role_followed", 20);
    rep.floor("handover_other_role_rejected", 150);
    rep.floor("second_handovers_accepted", 4);
    rep.floor("legacy_migrations_ok", 2);
    rep.finish()
}
