//! C05 driver.
use super::hrun::run_histories;
use crate::hist::{HistCfg, Monitor};
use crate::monitors::c05::C05;
use crate::report::*;

pub fn run(tier: Tier, seed: u64) -> i32 {
    let mut rep = Report::new("C05", tier, seed);
    rep.rule = "history workload H on the real program (mini-SVM): after EVERY successful instruction the pool account, all Position accounts of the pool (found by scanning the bank) and all tick arrays (both encodings, harness decoders) are compared: pool.liquidity == sum of positions with lower <= tick_current < upper; every tick's net/gross == signed/unsigned sums over positions bounded by it; initialized <=> gross > 0; no bound without a tick. The workload includes Pinocchio repositions (also onto degenerate, inverted and out-of-bounds ranges, which must be refused), range resets, bundles and locks. distinct = (instruction, #ticks crossed bucket) and (#positions, #in range, #fixed arrays, #dynamic arrays) buckets".into();
    rep.assumptions = vec![
        "native mini-SVM reproduces loader serialisation, CPI privileges and post-instruction account rules; CPIs run the real spl-token / token-2022 processors".into(),
        "histories are sampled (seeded), not enumerated".into(),
    ];
    let per_shard = tier.pick(56, 1400);
    let ops = tier.pick(110, 160);
    let acc = run_histories(
        seed,
        per_shard,
        move |_r| HistCfg { ops, lifecycle_ext: true, allow_adaptive: true, seed_growth: true, w_swap: 47, w_liq: 30, w_fees: 5, w_lifecycle: 13, w_clock: 2, w_setters: 2, w_reward: 2, ..Default::default() },
        || vec![Box::new(C05::default()) as Box<dyn Monitor>],
    );
    let mut acc = acc;
    acc.merge(crate::checks::hchecks::directed_position_of_a_twin_pool(seed ^ 0x7717, &mut C05::default()));
    rep.acc = acc;
    rep.floor("twin_pool_position_attempts", 14);
    rep.floor("pool_liquidity_checks_nonzero", 2000);
    rep.floor("tick_checks_nonzero", 5000);
    rep.floor("tick_crossings", 300);
    rep.floor("swaps_ending_on_tick", 50);
    rep.floor("swaps_ending_at_bound", 10);
    rep.floor("ix:reposition_liquidity_v2:ok", 100);
    rep.floor("ix:reposition_liquidity_v2:err", 30);
    rep.finish()
}
