//! C13 A dynamic tick array behaves exactly like a fixed one (Anchor and Pinocchio accessors).
use crate::codec::{self, MAX_TICK_INDEX, MIN_TICK_INDEX};
use crate::report::*;
use crate::rnd::{self, R};
use rand::Rng;
use serde_json::json;
use solana_program::program_error::ProgramError;
use solana_program::pubkey::Pubkey;
use whirlpool::pinocchio::verif_export::wp_state::tick_array::dynamic_tick_array::MemoryMappedDynamicTickArray;
use whirlpool::pinocchio::verif_export::wp_state::tick_array::fixed_tick_array::MemoryMappedFixedTickArray;
use whirlpool::pinocchio::verif_export::wp_state::tick_array::{TickArray as PinoTickArray, TickUpdate as PinoTickUpdate};
use whirlpool::state::{DynamicTickArrayLoader, FixedTickArray, TickArrayType, TickUpdate};

// the Anchor loader maps `[u8; MAX_LEN]` at offset 8, i.e. it may touch MAX_LEN + 8 bytes (on chain: realloc padding)
pub const DYN_BUF: usize = codec::DYNAMIC_TICK_ARRAY_MAX_LEN + 64;

#[derive(Clone, Copy, Debug, Default, PartialEq, Eq)]
pub struct TD {
    pub net: i128,
    pub gross: u128,
    pub fa: u128,
    pub fb: u128,
    pub rw: [u128; 3],
}

pub struct Quad {
    pub start: i32,
    pub spacing: u16,
    pub whirlpool: Pubkey,
    pub fixed: Vec<u8>,
    pub dynamic: Vec<u8>,
    pub pfixed: Vec<u8>,
    pub pdynamic: Vec<u8>,
    pub model: Vec<Option<TD>>,
}

fn aerr(e: anchor_lang::error::Error) -> u64 {
    let pe: ProgramError = e.into();
    u64::from(pe)
}

/// A panic inside an accessor is an outcome like any other (and differs from every legitimate one).
fn guard<T>(f: impl FnOnce() -> Result<T, u64>) -> Result<T, u64> {
    crate::svm::quiet_catch(f).unwrap_or(Err(u64::MAX))
}

impl Quad {
    pub fn new(start: i32, spacing: u16) -> Quad {
        let whirlpool = Pubkey::new_unique();
        let empty = codec::TickArray {
            dynamic: false,
            start_tick_index: start,
            whirlpool,
            ticks: vec![codec::Tick::default(); 88],
            bitmap: 0,
            used_len: 0,
        };
        let fixed = empty.encode_fixed();
        let mut dynamic = empty.encode_dynamic();
        dynamic.resize(DYN_BUF, 0);
        Quad {
            start,
            spacing,
            whirlpool,
            pfixed: fixed.clone(),
            pdynamic: dynamic.clone(),
            fixed,
            dynamic,
            model: vec![None; 88],
        }
    }
    fn afixed(&self) -> &FixedTickArray {
        unsafe { &*(self.fixed[8..].as_ptr() as *const FixedTickArray) }
    }
    fn afixed_mut(&mut self) -> &mut FixedTickArray {
        unsafe { &mut *(self.fixed[8..].as_mut_ptr() as *mut FixedTickArray) }
    }
    fn adyn(&self) -> &DynamicTickArrayLoader {
        DynamicTickArrayLoader::load(&self.dynamic[8..])
    }
    fn adyn_mut(&mut self) -> &mut DynamicTickArrayLoader {
        DynamicTickArrayLoader::load_mut(&mut self.dynamic[8..])
    }
    fn pfix(&self) -> &MemoryMappedFixedTickArray {
        unsafe { &*(self.pfixed.as_ptr() as *const MemoryMappedFixedTickArray) }
    }
    fn pfix_mut(&mut self) -> &mut MemoryMappedFixedTickArray {
        unsafe { &mut *(self.pfixed.as_mut_ptr() as *mut MemoryMappedFixedTickArray) }
    }
    fn pdyn(&self) -> &MemoryMappedDynamicTickArray {
        unsafe { &*(self.pdynamic.as_ptr() as *const MemoryMappedDynamicTickArray) }
    }
    fn pdyn_mut(&mut self) -> &mut MemoryMappedDynamicTickArray {
        unsafe { &mut *(self.pdynamic.as_mut_ptr() as *mut MemoryMappedDynamicTickArray) }
    }

    pub fn slot_index(&self, slot: i32) -> i32 {
        self.start + slot * self.spacing as i32
    }

    /// model: is `idx` a tick stored in this array?
    fn model_slot(&self, idx: i32) -> Option<usize> {
        let s = self.spacing as i64;
        let (idx64, st) = (idx as i64, self.start as i64);
        if idx64 < st || idx64 >= st + 88 * s {
            return None;
        }
        if !(MIN_TICK_INDEX..=MAX_TICK_INDEX).contains(&idx) {
            return None;
        }
        if idx64.rem_euclid(s) != 0 {
            return None;
        }
        Some(((idx64 - st) / s) as usize)
    }

    /// Apply an update on all four implementations and the model. Returns a disagreement description.
    pub fn update(&mut self, idx: i32, td: Option<TD>) -> Result<(), String> {
        let (au, pu) = match td {
            Some(t) => (
                TickUpdate { initialized: true, liquidity_net: t.net, liquidity_gross: t.gross, fee_growth_outside_a: t.fa, fee_growth_outside_b: t.fb, reward_growths_outside: t.rw },
                PinoTickUpdate { initialized: true, liquidity_net: t.net, liquidity_gross: t.gross, fee_growth_outside_a: t.fa, fee_growth_outside_b: t.fb, reward_growths_outside: t.rw },
            ),
            None => (TickUpdate::default(), PinoTickUpdate::default()),
        };
        let sp = self.spacing;
        let r1 = guard(|| self.afixed_mut().update_tick(idx, sp, &au).map_err(aerr));
        let r2 = guard(|| self.adyn_mut().update_tick(idx, sp, &au).map_err(aerr));
        let r3 = guard(|| self.pfix_mut().update_tick(idx, sp, &pu).map_err(u64::from));
        let r4 = guard(|| self.pdyn_mut().update_tick(idx, sp, &pu).map_err(u64::from));
        let exp: Result<(), u64> = match self.model_slot(idx) {
            Some(s) => {
                self.model[s] = td;
                Ok(())
            }
            None => Err(6000 + whirlpool::errors::ErrorCode::TickNotFound as u64),
        };
        if r1 != exp || r2 != exp || r3 != exp || r4 != exp {
            return Err(format!(
                "update_tick({idx}, spacing {sp}, init={}) -> anchor-fixed {:?}, anchor-dynamic {:?}, pino-fixed {:?}, pino-dynamic {:?}, model {:?}",
                td.is_some(), r1, r2, r3, r4, exp
            ));
        }
        Ok(())
    }

    fn tick_of_anchor(t: &whirlpool::state::Tick) -> (bool, TD) {
        (
            t.initialized,
            TD { net: { t.liquidity_net }, gross: { t.liquidity_gross }, fa: { t.fee_growth_outside_a }, fb: { t.fee_growth_outside_b }, rw: { t.reward_growths_outside } },
        )
    }

    pub fn check_get(&self, idx: i32) -> Result<(), String> {
        let sp = self.spacing;
        let exp: Result<(bool, TD), u64> = match self.model_slot(idx) {
            Some(s) => Ok(match self.model[s] {
                Some(t) => (true, t),
                None => (false, TD::default()),
            }),
            None => Err(6000 + whirlpool::errors::ErrorCode::TickNotFound as u64),
        };
        let r1 = guard(|| self.afixed().get_tick(idx, sp).map(|t| Self::tick_of_anchor(&t)).map_err(aerr));
        let r2 = guard(|| self.adyn().get_tick(idx, sp).map(|t| Self::tick_of_anchor(&t)).map_err(aerr));
        let pt = |t: &whirlpool::pinocchio::verif_export::wp_state::MemoryMappedTick| {
            (t.initialized(), TD { net: t.liquidity_net(), gross: t.liquidity_gross(), fa: t.fee_growth_outside_a(), fb: t.fee_growth_outside_b(), rw: t.reward_growths_outside() })
        };
        let r3 = guard(|| self.pfix().get_tick(idx, sp).map(pt).map_err(u64::from));
        let r4 = guard(|| self.pdyn().get_tick(idx, sp).map(pt).map_err(u64::from));
        if r1 != exp || r2 != exp || r3 != exp || r4 != exp {
            return Err(format!("get_tick({idx}, {sp}) -> anchor-fixed {:?}, anchor-dynamic {:?}, pino-fixed {:?}, pino-dynamic {:?}, model {:?}", r1, r2, r3, r4, exp));
        }
        // usable-tick lookup of the Pinocchio trait against the Anchor pair
        let exp_off = self.model_slot(idx);
        let o3 = self.pfix().check_is_usable_tick_and_get_offset(idx, sp);
        let o4 = self.pdyn().check_is_usable_tick_and_get_offset(idx, sp);
        if o3 != exp_off || o4 != exp_off {
            return Err(format!("check_is_usable_tick_and_get_offset({idx}, {sp}) -> pino-fixed {:?}, pino-dynamic {:?}, expected {:?}", o3, o4, exp_off));
        }
        Ok(())
    }

    pub fn check_next(&self, idx: i32, a_to_b: bool) -> Result<(), String> {
        let sp = self.spacing;
        let s = sp as i64;
        // model
        let (mut lo, mut hi) = (self.start as i64, self.start as i64 + 88 * s);
        if !a_to_b {
            lo -= s;
            hi -= s;
        }
        let exp: Result<Option<i32>, u64> = if (idx as i64) < lo || (idx as i64) >= hi {
            Err(6000 + whirlpool::errors::ErrorCode::InvalidTickArraySequence as u64)
        } else {
            let mut off = (idx as i64 - self.start as i64).div_euclid(s);
            if !a_to_b {
                off += 1;
            }
            let mut found = None;
            while (0..88).contains(&off) {
                if self.model[off as usize].is_some() {
                    found = Some((off * s) as i32 + self.start);
                    break;
                }
                off += if a_to_b { -1 } else { 1 };
            }
            Ok(found)
        };
        let r1 = guard(|| self.afixed().get_next_init_tick_index(idx, sp, a_to_b).map_err(aerr));
        let r2 = guard(|| self.adyn().get_next_init_tick_index(idx, sp, a_to_b).map_err(aerr));
        if r1 != exp || r2 != exp {
            return Err(format!("get_next_init_tick_index({idx}, {sp}, a_to_b={a_to_b}) -> anchor-fixed {:?}, anchor-dynamic {:?}, model {:?}", r1, r2, exp));
        }
        Ok(())
    }

    /// Well-formedness of the dynamic encodings + byte agreement + fixed bytes against the harness encoder.
    pub fn check_encoding(&self) -> Result<(), String> {
        let n = self.model.iter().filter(|t| t.is_some()).count();
        let used = 148 + 112 * n;
        for (name, buf) in [("anchor-dynamic", &self.dynamic), ("pino-dynamic", &self.pdynamic)] {
            let ta = match codec::TickArray::decode(&buf[..]) {
                Some(Ok(t)) => t,
                Some(Err(e)) => return Err(format!("{name}: malformed encoding: {e}")),
                None => return Err(format!("{name}: not a dynamic tick array any more")),
            };
            if ta.used_len != used {
                return Err(format!("{name}: used length {} != 148 + 112*{n}", ta.used_len));
            }
            let mut bm = 0u128;
            for (i, t) in self.model.iter().enumerate() {
                if t.is_some() {
                    bm |= 1 << i;
                }
            }
            if ta.bitmap != bm {
                return Err(format!("{name}: bitmap {:#x} != initialized set {:#x}", ta.bitmap, bm));
            }
            if ta.start_tick_index != self.start || ta.whirlpool != self.whirlpool {
                return Err(format!("{name}: header changed"));
            }
            for (i, t) in ta.ticks.iter().enumerate() {
                let m = self.model[i];
                let got = t.initialized.then_some(TD { net: t.liquidity_net, gross: t.liquidity_gross, fa: t.fee_growth_outside_a, fb: t.fee_growth_outside_b, rw: t.reward_growths_outside });
                if got != m {
                    return Err(format!("{name}: slot {i} holds {:?}, expected {:?}", got, m));
                }
            }
        }
        if self.dynamic[..used] != self.pdynamic[..used] {
            return Err("anchor-dynamic and pino-dynamic bytes differ within the used length".into());
        }
        if self.fixed != self.pfixed {
            return Err("anchor-fixed and pino-fixed bytes differ".into());
        }
        // fixed array against the harness's own encoder
        let fx = codec::TickArray::decode(&self.fixed).and_then(|r| r.ok()).ok_or("fixed array no longer decodes")?;
        for (i, t) in fx.ticks.iter().enumerate() {
            let got = t.initialized.then_some(TD { net: t.liquidity_net, gross: t.liquidity_gross, fa: t.fee_growth_outside_a, fb: t.fee_growth_outside_b, rw: t.reward_growths_outside });
            if got != self.model[i] {
                return Err(format!("fixed: slot {i} holds {:?}, expected {:?}", got, self.model[i]));
            }
        }
        if fx.start_tick_index != self.start || fx.whirlpool != self.whirlpool {
            return Err("fixed: header changed".into());
        }
        Ok(())
    }

    pub fn check_all_queries(&self, acc: &mut Acc) -> Result<(), String> {
        let s = self.spacing as i32;
        for slot in -2..=89 {
            let idx = self.start.saturating_add(slot * s);
            self.check_get(idx)?;
            acc.evaluations += 1;
            if s > 1 {
                self.check_get(idx + 1)?;
                self.check_get(idx - 1)?;
            }
            for a_to_b in [true, false] {
                self.check_next(idx, a_to_b)?;
                if s > 1 {
                    self.check_next(idx + s / 2, a_to_b)?;
                    self.check_next(idx - 1, a_to_b)?;
                }
                acc.evaluations += 1;
            }
        }
        for idx in [MIN_TICK_INDEX, MAX_TICK_INDEX, MIN_TICK_INDEX - 1, MAX_TICK_INDEX + 1, 0] {
            self.check_get(idx)?;
        }
        Ok(())
    }
}

fn rand_td(r: &mut R) -> TD {
    let h = |r: &mut R| -> u128 {
        match r.gen_range(0..6) {
            0 => 0,
            1 => u128::MAX,
            2 => 1,
            _ => rnd::log_u128(r, 128),
        }
    };
    TD {
        net: match r.gen_range(0..6) {
            0 => i128::MIN,
            1 => i128::MAX,
            2 => -1,
            _ => h(r) as i128,
        },
        gross: h(r).max(1),
        fa: h(r),
        fb: h(r),
        rw: [h(r), h(r), h(r)],
    }
}

pub fn min_array_start(spacing: u16) -> i32 {
    let tia = 88 * spacing as i32;
    MIN_TICK_INDEX - (MIN_TICK_INDEX % tia + tia)
}

const BOUNDARY_SLOTS: [i32; 8] = [0, 1, 62, 63, 64, 65, 86, 87];

fn viol(acc: &mut Acc, q: &Quad, what: &str, detail: String, history: &[(i32, bool)]) {
    let sig = format!("tickarray:{what}");
    acc.violation(
        sig,
        detail,
        json!({"start": q.start, "spacing": q.spacing, "history(tick_index, initialized)": history.iter().rev().take(40).rev().collect::<Vec<_>>() }),
    );
}

/// In situ (instruction level): after every successful instruction of a history workload every tick-array
/// account of the pools it touched must be a well-formed encoding of its kind AND its account must have exactly
/// the size that encoding needs - a fixed array 9988 bytes, a dynamic array 148 + 112 x (initialized ticks), with
/// bitmap == initialized slots - and be rent exempt for that size. This is where the grow / shrink and rent
/// bookkeeping of the liquidity instructions (Anchor and Pinocchio) shows: lower and upper arrays of either kind,
/// the same account for both bounds, transitions to and from zero.
#[derive(Default)]
pub struct C13InSitu;
impl crate::hist::Monitor for C13InSitu {
    fn after(&mut self, w: &mut crate::world::World, obs: &crate::world::Obs, acc: &mut Acc) {
        if !obs.ok() {
            return;
        }
        let rent = solana_program::rent::Rent::default();
        for m in &obs.ix.metas {
            let Some(a) = w.bank.get(&m.key) else { continue };
            if a.owner != whirlpool::ID {
                continue;
            }
            let Some(dec) = codec::TickArray::decode(&a.data) else { continue };
            acc.count("tick_array_accounts_checked");
            let fail = |acc: &mut Acc, sig: &str, detail: String| {
                acc.violation(format!("tickarray:in_situ:{sig}:{}", obs.ix.name), detail, json!({"account": m.key.to_string(), "slot": m.name, "instruction": crate::hist::ix_brief(&obs.ix)}));
            };
            match dec {
                Err(e) => fail(acc, "malformed", format!("{} ({} bytes): {e}", m.key, a.data.len())),
                Ok(ta) => {
                    let n = ta.count_initialized();
                    let want = if ta.dynamic { 148 + 112 * n } else { codec::FIXED_TICK_ARRAY_LEN };
                    if a.data.len() != want {
                        fail(acc, "account_size", format!("{} tick array with {n} initialized ticks is {} bytes long, its encoding needs {want}", if ta.dynamic { "dynamic" } else { "fixed" }, a.data.len()));
                    }
                    if ta.dynamic {
                        let set: u128 = ta.ticks.iter().enumerate().filter(|(_, t)| t.initialized).fold(0u128, |b, (i, _)| b | (1u128 << i));
                        if set != ta.bitmap {
                            fail(acc, "bitmap", format!("bitmap {:#x} but the tags mark {:#x}", ta.bitmap, set));
                        }
                        if ta.used_len != a.data.len() {
                            fail(acc, "used_length", format!("records end at byte {} of {}", ta.used_len, a.data.len()));
                        }
                        acc.count("dynamic_tick_arrays_checked");
                        if obs.pre.get(&m.key).map(|p| p.data.len()) != Some(a.data.len()) {
                            acc.count("dynamic_tick_array_resizes_seen");
                        }
                    }
                    if a.lamports < rent.minimum_balance(a.data.len()) {
                        fail(acc, "rent", format!("{} lamports for {} bytes (needs {})", a.lamports, a.data.len(), rent.minimum_balance(a.data.len())));
                    }
                }
            }
        }
    }
}

/// Directed instruction-level scenario: one tick array is driven to all 88 ticks initialized through the real
/// liquidity instructions (44 dust positions over slot pairs, random order, alternating v1 / v2), then emptied
/// again - once on a dynamic and once on a fixed array. Every instruction must have the same outcome on both
/// kinds (and succeed); the in-situ rules and the position-sum rule (C05) are applied after every instruction.
pub fn directed_full_array(seed: u64, acc: &mut Acc) {
    use crate::hist::Monitor;
    use crate::world::World;
    use rand::seq::SliceRandom;
    let mut outcomes: Vec<Vec<bool>> = vec![];
    for dynamic in [true, false] {
        let mut w = World::new(rnd::rng(seed ^ 0xf011));
        let c = w.add_config(300);
        let (m1, m2) = (w.add_spl_mint(6), w.add_spl_mint(6));
        let u = w.add_user();
        let sp: u16 = *rnd::pick(&mut w.r, &[1u16, 8]);
        // price far below the array, so deposits are single-sided and cheap
        let start = 88 * sp as i32 * w.r.gen_range(2..6);
        let Ok(p) = w.add_pool(c, m1, m2, sp, 3000, whirlpool::math::sqrt_price_from_tick_index(-5000), false) else { continue };
        w.ensure_tick_array(p, start, dynamic);
        let mut slots: Vec<i32> = (0..88).collect();
        slots.shuffle(&mut w.r);
        let mut mon = C13InSitu;
        let mut out = vec![];
        let mut opened = vec![];
        for pair in slots.chunks(2) {
            let (a, b) = (pair[0].min(pair[1]), pair[0].max(pair[1]));
            let (lo, hi) = (start + a * sp as i32, start + b * sp as i32);
            let (ix, info) = w.open_position_ix(p, u, lo, hi, opened.len() % 2 == 0);
            if !w.exec(ix).ok() {
                out.push(false);
                continue;
            }
            w.positions.push(info);
            let i = w.positions.len() - 1;
            opened.push(i);
            let l = w.r.gen_range(1..1000u128);
            let ix = if opened.len() % 2 == 0 { w.modify_v1(i).increase_liquidity(l, u64::MAX, u64::MAX) } else { w.modify_v2(i).increase_liquidity_v2(l, u64::MAX, u64::MAX, None) };
            let o = w.exec(ix);
            out.push(o.ok());
            acc.evaluations += 1;
            mon.after(&mut w, &o, acc);
            let pk = w.pools[p].key;
            for (sig, d) in crate::monitors::c05::check_pool(&w.bank, &pk, acc) {
                acc.violation(format!("tickarray:directed_full_array:{sig}"), d, json!({"dynamic": dynamic, "spacing": sp}));
            }
        }
        let key = w.tick_array_key(p, start);
        let n = w.bank.data(&key).and_then(codec::TickArray::decode).and_then(|r| r.ok()).map(|t| t.count_initialized()).unwrap_or(0);
        if n == 88 {
            acc.count("directed_arrays_filled_through_instructions");
        }
        opened.shuffle(&mut w.r);
        for i in opened {
            let l = codec::Position::decode(w.bank.data(&w.positions[i].position).unwrap_or(&[])).map(|p| p.liquidity).unwrap_or(0);
            let ix = if i % 2 == 0 { w.modify_v1(i).decrease_liquidity(l, 0, 0) } else { w.modify_v2(i).decrease_liquidity_v2(l, 0, 0, None) };
            let o = w.exec(ix);
            out.push(o.ok());
            acc.evaluations += 1;
            mon.after(&mut w, &o, acc);
        }
        outcomes.push(out);
    }
    if outcomes.len() == 2 {
        if outcomes[0] != outcomes[1] {
            let k = outcomes[0].iter().zip(&outcomes[1]).position(|(a, b)| a != b).unwrap_or(0);
            acc.violation("tickarray:directed_full_array:dynamic_and_fixed_disagree", format!("instruction {k} of the fill / drain sequence: dynamic array {} , fixed array {}", if outcomes[0].get(k) == Some(&true) { "succeeded" } else { "failed" }, if outcomes[1].get(k) == Some(&true) { "succeeded" } else { "failed" }), json!({"instruction_index": k}));
        } else if outcomes[0].iter().any(|x| !x) {
            let k = outcomes[0].iter().position(|x| !x).unwrap_or(0);
            acc.violation("tickarray:directed_full_array:instruction_failed", format!("instruction {k} of the fill / drain sequence failed on both array kinds"), json!({"instruction_index": k}));
        }
    }
}

/// Fill one array completely (all 88 slots initialized, random order) and empty it again (another random order),
/// with the encoding oracle after every update and the complete query set every `q_every` updates and at the two
/// extremes. Random toggling never reaches a full array; the last insertions are where the packed region is longest.
pub fn fill_and_drain(start: i32, spacing: u16, r: &mut rnd::R, q_every: usize, acc: &mut Acc) {
    let mut q = Quad::new(start, spacing);
    let mut hist: Vec<(i32, bool)> = vec![];
    let usable: Vec<i32> = (0..88).map(|s| q.slot_index(s)).filter(|i| q.model_slot(*i).is_some()).collect();
    for phase_init in [true, false] {
        let mut order = usable.clone();
        for i in (1..order.len()).rev() {
            order.swap(i, r.gen_range(0..=i));
        }
        for (k, idx) in order.iter().enumerate() {
            hist.push((*idx, phase_init));
            acc.count("fill_drain_updates");
            if let Err(e) = q.update(*idx, phase_init.then(|| rand_td(r))) {
                viol(acc, &q, "update_disagreement", e, &hist);
                return;
            }
            if let Err(e) = q.check_encoding() {
                viol(acc, &q, "encoding", e, &hist);
                return;
            }
            // a modification of an already initialized tick while the array is (nearly) full
            if phase_init && k + 3 >= order.len() {
                let j = order[r.gen_range(0..=k)];
                hist.push((j, true));
                if let Err(e) = q.update(j, Some(rand_td(r))).and_then(|_| q.check_encoding()) {
                    viol(acc, &q, "encoding", e, &hist);
                    return;
                }
            }
            let last = k + 1 == order.len();
            if last || k % q_every == 0 {
                if let Err(e) = q.check_all_queries(acc) {
                    viol(acc, &q, "query_disagreement", e, &hist);
                    return;
                }
            } else {
                let i2 = q.start.saturating_add(r.gen_range(-2..90) * spacing as i32);
                acc.evaluations += 1;
                if let Err(e) = q.check_get(i2).and_then(|_| q.check_next(i2, r.gen())) {
                    viol(acc, &q, "query_disagreement", e, &hist);
                    return;
                }
            }
            if last && phase_init {
                acc.count("arrays_filled_completely");
            }
        }
    }
    acc.count("fill_drain_sweeps");
}

pub fn run(tier: Tier, seed: u64) -> i32 {
    let mut rep = Report::new("C13", tier, seed);
    rep.rule = "exhaustive: for spacings {1,64,32896} x starts {0, a negative array, the MIN-straddling array}, every subset (256) of the boundary slots {0,1,62,63,64,65,86,87} as initialized set, every single update (initialize/modify, de-initialize) of every boundary slot, and after each the complete query set (get_tick on slots -2..89, unaligned and out-of-bounds indexes; get_next_init_tick_index from every slot in both directions incl. the shifted range) compared across Anchor fixed, Anchor dynamic, Pinocchio fixed, Pinocchio dynamic and an abstract slot map, plus encoding well-formedness (bitmap, 113/1-byte records in slot order, used length 148+112n, Anchor bytes == Pinocchio bytes). random: long update/query sequences over all 88 slots, one in ten a fill-and-drain sweep (every slot initialized in random order until the array is full, then emptied). directed: one tick array filled to 88 initialized ticks and emptied again through the real liquidity instructions, on a dynamic and on a fixed array: same outcomes, all succeed, position sums hold. in situ: after every successful instruction of a liquidity-heavy history workload (fixed and dynamic arrays mixed per pool, repositions, same-array positions) every tick-array account touched must be well formed, have exactly the size its encoding needs (9988 / 148+112n), bitmap == tags, and be rent exempt. distinct = (spacing, start class, initialized-set, transition)".into();
    rep.exhaustive = true;
    rep.assumptions = vec![
        "buffers are allocated at the maximum encoded size (on chain: 10 KiB realloc padding behind every account)".into(),
        "bytes beyond the used length are not constrained".into(),
    ];
    let rand_ops: u64 = tier.pick(1_600_000, 40_000_000);
    let combos: Vec<(u16, i32)> = {
        let mut v = vec![];
        for sp in [1u16, 64, 32896] {
            let tia = 88 * sp as i32;
            let neg = if sp == 32896 { min_array_start(sp) } else { -tia * 3 };
            for st in [0, neg, min_array_start(sp)] {
                if !v.contains(&(sp, st)) {
                    v.push((sp, st));
                }
            }
        }
        v
    };
    let ncombos = combos.len();
    let acc = run_shards(16, seed, move |shard, s| {
        let mut r = rnd::rng(s);
        let mut acc = Acc::default();
        // ---------- exhaustive boundary graph: subsets are split over the shards ----------
        for (ci, (sp, st)) in combos.iter().enumerate() {
            for subset in 0u32..256 {
                if (subset as usize + ci) % 16 != shard {
                    continue;
                }
                // build the state by applying initialisations in random order
                let mut q = Quad::new(*st, *sp);
                let mut hist: Vec<(i32, bool)> = vec![];
                let mut order: Vec<usize> = (0..8).filter(|b| subset & (1 << b) != 0).collect();
                for i in (1..order.len()).rev() {
                    order.swap(i, r.gen_range(0..=i));
                }
                let mut ok = true;
                for b in order {
                    let idx = q.slot_index(BOUNDARY_SLOTS[b]);
                    if q.model_slot(idx).is_none() {
                        continue;
                    }
                    hist.push((idx, true));
                    if let Err(e) = q.update(idx, Some(rand_td(&mut r))) {
                        viol(&mut acc, &q, "update_disagreement", e, &hist);
                        ok = false;
                        break;
                    }
                }
                if !ok {
                    continue;
                }
                acc.count("states");
                // every transition from this state
                for b in 0..8 {
                    for init in [true, false] {
                        let mut q2 = Quad { start: q.start, spacing: q.spacing, whirlpool: q.whirlpool, fixed: q.fixed.clone(), dynamic: q.dynamic.clone(), pfixed: q.pfixed.clone(), pdynamic: q.pdynamic.clone(), model: q.model.clone() };
                        let idx = q2.slot_index(BOUNDARY_SLOTS[b]);
                        let mut h2 = hist.clone();
                        h2.push((idx, init));
                        acc.count("transitions");
                        let td = init.then(|| rand_td(&mut r));
                        if let Err(e) = q2.update(idx, td) {
                            viol(&mut acc, &q2, "update_disagreement", e, &h2);
                            continue;
                        }
                        if let Err(e) = q2.check_encoding() {
                            viol(&mut acc, &q2, "encoding", e, &h2);
                            continue;
                        }
                        if let Err(e) = q2.check_all_queries(&mut acc) {
                            viol(&mut acc, &q2, "query_disagreement", e, &h2);
                            continue;
                        }
                        acc.situation(format!("ex:{sp}:{st}:{subset}:{b}:{init}"));
                    }
                }
                if subset == 0b10100101 && ci == 0 {
                    acc.sample(json!({"spacing": sp, "start": st, "initialized boundary slots": BOUNDARY_SLOTS.iter().enumerate().filter(|(b, _)| subset & (1 << b) != 0).map(|(_, s)| *s).collect::<Vec<_>>(), "transitions_checked": 16}));
                }
            }
        }
        // ---------- random sequences over all 88 slots ----------
        let per = rand_ops / 16;
        let mut done = 0;
        while done < per {
            let sp: u16 = *rnd::pick(&mut r, &[1u16, 2, 8, 64, 96, 128, 256, 32768, 32896, u16::MAX]);
            let tia = 88i64 * sp as i64;
            let st: i32 = match r.gen_range(0..4) {
                0 => min_array_start(sp),
                1 => 0,
                _ => {
                    let lo = (MIN_TICK_INDEX as i64).div_euclid(tia);
                    let hi = (MAX_TICK_INDEX as i64).div_euclid(tia);
                    (r.gen_range(lo..=hi) * tia) as i32
                }
            };
            if rnd::chance(&mut r, 1, 10) {
                let before = acc.counters.get("fill_drain_updates").copied().unwrap_or(0);
                fill_and_drain(st, sp, &mut r, 16, &mut acc);
                done += acc.counters.get("fill_drain_updates").copied().unwrap_or(0) - before;
                continue;
            }
            let mut q = Quad::new(st, sp);
            let mut hist = vec![];
            let len = r.gen_range(20..400);
            for k in 0..len {
                done += 1;
                let slot = match r.gen_range(0..10) {
                    0 => r.gen_range(-2..90),
                    1 => *rnd::pick(&mut r, &BOUNDARY_SLOTS),
                    _ => r.gen_range(0..88),
                };
                let mut idx = q.start.saturating_add(slot.saturating_mul(sp as i32));
                if sp > 1 && rnd::chance(&mut r, 1, 20) {
                    idx += 1;
                }
                let init = rnd::chance(&mut r, 3, 5);
                hist.push((idx, init));
                acc.count("random_updates");
                if let Err(e) = q.update(idx, init.then(|| rand_td(&mut r))) {
                    viol(&mut acc, &q, "update_disagreement", e, &hist);
                    break;
                }
                if let Err(e) = q.check_encoding() {
                    viol(&mut acc, &q, "encoding", e, &hist);
                    break;
                }
                let res = if k % 16 == 0 || k + 1 == len {
                    q.check_all_queries(&mut acc)
                } else {
                    let i2 = q.start.saturating_add(r.gen_range(-2..90) * sp as i32);
                    acc.evaluations += 1;
                    q.check_get(i2).and_then(|_| q.check_next(i2, r.gen()))
                };
                if let Err(e) = res {
                    viol(&mut acc, &q, "query_disagreement", e, &hist);
                    break;
                }
            }
            let n = q.model.iter().filter(|t| t.is_some()).count();
            acc.situation(format!("rnd:{sp}:{}:{}", (st > 0) as i32 - (st < 0) as i32, n / 8));
        }
        acc
    });
    let mut acc = acc;
    for k in 0..tier.pick(6u64, 60) {
        directed_full_array(seed.wrapping_add(k * 7919), &mut acc);
    }
    let per_shard = tier.pick(40, 1000);
    acc.merge(super::hrun::run_histories(
        seed ^ 0x1313,
        per_shard,
        move |_r| crate::hist::HistCfg { ops: 120, spl_only: false, lifecycle_ext: true, w_swap: 25, w_liq: 50, w_fees: 5, w_lifecycle: 14, w_clock: 1, w_setters: 1, spacings: vec![1, 8, 64, 128], ..Default::default() },
        || vec![Box::new(C13InSitu) as Box<dyn crate::hist::Monitor>],
    ));
    rep.acc = acc;
    rep.floor("dynamic_tick_arrays_checked", 5000);
    rep.floor("directed_arrays_filled_through_instructions", 8);
    rep.floor("dynamic_tick_array_resizes_seen", 1000);
    rep.floor("states", 256 * ncombos as u64 * 9 / 10);
    rep.floor("transitions", 16 * 256 * ncombos as u64 * 9 / 10);
    rep.floor("random_updates", rand_ops * 6 / 10);
    rep.floor("arrays_filled_completely", 200);
    rep.finish()
}
