//! C19 Pools exist only with in-bound parameters and over supported token mints.
use super::hrun::run_histories;
use crate::codec::{self, AfConstants, MAX_SQRT_PRICE_X64, MIN_SQRT_PRICE_X64};
use crate::hist::{ix_brief, HistCfg, Monitor};
use crate::ix::build as b;
use crate::report::*;
use crate::rnd::{self, R};
use crate::svm::{Acct, Bank};
use crate::world::*;
use rand::Rng;
use serde_json::json;
use solana_program::pubkey::Pubkey;
use solana_program::system_program;

// ------------------------------------------------------------------ invariant sweep
pub fn constants_valid(c: &AfConstants, tick_spacing: u16) -> Result<(), String> {
    if c.filter_period == 0 || c.decay_period == 0 || c.decay_period <= c.filter_period {
        return Err(format!("periods not ordered: filter {} decay {}", c.filter_period, c.decay_period));
    }
    if c.reduction_factor >= 10_000 {
        return Err(format!("reduction factor {} >= 10000", c.reduction_factor));
    }
    if c.adaptive_fee_control_factor >= 100_000 {
        return Err(format!("control factor {} >= 100000", c.adaptive_fee_control_factor));
    }
    if c.tick_group_size == 0 || c.tick_group_size > tick_spacing || tick_spacing % c.tick_group_size != 0 {
        return Err(format!("tick group size {} does not divide tick spacing {tick_spacing}", c.tick_group_size));
    }
    if c.max_volatility_accumulator as u64 * c.tick_group_size as u64 > u32::MAX as u64 {
        return Err(format!("max accumulator {} x group size {} exceeds 32 bits", c.max_volatility_accumulator, c.tick_group_size));
    }
    if c.major_swap_threshold_ticks == 0 || c.major_swap_threshold_ticks as u32 > tick_spacing as u32 * 88 {
        return Err(format!("major swap threshold {} outside 1..=88*spacing", c.major_swap_threshold_ticks));
    }
    Ok(())
}

/// Every Config / FeeTier / AdaptiveFeeTier / Whirlpool / Oracle in the bank is within the published bounds.
pub fn sweep(bank: &Bank, acc: &mut Acc) -> Vec<(String, String)> {
    let mut out = vec![];
    for (k, a) in &bank.accts {
        if a.owner != whirlpool::ID {
            continue;
        }
        if let Some(p) = codec::Pool::decode(&a.data) {
            acc.count("pools_swept");
            if p.fee_rate > 60_000 {
                out.push(("pool_fee_rate".into(), format!("pool {k}: fee rate {} > 60000", p.fee_rate)));
            }
            if p.protocol_fee_rate > 2_500 {
                out.push(("pool_protocol_fee_rate".into(), format!("pool {k}: protocol fee rate {} > 2500", p.protocol_fee_rate)));
            }
            if !(MIN_SQRT_PRICE_X64..=MAX_SQRT_PRICE_X64).contains(&p.sqrt_price) {
                out.push(("pool_price_bounds".into(), format!("pool {k}: sqrt price {} out of bounds", p.sqrt_price)));
            }
            if p.tick_spacing == 0 {
                out.push(("pool_tick_spacing".into(), format!("pool {k}: tick spacing 0")));
            }
            if p.token_mint_a >= p.token_mint_b {
                out.push(("pool_mint_order".into(), format!("pool {k}: mints not in canonical order ({} >= {})", p.token_mint_a, p.token_mint_b)));
            }
            if p.sqrt_price == MIN_SQRT_PRICE_X64 || p.sqrt_price == MAX_SQRT_PRICE_X64 {
                acc.count("pools_at_price_bound");
            }
        } else if let Some(f) = codec::FeeTier::decode(&a.data) {
            acc.count("fee_tiers_swept");
            if f.default_fee_rate > 60_000 || f.tick_spacing == 0 {
                out.push(("fee_tier_bounds".into(), format!("fee tier {k}: default rate {} spacing {}", f.default_fee_rate, f.tick_spacing)));
            }
        } else if let Some(t) = codec::AdaptiveFeeTier::decode(&a.data) {
            acc.count("adaptive_tiers_swept");
            if t.default_base_fee_rate > 60_000 || t.tick_spacing == 0 {
                out.push(("adaptive_tier_bounds".into(), format!("adaptive tier {k}: base rate {} spacing {}", t.default_base_fee_rate, t.tick_spacing)));
            }
            if let Err(e) = constants_valid(&t.constants, t.tick_spacing) {
                out.push(("adaptive_tier_constants".into(), format!("adaptive tier {k}: {e}")));
            }
        } else if let Some(c) = codec::Config::decode(&a.data) {
            if c.default_protocol_fee_rate > 2_500 {
                out.push(("config_protocol_fee_rate".into(), format!("config {k}: default protocol fee rate {} > 2500", c.default_protocol_fee_rate)));
            }
        } else if let Some(o) = codec::Oracle::decode(&a.data) {
            acc.count("oracles_swept");
            if let Some(p) = bank.data(&o.whirlpool).and_then(codec::Pool::decode) {
                if let Err(e) = constants_valid(&o.constants, p.tick_spacing) {
                    out.push(("oracle_constants".into(), format!("oracle {k}: {e}")));
                }
            }
        }
    }
    out
}

#[derive(Default)]
pub struct C19m;
impl Monitor for C19m {
    fn after(&mut self, w: &mut World, obs: &Obs, acc: &mut Acc) {
        if !obs.ok() {
            return;
        }
        for (sig, d) in sweep(&w.bank, acc) {
            acc.violation(format!("c19:{sig}:after:{}", obs.ix.name), d, json!({"instruction": ix_brief(&obs.ix)}));
        }
        if obs.ix.name == "set_adaptive_fee_constants" {
            // the constants were validated against the named pool's spacing: the oracle must be that pool's
            let (pk, ok) = (obs.ix.key("whirlpool"), obs.ix.key("oracle"));
            acc.count("adaptive_constant_updates");
            if w.bank.data(&ok).and_then(codec::Oracle::decode).map(|o| o.whirlpool) != Some(pk) {
                acc.violation("c19:constants_validated_against_another_pool:set_adaptive_fee_constants", format!("oracle {ok} does not belong to whirlpool {pk} but its constants were replaced"), json!({"instruction": ix_brief(&obs.ix)}));
            }
        }
        acc.situation(format!("sweep:{}", obs.ix.name));
    }
}

/// Setter storm: every initialize_* / set_* with arbitrary arguments, right and wrong authorities.
fn storm(seed: u64, rounds: usize) -> Acc {
    run_shards(16, seed, move |_sh, s| {
        let mut acc = Acc::default();
        let mut w = World::new(rnd::rng(s));
        let c = w.add_config(300);
        let cfg = w.configs[c].clone();
        let u = w.add_user();
        let mints: Vec<Pubkey> = (0..4).map(|_| w.add_spl_mint(6)).collect();
        let mut mon = C19m;
        let hv16 = |r: &mut R| -> u16 {
            let any: u16 = r.gen();
            *rnd::pick(r, &[0u16, 1, 2, 64, 2499, 2500, 2501, 9999, 10000, 59999, 60000, 60001, 65535, any])
        };
        let hv32 = |r: &mut R| -> u32 {
            let any: u32 = r.gen();
            *rnd::pick(r, &[0u32, 1, 99_999, 100_000, 100_001, 350_000, u32::MAX / 64, u32::MAX, any])
        };
        // maximum accumulator placed around the 32-bit product rule for the group size it is paired with
        let macc = |r: &mut R, gs: u16| -> u32 {
            if gs == 0 || r.gen_range(0..3) != 0 {
                return hv32(r);
            }
            let edge = ((1u64 << 32) / gs as u64) as i64; // smallest accumulator whose product reaches 2^32 (exactly 2^32 when gs is a power of two)
            (edge + *rnd::pick(r, &[-2i64, -1, 0, 0, 1])).clamp(0, u32::MAX as i64) as u32
        };
        for _ in 0..rounds {
            let wrong_auth = rnd::chance(&mut w.r, 1, 6);
            let fa = if wrong_auth { w.users[u].key } else { cfg.fee_authority };
            let sp = *rnd::pick(&mut w.r, &[0u16, 1, 2, 8, 64, 128, 32768, 65535]);
            let idx: u16 = w.r.gen_range(1024..1040);
            let ix = match w.r.gen_range(0..16) {
                0 => b::InitializeFeeTier { config: cfg.key, fee_tier: b::pda_fee_tier(cfg.key, sp).0, funder: ADMIN, fee_authority: fa, system_program: system_program::ID }.ix(sp, hv16(&mut w.r)),
                1 => b::SetDefaultFeeRate { whirlpools_config: cfg.key, fee_tier: b::pda_fee_tier(cfg.key, sp).0, fee_authority: fa }.ix(hv16(&mut w.r)),
                2 => b::SetDefaultProtocolFeeRate { whirlpools_config: cfg.key, fee_authority: fa }.ix(hv16(&mut w.r)),
                3 | 4 if !w.pools.is_empty() => {
                    let p = w.r.gen_range(0..w.pools.len());
                    if w.r.gen() {
                        b::SetFeeRate { whirlpools_config: cfg.key, whirlpool: w.pools[p].key, fee_authority: fa }.ix(hv16(&mut w.r))
                    } else {
                        b::SetProtocolFeeRate { whirlpools_config: cfg.key, whirlpool: w.pools[p].key, fee_authority: fa }.ix(hv16(&mut w.r))
                    }
                }
                5 | 6 => {
                    let gs = *rnd::pick(&mut w.r, &[0u16, 1, 2, 3, 8, 64, 128, 65535]);
                    b::InitializeAdaptiveFeeTier { whirlpools_config: cfg.key, adaptive_fee_tier: b::pda_fee_tier(cfg.key, idx).0, funder: ADMIN, fee_authority: fa, system_program: system_program::ID }.ix(
                        idx, sp, Pubkey::default(), Pubkey::default(), hv16(&mut w.r), hv16(&mut w.r), hv16(&mut w.r), hv16(&mut w.r), hv32(&mut w.r), macc(&mut w.r, gs), gs, hv16(&mut w.r),
                    )
                }
                7 => b::SetDefaultBaseFeeRate { whirlpools_config: cfg.key, adaptive_fee_tier: b::pda_fee_tier(cfg.key, idx).0, fee_authority: fa }.ix(hv16(&mut w.r)),
                8 => {
                    let gs = *rnd::pick(&mut w.r, &[0u16, 1, 2, 3, 8, 64, 128]);
                    b::SetPresetAdaptiveFeeConstants { whirlpools_config: cfg.key, adaptive_fee_tier: b::pda_fee_tier(cfg.key, idx).0, fee_authority: fa }.ix(hv16(&mut w.r), hv16(&mut w.r), hv16(&mut w.r), hv32(&mut w.r), macc(&mut w.r, gs), gs, hv16(&mut w.r))
                }
                9 if w.pools.iter().any(|p| p.adaptive) => {
                    let ps: Vec<usize> = (0..w.pools.len()).filter(|i| w.pools[*i].adaptive).collect();
                    let p = *rnd::pick(&mut w.r, &ps);
                    let gs = *rnd::pick(&mut w.r, &[0u16, 1, 2, 3, 8, 64, 128]);
                    let o = |r: &mut R, v: u16| if r.gen() { Some(v) } else { None };
                    let (a1, a2, a3, a6, a7) = (hv16(&mut w.r), hv16(&mut w.r), hv16(&mut w.r), gs, hv16(&mut w.r));
                    let (a4, a5) = (hv32(&mut w.r), macc(&mut w.r, gs));
                    // one in three names the oracle of another adaptive pool: its constants would be judged against the wrong spacing
                    let others: Vec<usize> = ps.iter().copied().filter(|q| *q != p).collect();
                    let oracle = if !others.is_empty() && w.r.gen_range(0..3) == 0 { w.pools[*rnd::pick(&mut w.r, &others)].oracle } else { w.pools[p].oracle };
                    b::SetAdaptiveFeeConstants { whirlpool: w.pools[p].key, whirlpools_config: cfg.key, oracle, fee_authority: fa }.ix(o(&mut w.r, a1), o(&mut w.r, a2), o(&mut w.r, a3), if w.r.gen() { Some(a4) } else { None }, if w.r.gen() { Some(a5) } else { None }, o(&mut w.r, a6), o(&mut w.r, a7))
                }
                10 | 11 => {
                    // pool creation with arbitrary price / spacing / mint order (incl. the same mint twice)
                    let (m1, m2) = (*rnd::pick(&mut w.r, &mints), *rnd::pick(&mut w.r, &mints));
                    let (ma, mb) = match w.r.gen_range(0..6) {
                        0 => (m1, m1),
                        1 => (m1.max(m2), m1.min(m2)),
                        _ => (m1.min(m2), m1.max(m2)),
                    };
                    let price = match w.r.gen_range(0..6) {
                        0 => MIN_SQRT_PRICE_X64 - 1,
                        1 => MAX_SQRT_PRICE_X64 + 1,
                        2 => 0,
                        3 => MIN_SQRT_PRICE_X64,
                        4 => MAX_SQRT_PRICE_X64,
                        _ => rnd::sqrt_price(&mut w.r),
                    };
                    let (pool, bump) = b::pda_whirlpool(cfg.key, ma, mb, sp);
                    let (va, vb) = (w.new_key(), w.new_key());
                    let ix = b::InitializePool { whirlpools_config: cfg.key, token_mint_a: ma, token_mint_b: mb, funder: ADMIN, whirlpool: pool, token_vault_a: va, token_vault_b: vb, fee_tier: b::pda_fee_tier(cfg.key, sp).0, token_program: TOKEN, system_program: system_program::ID, rent: RENT_ID }.ix(b::WhirlpoolBumps { whirlpool_bump: bump }, sp, price);
                    let o = w.exec(ix);
                    acc.evaluations += 1;
                    if o.ok() {
                        acc.count("storm_pools_created");
                        w.pools.push(PoolInfo { key: pool, config: c, mint_a: ma, mint_b: mb, program_a: TOKEN, program_b: TOKEN, vault_a: va, vault_b: vb, tick_spacing: sp, fee_tier_index: sp, fee_tier: b::pda_fee_tier(cfg.key, sp).0, adaptive: false, oracle: b::pda_oracle(pool).0, reward_authority: cfg.reward_emissions_super_authority, rewards: vec![] });
                    }
                    mon.after(&mut w, &o, &mut acc);
                    continue;
                }
                12 => {
                    // adaptive pool on one of the storm's tiers
                    let (m1, m2) = (*rnd::pick(&mut w.r, &mints), *rnd::pick(&mut w.r, &mints));
                    let (ma, mb) = if w.r.gen_range(0..6) == 0 { (m1, m1) } else { (m1.min(m2), m1.max(m2)) };
                    let pool = b::pda_whirlpool(cfg.key, ma, mb, idx).0;
                    let (va, vb) = (w.new_key(), w.new_key());
                    let price = if w.r.gen() { rnd::sqrt_price(&mut w.r) } else { MAX_SQRT_PRICE_X64 + 1 };
                    let ix = b::InitializePoolWithAdaptiveFee {
                        whirlpools_config: cfg.key, token_mint_a: ma, token_mint_b: mb, token_badge_a: b::pda_token_badge(cfg.key, ma).0, token_badge_b: b::pda_token_badge(cfg.key, mb).0, funder: ADMIN, initialize_pool_authority: ADMIN,
                        whirlpool: pool, oracle: b::pda_oracle(pool).0, token_vault_a: va, token_vault_b: vb, adaptive_fee_tier: b::pda_fee_tier(cfg.key, idx).0, token_program_a: TOKEN, token_program_b: TOKEN, system_program: system_program::ID, rent: RENT_ID,
                    }
                    .ix(price, None);
                    let o = w.exec(ix);
                    acc.evaluations += 1;
                    if o.ok() {
                        acc.count("storm_pools_created");
                        let sp2 = w.bank.data(&pool).and_then(codec::Pool::decode).map(|p| p.tick_spacing).unwrap_or(64);
                        w.pools.push(PoolInfo { key: pool, config: c, mint_a: ma, mint_b: mb, program_a: TOKEN, program_b: TOKEN, vault_a: va, vault_b: vb, tick_spacing: sp2, fee_tier_index: idx, fee_tier: b::pda_fee_tier(cfg.key, idx).0, adaptive: true, oracle: b::pda_oracle(pool).0, reward_authority: cfg.reward_emissions_super_authority, rewards: vec![] });
                    }
                    mon.after(&mut w, &o, &mut acc);
                    continue;
                }
                13 | 14 if !w.pools.is_empty() => {
                    // push the price towards a bound through an empty pool (no liquidity: the price jumps)
                    let p = w.r.gen_range(0..w.pools.len());
                    if w.pool_state(p).tick_spacing >= 32768 && w.r.gen() {
                        continue;
                    }
                    let dir: bool = w.r.gen();
                    let ix = w.swap_ix(p, u, u64::MAX / 8, 0, 0, true, dir, w.pools[p].adaptive);
                    ix
                }
                _ => b::InitializeConfig { config: w.new_key(), funder: ADMIN, system_program: system_program::ID }.ix(cfg.fee_authority, cfg.fee_authority, cfg.fee_authority, hv16(&mut w.r)),
            };
            let o = w.exec(ix);
            acc.evaluations += 1;
            acc.count(if o.ok() { "storm_ok" } else { "storm_rejected" });
            mon.after(&mut w, &o, &mut acc);
        }
        acc
    })
}

// ------------------------------------------------------------------ mint admission lattice
const NATIVE_2022: Pubkey = solana_program::pubkey!("9pan9bMn5HatX4EJdBwg9VgCa7Uz5HL8N1m5D3NdXejP");

/// (type number, name, data length)
const EXTS: &[(u16, &str, usize)] = &[
    (1, "TransferFeeConfig", 108), (3, "MintCloseAuthority", 32), (4, "ConfidentialTransferMint", 65), (6, "DefaultAccountState", 1), (9, "NonTransferable", 0),
    (10, "InterestBearingConfig", 52), (12, "PermanentDelegate", 32), (14, "TransferHook", 64), (16, "ConfidentialTransferFeeConfig", 129), (18, "MetadataPointer", 64),
    (19, "TokenMetadata", 92), (20, "GroupPointer", 64), (21, "TokenGroup", 80), (22, "GroupMemberPointer", 64), (23, "TokenGroupMember", 72), (24, "ConfidentialMintBurn", 196),
    (25, "ScaledUiAmount", 56), (26, "Pausable", 33),
    // account-side and unknown type numbers
    (2, "TransferFeeAmount(account ext)", 8), (7, "ImmutableOwner(account ext)", 0), (27, "PausableAccount(account ext)", 0), (28, "unknown28", 4), (100, "unknown100", 8), (65535, "unknown65535", 0),
];

#[derive(Clone, Copy, PartialEq, Eq, Debug)]
enum Verdict {
    Never,
    NeedsBadge,
    Supported,
}
/// The allow-list, as stated in the property.
fn classify(ext: u16) -> Verdict {
    match ext {
        1 | 10 | 19 | 18 | 25 | 4 | 16 => Verdict::Supported,
        12 | 14 | 3 | 6 | 26 => Verdict::NeedsBadge,
        _ => Verdict::Never,
    }
}

fn write_mint(exts: &[(u16, usize)], freeze: bool, default_state_frozen: bool, truncate: Option<usize>) -> Vec<u8> {
    let mut d = vec![0u8; 82];
    d[0..4].copy_from_slice(&1u32.to_le_bytes()); // mint authority: Some
    d[4..36].copy_from_slice(ADMIN.as_ref());
    d[44] = 6; // decimals
    d[45] = 1; // initialized
    if freeze {
        d[46..50].copy_from_slice(&1u32.to_le_bytes());
        d[50..82].copy_from_slice(ADMIN.as_ref());
    }
    if exts.is_empty() && truncate.is_none() {
        return d;
    }
    d.resize(165, 0);
    d.push(1); // AccountType::Mint
    for (t, len) in exts {
        d.extend_from_slice(&t.to_le_bytes());
        d.extend_from_slice(&(*len as u16).to_le_bytes());
        let mut body = vec![0u8; *len];
        if *t == 6 && *len >= 1 {
            body[0] = if default_state_frozen { 2 } else { 1 };
        }
        if *t == 1 && *len == 108 {
            // a sane transfer fee config (0 bps)
        }
        d.extend_from_slice(&body);
    }
    if let Some(cut) = truncate {
        let n = d.len().saturating_sub(cut).max(167);
        d.truncate(n);
    }
    d
}

#[derive(Clone, Copy, Debug, PartialEq, Eq)]
enum Badge {
    Absent,
    Present,
    OtherConfig,
    OtherMint,
    NotProgramOwned,
}

fn lattice(seed: u64, max_subset: usize) -> Acc {
    // enumerate subsets of EXTS up to size max_subset (all singletons always)
    let n = EXTS.len();
    let mut subsets: Vec<Vec<usize>> = vec![vec![]];
    for i in 0..n {
        subsets.push(vec![i]);
    }
    if max_subset >= 2 {
        for i in 0..n {
            for j in i + 1..n {
                subsets.push(vec![i, j]);
            }
        }
    }
    if max_subset >= 3 {
        for i in 0..n {
            for j in i + 1..n {
                for k in j + 1..n {
                    subsets.push(vec![i, j, k]);
                }
            }
        }
    }
    let subsets = std::sync::Arc::new(subsets);
    run_shards(16, seed, move |sh, s| {
        let mut acc = Acc::default();
        let mut w = World::new(rnd::rng(s));
        let c = w.add_config(300);
        let c2 = w.add_config(300);
        w.add_config_extension(c);
        w.add_config_extension(c2);
        let cfg = w.configs[c].clone();
        let cfg2 = w.configs[c2].clone();
        let o = w.exec(b::SetConfigFeatureFlag { whirlpools_config: cfg.key, authority: ADMIN }.ix(b::ConfigFeatureFlag::TokenBadge(true)));
        assert!(o.ok());
        w.add_fee_tier(c, 64, 3000);
        let aft = b::pda_fee_tier(cfg.key, 1024).0;
        let o = w.exec(b::InitializeAdaptiveFeeTier { whirlpools_config: cfg.key, adaptive_fee_tier: aft, funder: ADMIN, fee_authority: cfg.fee_authority, system_program: system_program::ID }.ix(1024, 64, Pubkey::default(), Pubkey::default(), 1000, 30, 600, 5000, 4000, 350_000, 64, 64));
        assert!(o.ok());
        // partner mints at both ends of the key space
        let (lo_key, hi_key) = (Pubkey::new_from_array([1u8; 32]), Pubkey::new_from_array([0xFEu8; 32]));
        for k in [lo_key, hi_key] {
            let m = w.add_spl_mint(6);
            let a = w.bank.get(&m).unwrap().clone();
            w.bank.accts.remove(&m);
            w.bank.set(k, a);
        }
        // a pool to attach rewards to
        let rp = w.add_pool(c, lo_key, hi_key, 64, 3000, 1u128 << 64, false).ok().expect("reward pool");
        let base = w.bank.clone();
        // ---- who may issue a token badge (badges are what admits a gated mint): only the badge authority recorded in the
        //      extension of the SAME config; the other config's extension / authority, in any combination, must be refused ----
        {
            let probe_mint = w.add_t22_mint(6, None);
            let bank0 = w.bank.clone();
            let (ext1, ext2) = (b::pda_config_extension(cfg.key).0, b::pda_config_extension(cfg2.key).0);
            let mk = |ext: Pubkey, auth: Pubkey| b::InitializeTokenBadge { whirlpools_config: cfg.key, whirlpools_config_extension: ext, token_badge_authority: auth, token_mint: probe_mint, token_badge: b::pda_token_badge(cfg.key, probe_mint).0, funder: ADMIN, system_program: system_program::ID }.ix();
            for (label, ix, must_fail) in [
                ("own_extension_own_authority", mk(ext1, cfg.token_badge_authority), false),
                ("other_extension_other_authority", mk(ext2, cfg2.token_badge_authority), true),
                ("own_extension_other_authority", mk(ext1, cfg2.token_badge_authority), true),
                ("other_extension_own_authority", mk(ext2, cfg.token_badge_authority), true),
            ] {
                let (o, _) = w.simulate(&bank0, &ix);
                acc.evaluations += 1;
                acc.count("badge_issuance_probes");
                if must_fail && o.ok() {
                    acc.violation(format!("c19:token_badge_issued_without_the_configs_authority:{label}"), format!("initialize_token_badge created a badge for config {} with {label}", cfg.key), json!({"case": label}));
                } else if !must_fail && o.ok() {
                    acc.count("badge_issuance_control_accepted");
                }
            }
            w.bank = base.clone();
        }
        for (si, subset) in subsets.iter().enumerate() {
            if si % 16 != sh {
                continue;
            }
            for freeze in [false, true] {
                for badge in [Badge::Absent, Badge::Present, Badge::OtherConfig, Badge::OtherMint, Badge::NotProgramOwned] {
                    let frozen_default = subset.iter().any(|i| EXTS[*i].0 == 6) && w.r.gen();
                    let truncate = if !subset.is_empty() && rnd::chance(&mut w.r, 1, 12) { Some(w.r.gen_range(1..6usize)) } else { None };
                    let native = subset.is_empty() && !freeze && badge == Badge::Absent;
                    let exts: Vec<(u16, usize)> = subset.iter().map(|i| (EXTS[*i].0, EXTS[*i].2)).collect();
                    let data = write_mint(&exts, freeze, frozen_default, truncate);
                    let mint = if native && w.r.gen() { NATIVE_2022 } else { w.new_key() };
                    let mut bank = base.clone();
                    bank.set(mint, Acct { lamports: 1_000_000_000, data, owner: TOKEN22, executable: false });
                    let badge_key = b::pda_token_badge(cfg.key, mint).0;
                    let mk_badge = |config: Pubkey, m: Pubkey| {
                        let mut d = codec::account_disc("TokenBadge").to_vec();
                        d.extend_from_slice(config.as_ref());
                        d.extend_from_slice(m.as_ref());
                        d.resize(200, 0);
                        d
                    };
                    match badge {
                        Badge::Absent => {}
                        Badge::Present => bank.set(badge_key, Acct { lamports: 10_000_000, data: mk_badge(cfg.key, mint), owner: whirlpool::ID, executable: false }),
                        Badge::OtherConfig => bank.set(badge_key, Acct { lamports: 10_000_000, data: mk_badge(cfg2.key, mint), owner: whirlpool::ID, executable: false }),
                        Badge::OtherMint => bank.set(badge_key, Acct { lamports: 10_000_000, data: mk_badge(cfg.key, lo_key), owner: whirlpool::ID, executable: false }),
                        Badge::NotProgramOwned => bank.set(badge_key, Acct { lamports: 10_000_000, data: mk_badge(cfg.key, mint), owner: system_program::ID, executable: false }),
                    }
                    // ---- the allow-list of the statement, applied to the extensions the mint really carries ----
                    // (the token program's own TLV reader is the ground truth for "which extensions does this mint have":
                    //  a truncation that only removes a trailing header leaves a well-formed, shorter mint)
                    let badge_ok = badge == Badge::Present;
                    let effective: Option<Vec<u16>> = {
                        use spl_token_2022::extension::{BaseStateWithExtensions, StateWithExtensions};
                        let d = bank.data(&mint).unwrap();
                        StateWithExtensions::<spl_token_2022::state::Mint>::unpack(d).ok().and_then(|st| st.get_extension_types().ok()).map(|v| v.into_iter().map(u16::from).collect())
                    };
                    let mut must_reject = mint == NATIVE_2022 || effective.is_none();
                    for t in effective.clone().unwrap_or_default() {
                        match classify(t) {
                            Verdict::Never => must_reject = true,
                            Verdict::NeedsBadge if !badge_ok => must_reject = true,
                            _ => {}
                        }
                    }
                    if freeze && !badge_ok {
                        must_reject = true;
                    }
                    if effective.is_none() {
                        acc.count("admission_malformed_tlv");
                    }
                    // ---- the three creation paths, the mint in either position ----
                    let mut runs: Vec<(&'static str, crate::ix::Ix)> = vec![];
                    for partner in [hi_key, lo_key] {
                        let (ma, mb) = if mint < partner { (mint, partner) } else { (partner, mint) };
                        let pos = if ma == mint { "as_mint_a" } else { "as_mint_b" };
                        let prog = |m: &Pubkey| if *m == mint { TOKEN22 } else { TOKEN };
                        let (va, vb) = (w.new_key(), w.new_key());
                        let pool = b::pda_whirlpool(cfg.key, ma, mb, 64).0;
                        runs.push((
                            if pos == "as_mint_a" { "initialize_pool_v2:as_mint_a" } else { "initialize_pool_v2:as_mint_b" },
                            b::InitializePoolV2 { whirlpools_config: cfg.key, token_mint_a: ma, token_mint_b: mb, token_badge_a: b::pda_token_badge(cfg.key, ma).0, token_badge_b: b::pda_token_badge(cfg.key, mb).0, funder: ADMIN, whirlpool: pool, token_vault_a: va, token_vault_b: vb, fee_tier: b::pda_fee_tier(cfg.key, 64).0, token_program_a: prog(&ma), token_program_b: prog(&mb), system_program: system_program::ID, rent: RENT_ID }.ix(64, 1u128 << 64),
                        ));
                        let pool2 = b::pda_whirlpool(cfg.key, ma, mb, 1024).0;
                        let (va2, vb2) = (w.new_key(), w.new_key());
                        runs.push((
                            if pos == "as_mint_a" { "initialize_pool_with_adaptive_fee:as_mint_a" } else { "initialize_pool_with_adaptive_fee:as_mint_b" },
                            b::InitializePoolWithAdaptiveFee { whirlpools_config: cfg.key, token_mint_a: ma, token_mint_b: mb, token_badge_a: b::pda_token_badge(cfg.key, ma).0, token_badge_b: b::pda_token_badge(cfg.key, mb).0, funder: ADMIN, initialize_pool_authority: ADMIN, whirlpool: pool2, oracle: b::pda_oracle(pool2).0, token_vault_a: va2, token_vault_b: vb2, adaptive_fee_tier: aft, token_program_a: prog(&ma), token_program_b: prog(&mb), system_program: system_program::ID, rent: RENT_ID }.ix(1u128 << 64, None),
                        ));
                    }
                    // ---- the legacy paths know nothing of Token-2022: offered the same mint with either token program
                    //      they must not create a pool or a reward over a mint the allow-list forbids ----
                    for (label, prog) in [("initialize_reward(legacy):token_2022_program", TOKEN22), ("initialize_reward(legacy):token_program", TOKEN)] {
                        let rv = w.new_key();
                        runs.push((label, b::InitializeReward { reward_authority: w.pools[rp].reward_authority, funder: ADMIN, whirlpool: w.pools[rp].key, reward_mint: mint, reward_vault: rv, token_program: prog, system_program: system_program::ID, rent: RENT_ID }.ix(0)));
                    }
                    {
                        let partner = hi_key;
                        let (ma, mb) = if mint < partner { (mint, partner) } else { (partner, mint) };
                        let (pool, bump) = b::pda_whirlpool(cfg.key, ma, mb, 64);
                        for (label, prog) in [("initialize_pool(legacy):token_2022_program", TOKEN22), ("initialize_pool(legacy):token_program", TOKEN)] {
                            let (va, vb) = (w.new_key(), w.new_key());
                            runs.push((label, b::InitializePool { whirlpools_config: cfg.key, token_mint_a: ma, token_mint_b: mb, funder: ADMIN, whirlpool: pool, token_vault_a: va, token_vault_b: vb, fee_tier: b::pda_fee_tier(cfg.key, 64).0, token_program: prog, system_program: system_program::ID, rent: RENT_ID }.ix(b::WhirlpoolBumps { whirlpool_bump: bump }, 64, 1u128 << 64)));
                        }
                    }
                    let rv = w.new_key();
                    runs.push(("initialize_reward_v2", b::InitializeRewardV2 { reward_authority: w.pools[rp].reward_authority, funder: ADMIN, whirlpool: w.pools[rp].key, reward_mint: mint, reward_token_badge: badge_key, reward_vault: rv, reward_token_program: TOKEN22, system_program: system_program::ID, rent: RENT_ID }.ix(0)));
                    // ---- a history: pool created over the mint while its badge exists, badge revoked, then the pool's
                    //      own mint offered as a reward mint: admission is judged at that moment, not remembered ----
                    if badge == Badge::Present && mint != NATIVE_2022 {
                        let needs_badge = freeze || effective.clone().unwrap_or_default().iter().any(|t| matches!(classify(*t), Verdict::NeedsBadge));
                        if let Some((_, pool_ix)) = runs.iter().find(|(p, _)| p.starts_with("initialize_pool_v2")) {
                            let (o1, mut b1) = w.simulate(&bank, pool_ix);
                            if o1.ok() && needs_badge {
                                // control: with the badge still in place the same call is admitted (non-vacuity of the rejection below)
                                {
                                    let rv = w.new_key();
                                    let cix = b::InitializeRewardV2 { reward_authority: cfg.reward_emissions_super_authority, funder: ADMIN, whirlpool: pool_ix.key("whirlpool"), reward_mint: mint, reward_token_badge: badge_key, reward_vault: rv, reward_token_program: TOKEN22, system_program: system_program::ID, rent: RENT_ID }.ix(0);
                                    if w.simulate(&b1, &cix).0.ok() {
                                        acc.count("admission_reward_over_own_mint_control_accepted");
                                    }
                                }
                                b1.accts.remove(&badge_key);
                                let pool_key = pool_ix.key("whirlpool");
                                let rv = w.new_key();
                                let rix = b::InitializeRewardV2 { reward_authority: cfg.reward_emissions_super_authority, funder: ADMIN, whirlpool: pool_key, reward_mint: mint, reward_token_badge: badge_key, reward_vault: rv, reward_token_program: TOKEN22, system_program: system_program::ID, rent: RENT_ID }.ix(0);
                                let (o2, _) = w.simulate(&b1, &rix);
                                acc.count("admission_reward_over_own_mint_after_badge_revoked");
                                if o2.ok() {
                                    acc.violation(
                                        "c19:unsupported_mint_admitted:initialize_reward_v2:pool_mint_after_badge_revoked".to_string(),
                                        format!("initialize_reward_v2 admitted the pool's own mint (extensions {:?}, freeze authority {freeze}) as a reward mint after its token badge was removed", subset.iter().map(|i| EXTS[*i].1).collect::<Vec<_>>()),
                                        json!({"extensions": subset.iter().map(|i| EXTS[*i].0).collect::<Vec<_>>(), "freeze_authority": freeze, "instruction": ix_brief(&rix)}),
                                    );
                                }
                            }
                        }
                    }
                    for (path, ix) in runs {
                        let (o, _) = w.simulate(&bank, &ix);
                        acc.evaluations += 1;
                        acc.count("admission_cases");
                        acc.situation(format!("{path}:{}:{freeze}:{:?}:{}", subset.iter().map(|i| EXTS[*i].0.to_string()).collect::<Vec<_>>().join("+"), badge, must_reject));
                        if must_reject {
                            acc.count("admission_must_reject");
                            if o.ok() {
                                acc.violation(
                                    format!("c19:unsupported_mint_admitted:{path}"),
                                    format!("{path} succeeded over a Token-2022 mint with extensions {:?}, freeze authority {freeze}, badge {:?}{}{}", subset.iter().map(|i| EXTS[*i].1).collect::<Vec<_>>(), badge, if mint == NATIVE_2022 { ", the native-2022 mint" } else { "" }, if truncate.is_some() { ", truncated TLV" } else { "" }),
                                    json!({"extensions": subset.iter().map(|i| EXTS[*i].0).collect::<Vec<_>>(), "freeze_authority": freeze, "badge": format!("{badge:?}"), "path": path, "instruction": ix_brief(&ix)}),
                                );
                            }
                        } else {
                            acc.count(if o.ok() { "admission_supported_accepted" } else { "admission_supported_but_failed" });
                        }
                    }
                }
            }
        }
        if sh == 0 {
            acc.sample(json!({"extension_universe": EXTS.iter().map(|e| format!("{}:{}", e.0, e.1)).collect::<Vec<_>>(), "badge_states": ["Absent", "Present", "OtherConfig", "OtherMint", "NotProgramOwned"]}));
        }
        acc
    })
}

pub fn run(tier: Tier, seed: u64) -> i32 {
    let mut rep = Report::new("C19", tier, seed);
    rep.exhaustive = true;
    rep.rule = "(1) invariant sweep: after every successful instruction of the history workload and of a setter storm (every initialize_*/set_* of config, fee tier, adaptive tier, pool, oracle with hostile u16/u32/u128 arguments, right and wrong authorities, pools created with reversed / identical mints and out-of-bound prices, swaps that push empty pools to either price bound) every Config, FeeTier, AdaptiveFeeTier, Whirlpool and Oracle account in the bank is decoded and checked against the published bounds (independent re-statement of the adaptive-constant rules). (2) mint admission lattice, enumerated: every subset up to size N (quick 2, thorough 3) of 24 Token-2022 extension type numbers (all mint extensions, account-side and unknown numbers) x freeze authority x token badge {absent, present, of another config, of another mint, not program-owned} (+ native-2022 mint, truncated TLV), mint bytes written by the harness's own TLV writer, run through initialize_pool_v2 and initialize_pool_with_adaptive_fee with the mint in position A and B and initialize_reward_v2; whatever the statement's allow-list forbids must fail; for badge-gated mints additionally the history pool created with the badge -> badge removed -> the pool's own mint offered to initialize_reward_v2 (must fail). distinct = (path, extension set, freeze, badge)".into();
    rep.assumptions = vec!["only rejection is judged (a supported combination that fails for another reason is counted, not flagged)".into(), "badges of other configs / mints are written directly into the badge PDA (state seeding)".into()];
    let per_shard = tier.pick(32, 800);
    let mut acc = run_histories(
        seed,
        per_shard,
        move |_r| HistCfg { ops: 100, spl_only: false, allow_adaptive: true, allow_transfer_fee: true, w_swap: 45, w_liq: 20, w_fees: 3, w_lifecycle: 2, w_clock: 2, w_setters: 28, ..Default::default() },
        || vec![Box::new(C19m) as Box<dyn Monitor>],
    );
    acc.merge(storm(seed ^ 0x19, tier.pick(6_000, 150_000)));
    acc.merge(lattice(seed ^ 0x1919, tier.pick(2, 3)));
    rep.acc = acc;
    rep.floor("pools_swept", 20_000);
    rep.floor("adaptive_tiers_swept", 2_000);
    rep.floor("oracles_swept", 2_000);
    rep.floor("pools_at_price_bound", 500);
    rep.floor("storm_ok", 2_000);
    rep.floor("storm_rejected", 5_000);
    rep.floor("storm_pools_created", 200);
    rep.floor("admission_must_reject", 5_000);
    rep.floor("admission_supported_accepted", 300);
    rep.floor("admission_reward_over_own_mint_control_accepted", 20);
    rep.finish()
}
