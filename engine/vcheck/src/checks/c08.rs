//! C08 Liquidity converts to token amounts exactly: up on deposit, down on withdrawal.
use super::hrun::run_histories;
use crate::codec::{self, MAX_SQRT_PRICE_X64, MAX_TICK_INDEX, MIN_SQRT_PRICE_X64, MIN_TICK_INDEX};
use crate::hist::{ec, ix_brief, HistCfg, Monitor};
use crate::model::*;
use crate::monitors::swapmon::{bal, plain_pool};
use crate::report::*;
use crate::rnd::{self, R};
use crate::world::{Obs, World};
use anchor_lang::AccountDeserialize;
use num_bigint::BigUint;
use num_traits::Zero;
use num_traits::ToPrimitive;
use rand::Rng;
use serde_json::json;
use solana_program::program_error::ProgramError;
use whirlpool::errors::ErrorCode as E;
use whirlpool::manager::liquidity_manager::calculate_liquidity_token_deltas;
use whirlpool::math::{estimate_max_liquidity_from_token_amounts, sqrt_price_from_tick_index, tick_index_from_sqrt_price};
use whirlpool::pinocchio::verif_export::manager_liquidity_manager::pino_calculate_liquidity_token_deltas;
use whirlpool::pinocchio::verif_export::wp_state::MemoryMappedPosition;

fn usable(t: i32, s: i32) -> i32 {
    let t = t.clamp(MIN_TICK_INDEX, MAX_TICK_INDEX);
    let mut r = t.div_euclid(s) * s;
    if r < MIN_TICK_INDEX {
        r += s;
    }
    r
}

/// (tick_current, sqrt_price, class)
fn gen_state(r: &mut R, lower: i32, upper: i32) -> (i32, u128, &'static str) {
    match r.gen_range(0..10) {
        0 => (lower, sqrt_price_from_tick_index(lower), "on_lower"),
        1 => (upper, sqrt_price_from_tick_index(upper), "on_upper"),
        2 => (lower - 1, sqrt_price_from_tick_index(lower), "shifted_lower"),
        3 => (upper - 1, sqrt_price_from_tick_index(upper), "shifted_upper"),
        4 | 5 => {
            // strictly inside
            let (a, b) = (sqrt_price_from_tick_index(lower), sqrt_price_from_tick_index(upper));
            let p = a + r.gen_range(0..(b - a));
            (tick_index_from_sqrt_price(&p), p, "inside")
        }
        6 => {
            // inside the tick just below lower / at upper
            let t = if r.gen() { (lower - 1).max(MIN_TICK_INDEX) } else { upper.min(MAX_TICK_INDEX - 1) };
            let (a, b) = (sqrt_price_from_tick_index(t), sqrt_price_from_tick_index(t + 1));
            let p = a + r.gen_range(0..(b - a));
            (t, p, "adjacent_tick")
        }
        _ => {
            let p = rnd::sqrt_price(r);
            (tick_index_from_sqrt_price(&p), p, "anywhere")
        }
    }
}

fn gen_range(r: &mut R) -> (i32, i32, i32) {
    let s = *rnd::pick(r, &[1i32, 2, 8, 64, 128, 256, 32896]);
    if s == 32896 {
        return (MIN_TICK_INDEX / s * s, MAX_TICK_INDEX / s * s, s);
    }
    let lower = usable(rnd::tick(r), s).min(usable(MAX_TICK_INDEX, s) - s);
    let width = match r.gen_range(0..5) {
        0 => 1,
        1 => r.gen_range(1..10),
        2 => r.gen_range(10..1000),
        _ => r.gen_range(1..100_000),
    };
    let upper = usable((lower as i64 + width as i64 * s as i64).min(MAX_TICK_INDEX as i64) as i32, s).max(lower + s);
    (lower, upper, s)
}

fn aerr(e: anchor_lang::error::Error) -> u64 {
    let pe: ProgramError = e.into();
    u64::from(pe)
}

fn function_level(seed: u64, n: u64) -> Acc {
    run_shards(16, seed, move |_sh, s| {
        let mut r = rnd::rng(s);
        let mut acc = Acc::default();
        for k in 0..n / 16 {
            let (lower, upper, sp) = gen_range(&mut r);
            let (tc, price, class) = gen_state(&mut r, lower, upper);
            if !(MIN_SQRT_PRICE_X64..=MAX_SQRT_PRICE_X64).contains(&price) || !(MIN_TICK_INDEX - 1..=MAX_TICK_INDEX).contains(&tc) {
                continue;
            }
            let (pl, pu) = (sqrt_price_from_tick_index(lower), sqrt_price_from_tick_index(upper));
            let pos = codec::Position { tick_lower_index: lower, tick_upper_index: upper, liquidity: rnd::log_u128(&mut r, 100), ..Default::default() };
            let bytes = pos.encode();
            let apos = whirlpool::state::Position::try_deserialize(&mut &bytes[..]).expect("harness-encoded position must deserialize");
            let ppos: &MemoryMappedPosition = unsafe { &*(bytes.as_ptr() as *const MemoryMappedPosition) };
            // ---- deltas ----
            if k % 3 != 2 {
                let l = match r.gen_range(0..16) {
                    0 | 1 => 1,
                    2 | 3 => i128::MAX as u128,
                    4 => {
                        // the liquidity at which the cost of one of the tokens crosses 2^64 (largest L that still fits
                        // in u64, found by bisection on the exact model), and its neighbours
                        let fits = |l: u128| -> bool {
                            let (a, b) = position_amounts(tc, price, lower, upper, pl, pu, l, true);
                            a.bits() <= 64 && b.bits() <= 64
                        };
                        let (mut lo_l, mut hi_l) = (0u128, i128::MAX as u128);
                        if fits(hi_l) {
                            hi_l
                        } else {
                            while hi_l - lo_l > 1 {
                                let mid = lo_l + (hi_l - lo_l) / 2;
                                if fits(mid) {
                                    lo_l = mid;
                                } else {
                                    hi_l = mid;
                                }
                            }
                            acc.count("liquidity_at_the_u64_cost_boundary");
                            (lo_l + r.gen_range(0..3)).saturating_sub(r.gen_range(0..2)).max(1)
                        }
                    }
                    _ => rnd::log_u128(&mut r, 127).max(1),
                };
                let delta: i128 = if r.gen() { l as i128 } else { -(l as i128) };
                let up = delta > 0;
                let (ea, eb) = position_amounts(tc, price, lower, upper, pl, pu, l, up);
                let ra = calculate_liquidity_token_deltas(tc, price, &apos, delta).map_err(aerr);
                let rp = pino_calculate_liquidity_token_deltas(tc, price, ppos, delta).map_err(u64::from);
                acc.evaluations += 1;
                let fits = ea.bits() <= 64 && eb.bits() <= 64;
                let case = json!({"tick_current": tc, "sqrt_price": price.to_string(), "lower": lower, "upper": upper, "liquidity_delta": delta.to_string(), "expected": [ea.to_string(), eb.to_string()]});
                for (name, res) in [("anchor", &ra), ("pinocchio", &rp)] {
                    match res {
                        Ok((a, b)) => {
                            acc.count("delta_ok");
                            if !fits || BigUint::from(*a) != ea || BigUint::from(*b) != eb {
                                acc.violation(
                                    format!("deltas:{name}:{}:{class}", if up { "deposit" } else { "withdraw" }),
                                    format!("{name}: ({a}, {b}) != exact {} amounts ({ea}, {eb}) for L={l} range [{lower},{upper}) at tick {tc} price {price}", if up { "ceil" } else { "floor" }),
                                    case.clone(),
                                );
                            }
                        }
                        Err(_) => acc.count("delta_err"),
                    }
                }
                // (error kinds are C12's business; here only success/failure and values must agree)
                if ra.is_ok() != rp.is_ok() || (ra.is_ok() && ra != rp) {
                    acc.violation(format!("deltas:implementations_disagree:{class}"), format!("anchor {:?} vs pinocchio {:?}", ra, rp), case.clone());
                }
                // round trip: deposit then withdraw the same liquidity at the same price
                if up {
                    if let (Ok((da, db)), Ok((wa, wb))) = (&rp, pino_calculate_liquidity_token_deltas(tc, price, ppos, -delta).map_err(u64::from)) {
                        acc.count("round_trips");
                        if wa > *da || wb > *db || da - wa > 1 || db - wb > 1 {
                            acc.violation(format!("deltas:round_trip:{class}"), format!("paid ({da}, {db}) got back ({wa}, {wb})"), case.clone());
                        }
                    }
                }
                acc.situation(format!("d:{class}:{up}:L{}:sp{sp}:{}", rnd::bitlen(l) / 16, ra.is_ok()));
                if k < 2 {
                    acc.sample(case);
                }
            } else {
                // ---- liquidity from token maxima ----
                let (ma, mb) = (rnd::hostile_u64(&mut r), rnd::hostile_u64(&mut r));
                let res = estimate_max_liquidity_from_token_amounts(price, lower, upper, ma, mb);
                acc.evaluations += 1;
                let case = json!({"tick_current": tc, "sqrt_price": price.to_string(), "lower": lower, "upper": upper, "token_max_a": ma, "token_max_b": mb, "result": format!("{res:?}")});
                match res {
                    Ok(l) => {
                        acc.count("estimate_ok");
                        let (ca, cb) = position_amounts(tc, price, lower, upper, pl, pu, l, true);
                        if ca > BigUint::from(ma) || cb > BigUint::from(mb) {
                            acc.violation(format!("estimate:cost_exceeds_max:{class}"), format!("L={l} costs ({ca}, {cb}) > maxima ({ma}, {mb})"), case.clone());
                        } else if l < u128::MAX {
                            let (na, nb) = position_amounts(tc, price, lower, upper, pl, pu, l + 1, true);
                            if na <= BigUint::from(ma) && nb <= BigUint::from(mb) {
                                acc.violation(format!("estimate:not_maximal:{class}"), format!("L={l} but L+1 costs ({na}, {nb}) which still fits the maxima ({ma}, {mb})"), case.clone());
                            }
                        }
                        acc.situation(format!("e:{class}:L{}:sp{sp}", rnd::bitlen(l) / 16));
                    }
                    Err(_) => acc.count("estimate_err"),
                }
            }
        }
        acc
    })
}

// ------------------------------------------------------------------ instruction level
#[derive(Default)]
pub struct C08m;

fn args_u64_pair(ix: &crate::ix::Ix) -> (u128, u64, u64) {
    let mut r = codec::Rd::new(&ix.data, 8);
    (r.u128(), r.u64(), r.u64())
}
fn with_limits(ix: &crate::ix::Ix, a: u64, b: u64) -> crate::ix::Ix {
    let mut i = ix.clone();
    i.data[24..32].copy_from_slice(&a.to_le_bytes());
    i.data[32..40].copy_from_slice(&b.to_le_bytes());
    i
}

impl C08m {
    /// reposition_liquidity_v2 = withdraw everything from the old range (rounded down, subject to the minima),
    /// deposit the new liquidity into the new range (rounded up, subject to the maxima), settle the difference.
    fn reposition(&mut self, w: &mut World, obs: &Obs, acc: &mut Acc) {
        let n = obs.ix.name;
        let pk = obs.ix.key("whirlpool");
        let Some(pool) = obs.pre.data(&pk).and_then(codec::Pool::decode) else { return };
        if !plain_pool(&obs.pre, &pool) {
            return;
        }
        let posk = obs.ix.key("position");
        let (Some(pp), Some(np)) = (obs.pre.data(&posk).and_then(codec::Position::decode), w.bank.data(&posk).and_then(codec::Position::decode)) else { return };
        let (ua, ub) = (obs.ix.key("token_owner_account_a"), obs.ix.key("token_owner_account_b"));
        if ua == ub || obs.ix.data.len() < 65 || obs.ix.data[16] != 0 {
            return;
        }
        let mut r = codec::Rd::new(&obs.ix.data, 17);
        let (larg, min_a, min_b, max_a, max_b) = (r.u128(), r.u64(), r.u64(), r.u64(), r.u64());
        let price_of = |t: i32| sqrt_price_from_tick_index(t);
        let (wa, wb) = position_amounts(pool.tick_current_index, pool.sqrt_price, pp.tick_lower_index, pp.tick_upper_index, price_of(pp.tick_lower_index), price_of(pp.tick_upper_index), pp.liquidity, false);
        let (da, db) = position_amounts(pool.tick_current_index, pool.sqrt_price, np.tick_lower_index, np.tick_upper_index, price_of(np.tick_lower_index), price_of(np.tick_upper_index), np.liquidity, true);
        let big = |x: &BigUint| x.to_i128().unwrap_or(i128::MAX);
        let du = (bal(&w.bank, &ua) as i128 - bal(&obs.pre, &ua) as i128, bal(&w.bank, &ub) as i128 - bal(&obs.pre, &ub) as i128);
        let dv = (bal(&w.bank, &pool.token_vault_a) as i128 - bal(&obs.pre, &pool.token_vault_a) as i128, bal(&w.bank, &pool.token_vault_b) as i128 - bal(&obs.pre, &pool.token_vault_b) as i128);
        let want = (big(&wa) - big(&da), big(&wb) - big(&db));
        acc.count("reposition_checked");
        let fail = |acc: &mut Acc, sig: &str, detail: String| {
            acc.violation(format!("c08:{sig}:{n}"), detail, json!({"instruction": ix_brief(&obs.ix)}));
        };
        if np.liquidity != larg {
            fail(acc, "liquidity_arg", format!("requested {larg} applied {}", np.liquidity));
        }
        if du != want || dv != (-want.0, -want.1) {
            fail(acc, "reposition_amounts", format!("old range [{}, {}) L {} returns exactly ({wa}, {wb}), new range [{}, {}) L {} costs exactly ({da}, {db}): the owner should net {:?} but moved {:?}, vaults moved {:?}; tick {} price {}", pp.tick_lower_index, pp.tick_upper_index, pp.liquidity, np.tick_lower_index, np.tick_upper_index, np.liquidity, want, du, dv, pool.tick_current_index, pool.sqrt_price));
        }
        if big(&da) > max_a as i128 || big(&db) > max_b as i128 {
            fail(acc, "token_max_ignored", format!("new range costs ({da}, {db}) above the maxima ({max_a}, {max_b}); the old range returned ({wa}, {wb})"));
        }
        if big(&wa) < min_a as i128 || big(&wb) < min_b as i128 {
            fail(acc, "token_min_ignored", format!("old range returned ({wa}, {wb}) below the minima ({min_a}, {min_b})"));
        }
        let flow = |x: i128| if x > 0 { "to_owner" } else if x < 0 { "from_owner" } else { "none" };
        if (want.0 == 0 && !da.is_zero()) || (want.1 == 0 && !db.is_zero()) {
            acc.count("repositions_with_a_zero_net_of_nonzero_legs");
        }
        acc.situation(format!("{n}:a_{}:b_{}:oldL{}:newL{}", flow(want.0), flow(want.1), (pp.liquidity > 0) as u8, (np.liquidity > 0) as u8));
        // limit probes on clones of the pre-state: minima = what the old range returns, maxima = what the new one costs
        if wa.bits() <= 64 && wb.bits() <= 64 && da.bits() <= 64 && db.bits() <= 64 && w.r.gen_range(0..2) == 0 {
            let (wa, wb, da, db) = (wa.to_u64().unwrap(), wb.to_u64().unwrap(), da.to_u64().unwrap(), db.to_u64().unwrap());
            let with = |mins: (u64, u64), maxs: (u64, u64)| {
                let mut i = obs.ix.clone();
                i.data[33..41].copy_from_slice(&mins.0.to_le_bytes());
                i.data[41..49].copy_from_slice(&mins.1.to_le_bytes());
                i.data[49..57].copy_from_slice(&maxs.0.to_le_bytes());
                i.data[57..65].copy_from_slice(&maxs.1.to_le_bytes());
                i
            };
            let canon = w.bank.clone();
            acc.count("reposition_probe_sets");
            let probes: Vec<(&str, Option<(u64, u64)>, Option<(u64, u64)>, bool)> = vec![
                ("exact", Some((wa, wb)), Some((da, db)), true),
                ("max_a_minus_1", Some((wa, wb)), da.checked_sub(1).map(|x| (x, db)), false),
                ("max_b_minus_1", Some((wa, wb)), db.checked_sub(1).map(|x| (da, x)), false),
                ("min_a_plus_1", wa.checked_add(1).map(|x| (x, wb)), Some((da, db)), false),
                ("min_b_plus_1", wb.checked_add(1).map(|x| (wa, x)), Some((da, db)), false),
            ];
            for (what, mins, maxs, must_ok) in probes {
                let (Some(mins), Some(maxs)) = (mins, maxs) else { continue };
                let (o, b2) = w.simulate(&obs.pre, &with(mins, maxs));
                acc.count("reposition_limit_probes");
                if must_ok {
                    if !o.ok() {
                        fail(acc, "limit_rejected_wrongly", format!("probe {what}: minima {mins:?} = what the old range returns, maxima {maxs:?} = what the new range costs: failed with {:?}", o.err));
                    } else if !crate::world::diff_on(&obs.ix, &b2, &canon).is_empty() {
                        fail(acc, "limit_changed_outcome", format!("probe {what}: limits changed the end state"));
                    }
                } else if o.ok() {
                    fail(acc, "limit_not_enforced", format!("probe {what}: old range returns ({wa}, {wb}), new range costs ({da}, {db}), minima {mins:?} maxima {maxs:?}: succeeded (net flow A {}, B {})", flow(want.0), flow(want.1)));
                }
            }
        }
    }
}

impl Monitor for C08m {
    fn after(&mut self, w: &mut World, obs: &Obs, acc: &mut Acc) {
        let n = obs.ix.name;
        // removing liquidity returns the amounts: a withdrawal that passed every check of the program must not die in the
        // token transfer because the pool cannot sign for its own vault (PDA seeds that do not derive the pool's address)
        if !obs.ok() && (n.starts_with("decrease_liquidity") || n == "reposition_liquidity_v2" || n.starts_with("collect_fees")) {
            use crate::svm::TxErr;
            let bad = matches!(&obs.out.err, Some(TxErr::Cpi(c)) | Some(TxErr::Code(c)) if *c == 14u64 << 32 || *c == 8u64 << 32)
                || matches!(&obs.out.err, Some(TxErr::Runtime(m)) if m.contains("signer privilege") || m.contains("seeds"));
            acc.count("failed_withdrawals_seen");
            if bad {
                acc.violation(format!("c08:pool_cannot_sign_for_its_vault:{n}"), format!("{n} failed in the vault transfer with {:?}: the pool's signer seeds do not authorise its vault", obs.out.err), json!({"instruction": ix_brief(&obs.ix)}));
            }
        }
        let inc = n == "increase_liquidity" || n == "increase_liquidity_v2";
        let dec = n == "decrease_liquidity" || n == "decrease_liquidity_v2";
        let by_amounts = n == "increase_liquidity_by_token_amounts_v2";
        if n == "reposition_liquidity_v2" && obs.ok() {
            self.reposition(w, obs, acc);
            return;
        }
        // a deposit by token amounts that is refused for "zero liquidity": then not even one unit of liquidity fits the maxima
        if by_amounts && !obs.ok() && obs.out.custom() == Some(ec(E::LiquidityZero)) && obs.ix.data.len() >= 25 {
            let pk = obs.ix.key("whirlpool");
            if let (Some(pool), Some(pp)) = (obs.pre.data(&pk).and_then(codec::Pool::decode), obs.pre.data(&obs.ix.key("position")).and_then(codec::Position::decode)) {
                if plain_pool(&obs.pre, &pool) && pp.whirlpool == pk {
                    let mut r = codec::Rd::new(&obs.ix.data, 9);
                    let (ma, mb) = (r.u64(), r.u64());
                    let (pl, pu) = (sqrt_price_from_tick_index(pp.tick_lower_index), sqrt_price_from_tick_index(pp.tick_upper_index));
                    let (na, nb) = position_amounts(pool.tick_current_index, pool.sqrt_price, pp.tick_lower_index, pp.tick_upper_index, pl, pu, 1, true);
                    acc.count("by_amounts_zero_liquidity_refusals_checked");
                    if na <= BigUint::from(ma) && nb <= BigUint::from(mb) {
                        acc.violation(format!("c08:by_amounts_refused_although_liquidity_fits:{n}"), format!("refused with LiquidityZero, but L=1 costs ({na}, {nb}), which fits the maxima ({ma}, {mb}); tick {} price {} range [{}, {})", pool.tick_current_index, pool.sqrt_price, pp.tick_lower_index, pp.tick_upper_index), json!({"instruction": ix_brief(&obs.ix)}));
                    }
                }
            }
        }
        if !(inc || dec || by_amounts) || !obs.ok() {
            return;
        }
        let pk = obs.ix.key("whirlpool");
        let Some(pool) = obs.pre.data(&pk).and_then(codec::Pool::decode) else { return };
        let fee_pool = !plain_pool(&obs.pre, &pool);
        let posk = obs.ix.key("position");
        let (Some(pp), Some(np)) = (obs.pre.data(&posk).and_then(codec::Position::decode), w.bank.data(&posk).and_then(codec::Position::decode)) else { return };
        let (ua, ub) = (obs.ix.key("token_owner_account_a"), obs.ix.key("token_owner_account_b"));
        let (va, vb) = (pool.token_vault_a, pool.token_vault_b);
        let l = if dec { pp.liquidity - np.liquidity } else { np.liquidity - pp.liquidity };
        let (pl, pu) = (sqrt_price_from_tick_index(pp.tick_lower_index), sqrt_price_from_tick_index(pp.tick_upper_index));
        let (ea, eb) = position_amounts(pool.tick_current_index, pool.sqrt_price, pp.tick_lower_index, pp.tick_upper_index, pl, pu, l, !dec);
        let sgn: i128 = if dec { 1 } else { -1 };
        let du = ((bal(&w.bank, &ua) as i128 - bal(&obs.pre, &ua) as i128) * sgn, (bal(&w.bank, &ub) as i128 - bal(&obs.pre, &ub) as i128) * sgn);
        let dv = ((bal(&obs.pre, &va) as i128 - bal(&w.bank, &va) as i128) * sgn, (bal(&obs.pre, &vb) as i128 - bal(&w.bank, &vb) as i128) * sgn);
        acc.count("liquidity_ix_checked");
        let fail = |acc: &mut Acc, sig: &str, detail: String| {
            acc.violation(format!("c08:{sig}:{n}"), detail, json!({"instruction": ix_brief(&obs.ix)}));
        };
        let (ea_i, eb_i) = (ea.to_i128().unwrap_or(i128::MAX), eb.to_i128().unwrap_or(i128::MAX));
        if fee_pool {
            // transfer-fee mints: the VAULT still moves by exactly the amounts of the statement (the program asks the owner
            // for the amount whose fee-reduced value is the cost, and pays out the release before the token program's fee);
            // the owner pays at least / receives at most that; a token that is not involved does not move at all
            acc.count("liquidity_ix_checked_on_fee_pools");
            if ua != ub {
                if dv != (ea_i, eb_i) {
                    fail(acc, "amounts_on_transfer_fee_pool", format!("liquidity {l} ({}): vault moved {:?}, exact amounts ({ea}, {eb}); tick {} range [{}, {})", if dec { "withdraw" } else { "deposit" }, dv, pool.tick_current_index, pp.tick_lower_index, pp.tick_upper_index));
                }
                for (k, (u, v, e)) in [(du.0, dv.0, ea_i), (du.1, dv.1, eb_i)].into_iter().enumerate() {
                    let tok = if k == 0 { "A" } else { "B" };
                    if (dec && u > v) || (!dec && u < v) {
                        fail(acc, "owner_side_on_transfer_fee_pool", format!("token {tok}: owner moved {u}, vault moved {v} ({})", if dec { "withdraw" } else { "deposit" }));
                    }
                    if e == 0 && (u != 0 || v != 0) {
                        fail(acc, "uninvolved_token_moved", format!("token {tok} is not involved (exact amount 0; tick {} range [{}, {})) but the owner moved {u} and the vault {v}", pool.tick_current_index, pp.tick_lower_index, pp.tick_upper_index));
                    }
                }
            }
            // the caller's maxima / minima apply to what the OWNER pays / receives (transfer fee included): exactly that is
            // accepted, one unit tighter on either token is refused
            if (inc || dec) && ua != ub && w.r.gen_range(0..3) == 0 && du.0 >= 0 && du.1 >= 0 {
                let (pa, pb) = (du.0 as u64, du.1 as u64);
                let mut i2 = obs.ix.clone();
                i2.data[24..32].copy_from_slice(&pa.to_le_bytes());
                i2.data[32..40].copy_from_slice(&pb.to_le_bytes());
                let (o, _) = w.simulate(&obs.pre, &i2);
                acc.count("limit_probe_sets_on_fee_pools");
                if !o.ok() {
                    fail(acc, "limit_rejected_wrongly_on_transfer_fee_pool", format!("limits equal to what the owner {} ({pa}, {pb}) were rejected: {:?}", if inc { "pays" } else { "receives" }, o.err));
                }
                for (off, x, tok) in [(24usize, pa, "A"), (32usize, pb, "B")] {
                    let Some(x1) = (if inc { x.checked_sub(1) } else { x.checked_add(1) }) else { continue };
                    let mut i3 = i2.clone();
                    i3.data[off..off + 8].copy_from_slice(&x1.to_le_bytes());
                    let (o, _) = w.simulate(&obs.pre, &i3);
                    if o.ok() {
                        fail(acc, "limit_not_enforced_on_transfer_fee_pool", format!("token {tok}: the owner {} {x} (transfer fee included) but a limit of {x1} was accepted", if inc { "pays" } else { "receives" }));
                    }
                }
            }
            // liquidity derived from token maxima: the maxima are what the owner is prepared to PAY, so what may reach the
            // vault is each maximum less the token program's fee on it; the result is the largest liquidity whose cost fits both
            if by_amounts && ua != ub {
                let mut r = codec::Rd::new(&obs.ix.data, 9);
                let (ma, mb) = (r.u64(), r.u64());
                let net = |mint: &solana_program::pubkey::Pubkey, m: u64| BigUint::from(m - crate::checks::c16::mint_fee(&obs.pre, mint, m).min(m));
                let (xa, xb) = (net(&pool.token_mint_a, ma), net(&pool.token_mint_b, mb));
                acc.count("by_amounts_checked_on_fee_pools");
                if ea > xa || eb > xb {
                    fail(acc, "by_amounts_cost_exceeds_max_on_transfer_fee_pool", format!("L={l} costs ({ea}, {eb}); maxima ({ma}, {mb}) leave ({xa}, {xb}) after the token program's fee"));
                } else if l < u128::MAX {
                    let (na, nb) = position_amounts(pool.tick_current_index, pool.sqrt_price, pp.tick_lower_index, pp.tick_upper_index, pl, pu, l + 1, true);
                    if na <= xa && nb <= xb {
                        fail(acc, "by_amounts_not_maximal_on_transfer_fee_pool", format!("L={l} but L+1 costs ({na}, {nb}), which still fits what the maxima ({ma}, {mb}) leave after the token program's fee ({xa}, {xb})"));
                    }
                }
            }
            acc.situation(format!("{n}:fee_pool:{}", if dec { "withdraw" } else { "deposit" }));
            return;
        }
        if ua != ub && (du != (ea_i, eb_i) || dv != (ea_i, eb_i)) {
            fail(acc, "amounts", format!("liquidity {l} ({}): user moved {:?}, vault moved {:?}, exact amounts ({ea}, {eb}); tick {} price {} range [{}, {})", if dec { "withdraw" } else { "deposit" }, du, dv, pool.tick_current_index, pool.sqrt_price, pp.tick_lower_index, pp.tick_upper_index));
        }
        if inc || dec {
            let (larg, x, y) = args_u64_pair(&obs.ix);
            if larg != l {
                fail(acc, "liquidity_arg", format!("requested {larg} applied {l}"));
            }
            if inc && (ea_i > x as i128 || eb_i > y as i128) {
                fail(acc, "token_max_ignored", format!("cost ({ea}, {eb}) above maxima ({x}, {y})"));
            }
            if dec && (ea_i < x as i128 || eb_i < y as i128) {
                fail(acc, "token_min_ignored", format!("returned ({ea}, {eb}) below minima ({x}, {y})"));
            }
            // limit probes on clones of the pre-state
            if w.r.gen_range(0..4) == 0 && ea.bits() <= 64 && eb.bits() <= 64 {
                let (a, b) = (ea.to_u64().unwrap(), eb.to_u64().unwrap());
                let canon = w.bank.clone();
                let probes: Vec<(Option<u64>, Option<u64>, bool)> = if inc {
                    vec![(Some(a), Some(b), true), (a.checked_sub(1), Some(b), false), (Some(a), b.checked_sub(1), false), (a.checked_add(1), b.checked_add(1), true)]
                } else {
                    vec![(Some(a), Some(b), true), (a.checked_add(1), Some(b), false), (Some(a), b.checked_add(1), false), (a.checked_sub(1), b.checked_sub(1), true)]
                };
                acc.count("limit_probe_sets");
                for (x, y, must_ok) in probes {
                    let (Some(x), Some(y)) = (x, y) else { continue };
                    let (o, b2) = w.simulate(&obs.pre, &with_limits(&obs.ix, x, y));
                    acc.count("limit_probes");
                    if must_ok {
                        if !o.ok() {
                            fail(acc, "limit_rejected_wrongly", format!("exact amounts ({a}, {b}), limits ({x}, {y}): failed with {:?}", o.err));
                        } else if !crate::world::diff_on(&obs.ix, &b2, &canon).is_empty() {
                            fail(acc, "limit_changed_outcome", format!("limits ({x}, {y}) changed the end state"));
                        }
                    } else if o.ok() {
                        fail(acc, "limit_not_enforced", format!("exact amounts ({a}, {b}), limits ({x}, {y}): succeeded"));
                    } else if o.custom() != Some(ec(if inc { E::TokenMaxExceeded } else { E::TokenMinSubceeded })) {
                        acc.count("limit_failure_other_error");
                    }
                }
            }
        }
        if by_amounts {
            let mut r = codec::Rd::new(&obs.ix.data, 9);
            let (ma, mb) = (r.u64(), r.u64());
            acc.count("by_amounts_checked");
            if ea > BigUint::from(ma) || eb > BigUint::from(mb) {
                fail(acc, "by_amounts_cost_exceeds_max", format!("L={l} costs ({ea}, {eb}) > maxima ({ma}, {mb})"));
            } else if l < u128::MAX {
                let (na, nb) = position_amounts(pool.tick_current_index, pool.sqrt_price, pp.tick_lower_index, pp.tick_upper_index, pl, pu, l + 1, true);
                if na <= BigUint::from(ma) && nb <= BigUint::from(mb) {
                    fail(acc, "by_amounts_not_maximal", format!("L={l} but L+1 costs ({na}, {nb}) which still fits ({ma}, {mb})"));
                }
            }
        }
        let region = if pool.tick_current_index < pp.tick_lower_index { "below" } else if pool.tick_current_index < pp.tick_upper_index { "inside" } else { "above" };
        acc.situation(format!("{n}:{region}:L{}", rnd::bitlen(l) / 16));
        acc.count(&format!("liquidity_bits_{:03}_{:03}", rnd::bitlen(l) / 16 * 16, rnd::bitlen(l) / 16 * 16 + 15));
    }
}

pub fn run(tier: Tier, seed: u64) -> i32 {
    let mut rep = Report::new("C08", tier, seed);
    rep.rule = "function level: Anchor calculate_liquidity_token_deltas and Pinocchio pino_calculate_liquidity_token_deltas (position bytes written by the harness's own encoder) on generated (tick_current, sqrt_price, range, +-L) incl. price exactly on a bound, the shifted-tick state and the liquidity at which a token's cost crosses 2^64 (bisected on the exact model, +-1), all spacings: Ok results must equal exact ceil (deposit) / floor (withdraw) amounts, A only below, B only above, both implementations equal, deposit-then-withdraw loses 0..1 per token; estimate_max_liquidity_from_token_amounts: cost(L) fits both maxima and cost(L+1) does not. instruction level (history workload, plain pools): balance deltas of every increase/decrease/by-amounts equal the exact amounts, by-amounts liquidity is maximal, token_max/token_min probes (x-1,x,x+1) on clones; reposition_liquidity_v2 nets exactly floor(old range) - ceil(new range) per token whichever way the difference flows, and its minima (old range) / maxima (new range) are probed at the exact values and one unit inside. distinct = (kind, price class, sign, liquidity magnitude, spacing)".into();
    rep.assumptions = vec!["tick prices are the program's own sqrt_price_from_tick_index (decided by C09)".into(), "errors are unconstrained except that both implementations must agree".into()];
    let n = tier.pick(12_000_000, 300_000_000);
    let mut acc = function_level(seed, n);
    let per_shard = tier.pick(48, 1200);
    let acc2 = run_histories(
        seed ^ 0x88,
        per_shard,
        move |r| HistCfg { ops: 120, lifecycle_ext: true, allow_adaptive: true, spl_only: r.gen_range(0..3) > 0, allow_transfer_fee: true, w_swap: 30, w_liq: 50, w_fees: 5, w_lifecycle: 10, w_clock: 2, w_setters: 1, ..Default::default() },
        || vec![Box::new(C08m) as Box<dyn Monitor>],
    );
    acc.merge(acc2);
    rep.acc = acc;
    rep.floor("delta_ok", 500_000);
    rep.floor("estimate_ok", 200_000);
    rep.floor("round_trips", 100_000);
    rep.floor("liquidity_ix_checked", 3000);
    rep.floor("by_amounts_checked", 100);
    rep.floor("limit_probes", 1000);
    rep.floor("reposition_checked", 100);
    rep.floor("reposition_limit_probes", 150);
    rep.finish()
}
