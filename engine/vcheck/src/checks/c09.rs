//! C09 Tick index <-> sqrt-price conversion.
use crate::codec::*;
use crate::model::bu;
use crate::report::*;
use crate::rnd;
use num_bigint::BigUint;
use rand::Rng;
use serde_json::json;
use whirlpool::math::{sqrt_price_from_tick_index, tick_index_from_sqrt_price};

/// The supported tick set (state/tick.rs): which tick indexes the program treats as in bounds, usable for a spacing,
/// the full range of a spacing, and valid tick-array start indexes - against their definitions, on every spacing of
/// interest around both ends of the range, around zero and on a random sample. Every usable tick must convert to a
/// price inside the published bounds.
fn supported_ticks(seed: u64, acc: &mut Acc) {
    use whirlpool::state::Tick;
    let mut r = rnd::rng(seed ^ 0x71c4);
    let mut spacings: Vec<u16> = vec![1, 2, 3, 4, 5, 8, 16, 32, 64, 96, 128, 256, 1000, 5041, 32767, 32768, 32896, 50_000, u16::MAX];
    for _ in 0..20 {
        spacings.push(r.gen_range(1..=u16::MAX));
    }
    for s in spacings {
        let si = s as i64;
        let tia = 88 * si;
        let mut ts: Vec<i64> = vec![];
        for base in [MIN_TICK_INDEX as i64, MAX_TICK_INDEX as i64, 0] {
            for k in -3..=3 {
                for d in -2..=2 {
                    ts.push(base + k * si + d);
                    ts.push((base.div_euclid(si) + k) * si + d);
                    ts.push((base.div_euclid(tia) + k) * tia + d);
                    ts.push((base.div_euclid(88) + k) * 88 + d);
                }
            }
        }
        for _ in 0..400 {
            let t = r.gen_range(-450_000i64..450_000);
            ts.push(t);
            ts.push(t.div_euclid(si) * si);
            ts.push(t.div_euclid(tia) * tia);
            ts.push(t.div_euclid(88) * 88 * if r.gen() { 1 } else { si.min(64) });
        }
        let upper_full = (MAX_TICK_INDEX as i64).div_euclid(si) * si;
        let got_full = Tick::full_range_indexes(s);
        acc.evaluations += 1;
        if (got_full.0 as i64, got_full.1 as i64) != (-upper_full, upper_full) {
            acc.violation("tick:full_range_indexes".to_string(), format!("full_range_indexes({s}) = {:?}, the aligned ticks inside the range are ({}, {upper_full})", got_full, -upper_full), json!({"spacing": s}));
        }
        // ... and the far ends of the argument type (a client may pass any i32)
        for t in [i32::MIN as i64, i32::MIN as i64 + 1, i32::MIN as i64 + si, -(1i64 << 30), 1i64 << 30, i32::MAX as i64 - si, i32::MAX as i64 - 1, i32::MAX as i64] {
            ts.push(t);
            ts.push(t.div_euclid(si) * si);
        }
        for t in ts {
            if t < i32::MIN as i64 || t > i32::MAX as i64 {
                continue;
            }
            let ti = t as i32;
            let inb = t >= MIN_TICK_INDEX as i64 && t <= MAX_TICK_INDEX as i64;
            acc.evaluations += 3;
            acc.count("supported_tick_cases");
            if Tick::check_is_out_of_bounds(ti) == inb {
                acc.violation("tick:out_of_bounds".to_string(), format!("check_is_out_of_bounds({ti}) = {}", !inb), json!({"tick": ti}));
            }
            let usable = inb && t.rem_euclid(si) == 0;
            if Tick::check_is_usable_tick(ti, s) != usable {
                acc.violation("tick:usable_tick".to_string(), format!("check_is_usable_tick({ti}, spacing {s}) = {} but the tick is {}in [{MIN_TICK_INDEX}, {MAX_TICK_INDEX}] and {}a multiple of the spacing", !usable, if inb { "" } else { "not " }, if t.rem_euclid(si) == 0 { "" } else { "not " }), json!({"tick": ti, "spacing": s}));
            }
            if usable {
                let p = sqrt_price_from_tick_index(ti);
                if !(MIN_SQRT_PRICE_X64..=MAX_SQRT_PRICE_X64).contains(&p) {
                    acc.violation("tick:usable_tick_outside_price_bounds".to_string(), format!("usable tick {ti} converts to {p}"), json!({"tick": ti}));
                }
            }
            // a tick array starts at a multiple of 88 x spacing; the only start below the range is the array that contains MIN
            let start_ok = t.rem_euclid(tia) == 0 && t <= MAX_TICK_INDEX as i64 && t + tia > MIN_TICK_INDEX as i64;
            let got_start = crate::svm::quiet_catch(|| Tick::check_is_valid_start_tick(ti, s));
            if got_start.as_ref().ok().copied() != Some(start_ok) && !(got_start.is_err() && !start_ok && !inb) {
                acc.violation("tick:valid_start_tick".to_string(), format!("check_is_valid_start_tick({ti}, spacing {s}) = {} (multiple of {tia}: {}; array reaches into the range: {})", !start_ok, t.rem_euclid(tia) == 0, t <= MAX_TICK_INDEX as i64 && t + tia > MIN_TICK_INDEX as i64), json!({"tick": ti, "spacing": s}));
            }
        }
    }
}

pub fn run(tier: Tier, seed: u64) -> i32 {
    let mut rep = Report::new("C09", tier, seed);
    rep.rule = "(plus ~17 000 structured inverse inputs: 2^k, 2^k +- 1..3, runs of ones 2^k - 2^j, 2^k + 2^j and one-bit walks for k = 32..96) forward: ALL 887273 ticks enumerated (strict monotonicity, endpoints, each step within 2^-32 of sqrt(1.0001) by exact integer inequality); inverse: every tick boundary p_t, p_t-1, p_t+1 enumerated plus a random interior sample (log-uniform and uniform-inside-random-tick), expected tick by binary search in the forward table. distinct = (check kind, tick/1024 bucket, position-in-tick class)".into();
    rep.exhaustive = true;
    rep.assumptions = vec![
        "interior of each tick is sampled, not enumerated (2^96 prices)".into(),
        "native x86-64 build of the program's math, not the SBF binary".into(),
    ];
    let n_shards = 16usize;
    // forward table computed once by the function under test
    let table: std::sync::Arc<Vec<u128>> = std::sync::Arc::new(
        (MIN_TICK_INDEX..=MAX_TICK_INDEX).map(sqrt_price_from_tick_index).collect(),
    );
    let interior: u64 = tier.pick(80_000_000, 2_000_000_000);
    let t2 = table.clone();
    let acc = run_shards(n_shards, seed, move |shard, s| {
        let table = &t2;
        let mut acc = Acc::default();
        let mut r = rnd::rng(s);
        let n = table.len();
        let lo = n * shard / n_shards;
        let hi = n * (shard + 1) / n_shards;
        let k_lo: BigUint = (bu((1u128 << 32) - 1).pow(2)) * 10001u32;
        let k_hi: BigUint = (bu((1u128 << 32) + 1).pow(2)) * 10001u32;
        let k_mid: BigUint = (BigUint::from(1u8) << 64) * 10000u32;
        for i in lo..hi {
            let t = MIN_TICK_INDEX + i as i32;
            let p = table[i];
            acc.evaluations += 1;
            // endpoints
            if t == MIN_TICK_INDEX && p != MIN_SQRT_PRICE_X64 {
                acc.violation("forward:min_endpoint", format!("price({t})={p}"), json!({"tick": t, "price": p.to_string()}));
            }
            if t == MAX_TICK_INDEX && p != MAX_SQRT_PRICE_X64 {
                acc.violation("forward:max_endpoint", format!("price({t})={p}"), json!({"tick": t, "price": p.to_string()}));
            }
            if i + 1 < n {
                let q = table[i + 1];
                if q <= p {
                    acc.violation("forward:not_increasing", format!("price({t})={p} price({})={q}", t + 1), json!({"tick": t, "p": p.to_string(), "q": q.to_string()}));
                } else {
                    let p2 = bu(p) * bu(p);
                    let q2 = bu(q) * bu(q) * &k_mid;
                    if !(&k_lo * &p2 < q2 && q2 < &k_hi * &p2) {
                        acc.violation("forward:step_ratio", format!("price({t})={p} price({})={q}: ratio outside 2^-32 of sqrt(1.0001)", t + 1), json!({"tick": t, "p": p.to_string(), "q": q.to_string()}));
                    }
                }
                acc.count("forward_steps");
            }
            // inverse at the boundary
            let chk = |acc: &mut Acc, price: u128, expect: i32, cls: &str| {
                if !(MIN_SQRT_PRICE_X64..=MAX_SQRT_PRICE_X64).contains(&price) {
                    return;
                }
                let got = tick_index_from_sqrt_price(&price);
                acc.evaluations += 1;
                acc.count("inverse_boundary");
                acc.situation(format!("inv:{cls}:{}", expect >> 10));
                if got != expect {
                    acc.violation(
                        format!("inverse:{cls}"),
                        format!("tick_index_from_sqrt_price({price}) = {got}, expected {expect}"),
                        json!({"price": price.to_string(), "got": got, "expected": expect}),
                    );
                }
            };
            chk(&mut acc, p, t, "at_boundary");
            if i > 0 {
                chk(&mut acc, p - 1, t - 1, "below_boundary");
            }
            if i + 1 < n && p + 1 < table[i + 1] {
                chk(&mut acc, p + 1, t, "above_boundary");
            }
            acc.situation(format!("fwd:{}", t >> 10));
        }
        // interior sample
        let per = interior / n_shards as u64;
        let expect_of = |price: u128| -> i32 {
            // greatest i with table[i] <= price
            let idx = table.partition_point(|x| *x <= price) - 1;
            MIN_TICK_INDEX + idx as i32
        };
        // structured prices (shard 0): every bit pattern the normalisation / log2 iteration branches on - 2^k, 2^k +- 1..3,
        // runs of ones 2^k - 2^j, 2^k + 2^j, and a one-bit walk over each power of two - about 25 000 prices
        if shard == 0 {
            let mut pats: Vec<u128> = vec![];
            for k in 32..=96u32 {
                let b = 1u128 << k;
                for d in 0..4u128 {
                    pats.push(b + d);
                    pats.push(b - d.min(b));
                }
                for j in 0..k {
                    pats.push(b - (1u128 << j));
                    pats.push(b + (1u128 << j));
                    pats.push(b - (1u128 << j) - 1);
                    pats.push((b - 1) ^ (1u128 << j));
                }
            }
            for price in pats {
                if !(MIN_SQRT_PRICE_X64..=MAX_SQRT_PRICE_X64).contains(&price) {
                    continue;
                }
                let e = expect_of(price);
                let got = tick_index_from_sqrt_price(&price);
                acc.evaluations += 1;
                acc.count("inverse_bit_patterns");
                if got != e {
                    acc.violation("inverse:bit_pattern", format!("tick_index_from_sqrt_price({price}) = {got}, expected {e} (price = {price:#x})"), json!({"price": price.to_string(), "got": got, "expected": e}));
                }
            }
        }
        for k in 0..per {
            let price = if k % 2 == 0 {
                rnd::sqrt_price(&mut r)
            } else {
                let i = r.gen_range(0..n - 1);
                let (a, b) = (table[i], table[i + 1]);
                a + r.gen_range(0..(b - a))
            };
            let e = expect_of(price);
            let got = tick_index_from_sqrt_price(&price);
            acc.evaluations += 1;
            acc.count("inverse_interior");
            if k % 64 == 0 {
                acc.situation(format!("int:{}", e >> 10));
            }
            if got != e {
                acc.violation(
                    "inverse:interior",
                    format!("tick_index_from_sqrt_price({price}) = {got}, expected {e}"),
                    json!({"price": price.to_string(), "got": got, "expected": e}),
                );
            }
            if k < 2 && shard == 0 {
                acc.sample(json!({"price": price.to_string(), "tick": got, "p_tick": table[(e - MIN_TICK_INDEX) as usize].to_string()}));
            }
        }
        acc
    });
    let mut acc = acc;
    supported_ticks(seed, &mut acc);
    rep.acc = acc;
    rep.floor("supported_tick_cases", 40_000);
    rep.floor("forward_steps", 887_272);
    rep.floor("inverse_boundary", 2_000_000);
    rep.floor("inverse_interior", 1_000_000);
    rep.floor("inverse_bit_patterns", 10_000);
    rep.finish()
}
