//! Drivers of the history-based checks C01, C03, C06, C07.
use super::hrun::run_histories;
use crate::hist::{HistCfg, Monitor};
use crate::monitors::{c01::C01, c07::C07, swapmon::{C03, C06}};
use crate::report::*;

const SVM_ASSUMPTION: &str = "native mini-SVM reproduces loader serialisation, CPI privileges and post-instruction account rules; CPIs run the real spl-token / token-2022 processors; same sources as the SBF program but a native build (overflow-checks off, as in the release profile)";

/// Directed scenario: a reward paid in one of the pool's own tokens (the pool then owns two accounts of that mint).
/// Rewards are collected honestly and with the pool's swap vault named as reward vault (same mint, same authority):
/// the latter must fail; if it is paid, the swap vault no longer covers the claims on it (C01 monitor).
fn c01_reward_in_pool_token(seed: u64) -> Acc {
    use crate::world::*;
    let mut acc = Acc::default();
    for variant in 0..4u64 {
        let mut mon = C01::new(1);
        let mut w = World::new(crate::rnd::rng(seed ^ variant));
        let c = w.add_config(300);
        let u = w.add_user();
        let (m1, m2) = (w.add_spl_mint(6), w.add_spl_mint(6));
        let Ok(p) = w.add_pool(c, m1, m2, 64, 3000, 1u128 << 64, variant & 1 == 0) else {
            acc.count("harness_errors");
            continue;
        };
        let mut run = |w: &mut World, ix: crate::ix::Ix, acc: &mut Acc| -> bool {
            let o = w.exec(ix);
            acc.evaluations += 1;
            Monitor::after(&mut mon, w, &o, acc);
            o.ok()
        };
        let mut ok = true;
        w.ensure_tick_array(p, -128, false);
        w.ensure_tick_array(p, 128, false);
        let (ix, info) = w.open_position_ix(p, u, -128, 128, false);
        ok &= run(&mut w, ix, &mut acc);
        w.positions.push(info);
        let i = w.positions.len() - 1;
        let ix = w.modify_v2(i).increase_liquidity_v2(1_000_000_000, u64::MAX, u64::MAX, None);
        ok &= run(&mut w, ix, &mut acc);
        let pool = w.pools[p].clone();
        let (mint, swap_vault) = if variant & 2 == 0 { (pool.mint_a, pool.vault_a) } else { (pool.mint_b, pool.vault_b) };
        let (ix, rv) = w.init_reward_ix(p, 0, mint);
        ok &= run(&mut w, ix, &mut acc);
        w.set_token_balance(rv, 1_000_000_000_000);
        w.pools[p].rewards.push((mint, rv));
        let ix = w.set_emissions_ix(p, 0, 10u128 << 64);
        ok &= run(&mut w, ix, &mut acc);
        w.advance_clock(1000);
        let ix = w.update_fees_ix(i);
        ok &= run(&mut w, ix, &mut acc);
        let ix = w.collect_reward_ix_ver(i, 0, false);
        ok &= run(&mut w, ix, &mut acc);
        if !ok {
            acc.notes.push(format!("HARNESS-ERROR directed reward-in-pool-token scenario {variant} did not run"));
            acc.count("harness_errors");
            continue;
        }
        w.advance_clock(1000);
        let ix = w.update_fees_ix(i);
        run(&mut w, ix, &mut acc);
        for v1 in [false, true] {
            let ix = w.collect_reward_ix_ver(i, 0, v1).with_key("reward_vault", swap_vault);
            let before = w.token_balance(&swap_vault);
            let paid = run(&mut w, ix, &mut acc);
            acc.count("rewards_requested_from_the_swap_vault");
            if paid && w.token_balance(&swap_vault) < before {
                acc.violation(
                    format!("c01:reward_paid_from_swap_vault:{}", if v1 { "collect_reward" } else { "collect_reward_v2" }),
                    format!("a reward in the pool's own token was paid out of the swap vault ({} -> {}), which backs liquidity and fee claims only", before, w.token_balance(&swap_vault)),
                    serde_json::json!({"variant": variant}),
                );
            }
        }
        acc.count("directed_reward_in_pool_token_scenarios");
    }
    acc
}

/// Directed scenario shared by C01 / C05 / C07: two pools over the SAME pair of mints (spacing 64 and 128), one
/// position in each with the same bounds and the same owner, fees earned in both. Then liquidity and fee instructions
/// are run on one pool's accounts with the OTHER pool's position (and its token account) in the position slots - v1
/// and v2. The program refuses them; whatever it does, every step goes through the caller's monitor.
pub fn directed_position_of_a_twin_pool(seed: u64, mon: &mut dyn Monitor) -> Acc {
    use crate::world::*;
    let mut acc = Acc::default();
    let mut w = World::new(crate::rnd::rng(seed));
    let c = w.add_config(1000);
    let u = w.add_user();
    let (m1, m2) = (w.add_spl_mint(6), w.add_spl_mint(6));
    let (Ok(px), Ok(py)) = (w.add_pool(c, m1, m2, 64, 3000, 1u128 << 64, false), w.add_pool(c, m1, m2, 128, 10000, 1u128 << 64, false)) else {
        acc.count("harness_errors");
        return acc;
    };
    let mut run = |w: &mut World, ix: crate::ix::Ix, acc: &mut Acc| -> bool {
        let o = w.exec(ix);
        acc.evaluations += 1;
        mon.after(w, &o, acc);
        o.ok()
    };
    let mut idx = vec![];
    let mut ok = true;
    for (p, l) in [(px, 1_000_000_000u128), (py, 2_000_000_000u128)] {
        w.ensure_tick_array(p, -1280, false);
        w.ensure_tick_array(p, 1280, false);
        w.ensure_tick_array(p, 0, false);
        let (ix, info) = w.open_position_ix(p, u, -1280, 1280, false);
        ok &= run(&mut w, ix, &mut acc);
        w.positions.push(info);
        let i = w.positions.len() - 1;
        idx.push(i);
        let ix = w.modify_v2(i).increase_liquidity_v2(l, u64::MAX, u64::MAX, None);
        ok &= run(&mut w, ix, &mut acc);
    }
    for round in 0..2 {
        for p in [px, py] {
            for a_to_b in [true, false] {
                let ix = w.swap_ix(p, u, 3_000_000 + round, 0, 0, true, a_to_b, true);
                ok &= run(&mut w, ix, &mut acc);
            }
        }
    }
    for i in &idx {
        let ix = w.update_fees_ix(*i);
        ok &= run(&mut w, ix, &mut acc);
    }
    if !ok {
        acc.notes.push("HARNESS-ERROR directed twin-pool scenario: set-up failed".into());
        acc.count("harness_errors");
        return acc;
    }
    let (ix_, iy) = (idx[0], idx[1]);
    let (posx, posy) = (w.positions[ix_].clone(), w.positions[iy].clone());
    // (instruction built for position `host` of one pool, position slots replaced by those of `guest` of the other pool)
    let mut hostile: Vec<crate::ix::Ix> = vec![];
    for (host, guest) in [(ix_, &posy), (iy, &posx)] {
        let sub = |i: crate::ix::Ix| { let i = i.with_key("position", guest.position); if i.slot("position_token_account").is_some() { i.with_key("position_token_account", guest.token_account) } else { i } };
        hostile.push(sub(w.collect_fees_ix(host, false)));
        hostile.push(sub(w.collect_fees_ix(host, true)));
        hostile.push(sub(w.modify_v1(host).increase_liquidity(500_000_000, u64::MAX, u64::MAX)));
        hostile.push(sub(w.modify_v2(host).increase_liquidity_v2(500_000_000, u64::MAX, u64::MAX, None)));
        hostile.push(sub(w.modify_v1(host).decrease_liquidity(400_000_000, 0, 0)));
        hostile.push(sub(w.modify_v2(host).decrease_liquidity_v2(400_000_000, 0, 0, None)));
        hostile.push(sub(w.update_fees_ix(host)));
    }
    for ix in hostile {
        let name = ix.name;
        let accepted = run(&mut w, ix, &mut acc);
        acc.count("twin_pool_position_attempts");
        acc.situation(format!("twin_pool_position:{name}:{}", if accepted { "accepted" } else { "refused" }));
        // give the shadow ledgers something to settle against
        for p in [px, py] {
            let ix = w.swap_ix(p, u, 1_000_000, 0, 0, true, true, true);
            run(&mut w, ix, &mut acc);
            let ix = w.swap_ix(p, u, 1_000_000, 0, 0, true, false, true);
            run(&mut w, ix, &mut acc);
        }
        for i in &idx {
            let ix = w.update_fees_ix(*i);
            run(&mut w, ix, &mut acc);
        }
    }
    acc
}

pub fn c01(tier: Tier, seed: u64) -> i32 {
    let mut rep = Report::new("C01", tier, seed);
    rep.rule = "history workload H on plain SPL pools; after every successful instruction (every prefix) oracle A: vault >= protocol fees owed + sum over all Position accounts (bank scan) of (fee_owed + pending fees + exact floor amounts of withdrawing all liquidity at the current price), exact big-integer arithmetic; oracle B at checkpoints and at the end: on a clone of the bank, in random order, update-fees / remove all liquidity / collect fees for every position and collect protocol fees - every step must succeed; oracle C: a signer that only swaps never ends with >= of both tokens and > of one. distinct = (instruction, ticks crossed bucket)".into();
    rep.assumptions = vec![SVM_ASSUMPTION.into(), "reward vaults excluded (C11); transfer-fee tokens excluded (C16)".into()];
    let per_shard = tier.pick(80, 2000);
    let drain_every = tier.pick(7, 2);
    let acc = run_histories(
        seed,
        per_shard,
        move |_r| HistCfg { ops: 130, pools: 3, lifecycle_ext: true, allow_adaptive: true, w_swap: 38, w_two_hop: 5, w_liq: 30, w_fees: 12, w_lifecycle: 9, w_clock: 2, w_setters: 3, w_trader: 6, w_reward: 3, seed_growth: true, ..Default::default() },
        move || vec![Box::new(C01::new(drain_every)) as Box<dyn Monitor>],
    );
    let mut acc = acc;
    acc.merge(c01_reward_in_pool_token(seed ^ 0xc01));
    acc.merge(directed_position_of_a_twin_pool(seed ^ 0x7717, &mut C01::new(1)));
    rep.acc = acc;
    rep.floor("directed_reward_in_pool_token_scenarios", 4);
    rep.floor("twin_pool_position_attempts", 14);
    rep.floor("claim_checks_with_liquidity", 5000);
    rep.floor("drains", 500);
    rep.floor("drain_steps", 2000);
    rep.floor("trader_segment_checks_multi", 300);
    rep.finish()
}

pub fn c03(tier: Tier, seed: u64) -> i32 {
    let mut rep = Report::new("C03", tier, seed);
    rep.rule = "every swap / swap_v2 of the history workload (SPL and Token-2022 pools incl. transfer-fee mints): paid <= amount (exact-in), received <= amount (exact-out), price moves only in the trade direction, stays in bounds and not beyond the limit, used < amount => final price == limit/bound, exact-out without limit is all-or-nothing; for a third of the successful swaps the same swap is re-executed on clones of the pre-state with the other-amount threshold set to x-1, x, x+1 (x = realised amount): exactly the permitted ones succeed and those are byte-identical to the original. distinct = (instruction, mode, direction, explicit limit, partial fill, token-2022)".into();
    rep.assumptions = vec![SVM_ASSUMPTION.into()];
    let per_shard = tier.pick(64, 1600);
    let acc = run_histories(
        seed,
        per_shard,
        move |_r| HistCfg { ops: 120, pools: 3, spl_only: false, allow_transfer_fee: true, allow_adaptive: true, w_swap: 45, w_two_hop: 18, w_liq: 25, w_fees: 5, w_lifecycle: 4, w_clock: 3, w_setters: 3, ..Default::default() },
        || vec![Box::new(C03::default()) as Box<dyn Monitor>, Box::new(crate::monitors::twohop::C03TwoHop) as Box<dyn Monitor>],
    );
    rep.acc = acc;
    rep.floor("swaps_checked", 3000);
    rep.floor("partial_fills", 300);
    rep.floor("threshold_triples", 500);
    rep.floor("ended_at_explicit_limit", 300);
    rep.floor("two_hop_swaps_checked", 300);
    rep.finish()
}

/// Directed scenario: an out-and-back two-hop that names ONE pool for both legs (every account of the second leg
/// aliases the first leg's), v1 and v2, exact-in and exact-out, both orders. The program refuses it today; whatever
/// it does, the C06 monitor judges the outcome (fees of both computations booked).
fn c06_one_pool_twice(seed: u64) -> Acc {
    use crate::world::*;
    let mut acc = Acc::default();
    let mut mon = C06;
    let mut w = World::new(crate::rnd::rng(seed));
    let c = w.add_config(1300);
    let u = w.add_user();
    let (m1, m2) = (w.add_spl_mint(6), w.add_spl_mint(6));
    // the price sits in the last tick-spacing of its array: the b-to-a leg then starts from the NEXT array, so the two
    // legs name disjoint tick arrays (otherwise the second leg fails on borrowing an array the first one holds)
    let Ok(p) = w.add_pool(c, m1, m2, 64, 3000, whirlpool::math::sqrt_price_from_tick_index(5600), false) else {
        acc.count("harness_errors");
        return acc;
    };
    w.ensure_tick_array(p, -2816, false);
    w.ensure_tick_array(p, 8448, false);
    w.ensure_tick_array(p, 5600, false);
    let (ix, info) = w.open_position_ix(p, u, -2816, 8448, false);
    let ok = w.exec(ix).ok();
    w.positions.push(info);
    let i = w.positions.len() - 1;
    let ix = w.modify_v2(i).increase_liquidity_v2(10_000_000_000, u64::MAX, u64::MAX, None);
    if !(ok && w.exec(ix).ok()) {
        acc.notes.push("HARNESS-ERROR directed one-pool-twice scenario: set-up failed".into());
        acc.count("harness_errors");
        return acc;
    }
    for v2 in [false, true] {
        for exact_in in [true, false] {
            for d in [true, false] {
                let ix = w.two_hop_ix(p, p, u, 1_000_000, if exact_in { 0 } else { u64::MAX }, exact_in, d, !d, 0, 0, v2);
                let o = w.exec(ix);
                acc.evaluations += 1;
                Monitor::after(&mut mon, &mut w, &o, &mut acc);
                acc.count("directed_two_hops_over_one_pool");
                acc.situation(format!("one_pool_twice:v2={v2}:exact_in={exact_in}:{d}:{}", if o.ok() { "ok".to_string() } else { format!("{:?}", o.out.err) }));
            }
        }
    }
    acc
}

/// The fee of a swap step is ceil(amount_in x rate / (1e6 - rate)). The function the swap loop calls for it is swept
/// directly on structured inputs: all fee rates of interest x curve inputs around every power of two, around the
/// values where amount x rate crosses 2^32 / 2^63 / 2^64 / 2^96, at u64::MAX, and a random sample - against exact
/// integer arithmetic.
fn c06_fee_function(seed: u64) -> Acc {
    use num_bigint::BigUint;
    use rand::Rng;
    let mut acc = Acc::default();
    let mut r = crate::rnd::rng(seed);
    let mut rates: Vec<u128> = vec![1, 2, 100, 300, 500, 2500, 3000, 10_000, 30_000, 59_999, 60_000, 65_535, 65_536, 99_999, 100_000];
    for _ in 0..10 {
        rates.push(r.gen_range(1..=100_000));
    }
    for rate in rates {
        let d = 1_000_000 - rate;
        let mut xs: Vec<u128> = vec![0, 1, u64::MAX as u128, u64::MAX as u128 - 1];
        for k in 1..=64u32 {
            for dd in -2i128..=2 {
                xs.push(((1u128 << k) as i128 + dd).max(0) as u128);
            }
        }
        for edge in [1u128 << 32, 1u128 << 63, 1u128 << 64, 1u128 << 96] {
            let c = edge / rate;
            for dd in -400i128..=400 {
                xs.push((c as i128 + dd).max(0) as u128);
            }
            // ... and where the PRODUCT comes within one divisor of the edge
            for dd in 0..4u128 {
                xs.push((edge.saturating_sub(d * dd)) / rate);
            }
        }
        for _ in 0..300 {
            xs.push(crate::rnd::log_u64(&mut r) as u128);
        }
        for x in xs {
            if x > u64::MAX as u128 {
                continue;
            }
            acc.evaluations += 1;
            acc.count("fee_function_cases");
            let want = (BigUint::from(x) * BigUint::from(rate) + BigUint::from(d - 1)) / BigUint::from(d);
            match whirlpool::math::checked_mul_div_round_up(x, rate, d) {
                Ok(got) => {
                    if BigUint::from(got) != want {
                        acc.violation("c06:fee_function".to_string(), format!("fee on a curve input of {x} at rate {rate}: got {got}, ceil({x} x {rate} / {d}) = {want}"), serde_json::json!({"amount_in": x.to_string(), "fee_rate": rate}));
                    }
                }
                Err(e) => {
                    // x <= u64::MAX and rate <= 1e5: the product fits u128, so the function has no reason to fail
                    acc.violation("c06:fee_function_failed".to_string(), format!("fee on a curve input of {x} at rate {rate} failed: {e:?}"), serde_json::json!({"amount_in": x.to_string(), "fee_rate": rate}));
                }
            }
        }
    }
    acc
}

pub fn c06(tier: Tier, seed: u64) -> i32 {
    let mut rep = Report::new("C06", tier, seed);
    rep.rule = "every successful swap of the history workload on plain-token pools (static and adaptive fee): the per-step records from the swap-loop hook are re-priced: fee == ceil(in*rate/(1e6-rate)) or the unspendable remainder on a non-reaching exact-in step; sum(in+fee) == what left the trader == what entered the vault, sum(out) likewise, no other account of the trader changes; protocol fee owed grows by sum floor(fee*p/1e4), fee growth of the input token by sum floor((fee-cut)*2^64/L_step) (mod 2^128), the other token's owed/growth unchanged; the Traded event equals all of these; both legs of every successful two-hop (v1 and v2, all four direction combinations) get the same bookkeeping, event and vault/trader conservation checks per pool; collect_protocol_fees pays exactly the owed amounts and zeroes them. distinct = (instruction, mode, direction, #steps bucket, protocol fee rate, fee rate, adaptive)".into();
    rep.assumptions = vec![SVM_ASSUMPTION.into(), "per-step amounts are read from the verif hook inside the swap loop (hook records loop variables; it computes nothing)".into()];
    let per_shard = tier.pick(64, 1600);
    let acc = run_histories(
        seed,
        per_shard,
        move |_r| HistCfg { ops: 120, pools: 3, allow_adaptive: true, spl_only: false, allow_transfer_fee: true, lifecycle_ext: true, w_swap: 52, w_two_hop: 10, w_liq: 22, w_fees: 10, w_lifecycle: 4, w_clock: 3, w_setters: 3, ..Default::default() },
        || vec![Box::new(C06) as Box<dyn Monitor>],
    );
    let mut acc = acc;
    acc.merge(c06_one_pool_twice(seed ^ 0xc06));
    acc.merge(c06_fee_function(seed ^ 0xfee));
    rep.acc = acc;
    rep.floor("directed_two_hops_over_one_pool", 8);
    rep.floor("fee_function_cases", 50_000);
    rep.floor("swaps_checked", 2000);
    rep.floor("multi_step_swaps", 500);
    rep.floor("swaps_over_zero_liquidity_gap", 100);
    rep.floor("protocol_fee_collections_nonzero", 100);
    rep.floor("two_hop_legs_checked", 300);
    rep.finish()
}

pub fn c07(tier: Tier, seed: u64) -> i32 {
    let mut rep = Report::new("C07", tier, seed);
    rep.rule = "shadow fee ledger in exact arithmetic, independent of the program's accumulators: every swap step (hook record) with liquidity > 0 credits each Position account found in the bank whose range contains the step's tick with lp_fee*L_i/L_step; whenever an instruction changes a position's owed fees/checkpoints the credited amount must be <= the exact share and short of it by at most 1 + n_steps*L_i/2^64 (nothing credited is accepted only when L*growth leaves 128 bits); fee growth accumulators of empty pools are seeded anywhere in u128 incl. just below wrap-around. distinct = (instruction, earned A/B, liquidity magnitude)".into();
    rep.assumptions = vec![SVM_ASSUMPTION.into(), "state seeding: fee_growth_global_a/b of a pool are overwritten only while the pool has no position and no initialised tick".into()];
    let per_shard = tier.pick(80, 2000);
    let acc = run_histories(
        seed,
        per_shard,
        move |_r| HistCfg { ops: 130, spl_only: false, seed_growth: true, lifecycle_ext: true, w_swap: 45, w_liq: 30, w_fees: 18, w_lifecycle: 7, w_clock: 2, w_setters: 2, ..Default::default() },
        || vec![Box::new(C07::default()) as Box<dyn Monitor>],
    );
    let mut acc = acc;
    acc.merge(directed_position_of_a_twin_pool(seed ^ 0x7717, &mut C07::default()));
    acc.merge(c07_settle_where_nobody_is(seed ^ 0x7707));
    rep.acc = acc;
    rep.floor("twin_pool_position_attempts", 14);
    rep.floor("directed_settlements_at_a_price_without_liquidity", 10);
    rep.floor("position_settlements", 3000);
    rep.floor("position_settlements_with_earned_fees", 500);
    rep.floor("accrual_steps", 5000);
    rep.finish()
}

pub fn c12(tier: Tier, seed: u64) -> i32 {
    use crate::monitors::c12::C12;
    let mut rep = Report::new("C12", tier, seed);
    rep.rule = "function level: on byte snapshots of (whirlpool, position, lower array, upper array) taken from running histories (reachable bytes, both array encodings, same-array and two-array positions, pools with 0-3 rewards running, paused or uninitialised), with liquidity deltas {0, +-1, +-L, -(L+1), i128::MIN/MAX, overflowing, random} and timestamps {equal, earlier, later, u64::MAX}: Anchor (deserialize -> calculate_modify_liquidity -> sync -> token deltas -> serialize) vs Pinocchio (memory-mapped views over copies): same Ok/Err and error number, every field of the update structs, token amounts, and the resulting bytes of all four accounts. instruction level: every increase/decrease(_v2) of the history is also executed on a clone of the pre-state through whirlpool::entry (Anchor dispatch): same success/failure, identical resulting bank, identical event bytes; the six Pinocchio discriminators never reach the Anchor dispatcher through entrypoint. distinct = (level, instruction or delta sign, encoding, outcome)".into();
    rep.assumptions = vec![SVM_ASSUMPTION.into(), "the two Pinocchio-only instructions (by-token-amounts, reposition) have unreachable!() Anchor bodies: they are judged by C05/C07/C08/C16/C18 monitors, not by a route differential".into()];
    let per_shard = tier.pick(56, 1400);
    let acc = run_histories(
        seed,
        per_shard,
        move |_r| HistCfg { delegates: true, idle_hooks: true, ops: 130, spl_only: false, allow_transfer_fee: true, allow_adaptive: true, seed_growth: true, lifecycle_ext: true, w_swap: 28, w_liq: 46, w_fees: 6, w_lifecycle: 8, w_clock: 6, w_setters: 2, w_reward: 9, ..Default::default() },
        || vec![Box::new(C12::default()) as Box<dyn Monitor>],
    );
    rep.acc = acc;
    rep.floor("fn_diff_both_ok", 10_000);
    rep.floor("fn_diff_both_err", 2_000);
    rep.floor("route_pairs_on_idle_hook_mints_both_ok", 100);
    rep.floor("route_pairs_both_ok", 2_000);
    rep.floor("route_pairs_both_err", 200);
    rep.floor("routing_observed", 3_000);
    rep.floor("range_diff_ok", 1_000);
    rep.floor("range_diff_err", 1_000);
    rep.finish()
}

pub fn c17(tier: Tier, seed: u64) -> i32 {
    use crate::monitors::twohop::C17;
    let mut rep = Report::new("C17", tier, seed);
    rep.rule = "every two-hop swap of the history workload (v1 and v2, all four direction combinations, both modes, with/without limits, SPL and Token-2022 incl. transfer-fee mints, static and adaptive pools; 1 in 12 deliberately names the same pool twice or legs that do not chain): a successful two-hop is replayed on a clone of the pre-state as two single swaps whose second amount is the intermediate amount measured at the vaults; both legs must succeed and both pools, all named tick arrays, oracles and vaults must be byte-identical, trader input/output deltas identical, trader intermediate balance untouched; same pool twice / non-chaining mints must never succeed; outer threshold probes x-1/x/x+1 on clones. distinct = (instruction, mode, direction pair, limits)".into();
    rep.assumptions = vec![SVM_ASSUMPTION.into(), "'fails if either leg would fail on its own' is checked in its contrapositive form (success => both single legs succeed)".into()];
    let per_shard = tier.pick(64, 1600);
    let acc = run_histories(
        seed,
        per_shard,
        move |_r| HistCfg { ops: 110, pools: 3, spl_only: false, allow_transfer_fee: true, allow_adaptive: true, w_swap: 18, w_two_hop: 42, w_liq: 22, w_fees: 3, w_lifecycle: 2, w_clock: 3, w_setters: 2, w_reward: 10, ..Default::default() },
        || vec![Box::new(C17) as Box<dyn Monitor>],
    );
    rep.acc = acc;
    rep.floor("two_hops_ok", 1000);
    rep.floor("two_hops_replayed_as_singles", 1000);
    rep.floor("two_hops_failed", 300);
    rep.floor("threshold_triples", 300);
    rep.finish()
}

pub fn c10(tier: Tier, seed: u64) -> i32 {
    use crate::monitors::c10::C10;
    let mut rep = Report::new("C10", tier, seed);
    rep.rule = "every successful single swap of the history workload: (0) history level - an initialized tick is never crossed twice in the same direction without a crossing the other way in between (records dropped whenever a liquidity instruction or a two-hop may have touched the tick); (1) reference traversal - the initialized ticks of the pre-state (harness decoders, all arrays in the bank) lying between start and end price, in price order, must be exactly the initialized ticks the swap-loop hook saw crossed, each once, and pool liquidity must change by exactly their signed nets; (2) packaging equivalence on clones of the pre-state for every second swap: permuted slots, duplicated accounts, supplemental arrays (v2), static slots holding one array with the rest supplemental, arrays without initialized ticks deleted from the bank and only named, every array transcoded fixed<->dynamic by the harness encoder, one slot replaced by a non-PDA address, an array of another pool. A variant that still contains every array the swap needs must be byte-identical in pool, oracle, balances, events and abstract tick contents; any other variant may only fail; a foreign array must fail. distinct = (variant, outcome, direction) and (instruction, direction, #crossed, #arrays visited, shifted start)".into();
    rep.assumptions = vec![SVM_ASSUMPTION.into()];
    let per_shard = tier.pick(56, 1400);
    let acc = run_histories(
        seed,
        per_shard,
        move |_r| HistCfg { ops: 120, spl_only: false, allow_adaptive: true, lifecycle_ext: true, seed_growth: true, w_swap: 60, w_liq: 26, w_fees: 3, w_lifecycle: 6, w_clock: 3, w_setters: 2, w_reward: 3, ..Default::default() },
        || vec![Box::new(C10::default()) as Box<dyn Monitor>],
    );
    rep.acc = acc;
    rep.floor("traversals_checked", 3000);
    rep.floor("initialized_ticks_crossed", 1000);
    rep.floor("array_handovers", 200);
    rep.floor("packaging_variants_identical", 5000);
    rep.floor("variants_with_arrays_only_named", 200);
    rep.floor("variants_transcoded", 1000);
    rep.floor("crossed_first_slot", 20);
    rep.floor("crossed_last_slot", 20);
    rep.floor("shifted_start_state", 50);
    rep.floor("foreign_array_probes", 300);
    rep.floor("recrossings_checked", 300);
    rep.finish()
}

pub fn c11(tier: Tier, seed: u64) -> i32 {
    use crate::monitors::c11::C11;
    let mut rep = Report::new("C11", tier, seed);
    rep.rule = "history workload with 1-3 rewards (SPL and Token-2022 mints), emission rates 0..2^128, clock steps 1s..10^9s, under-funded vaults, positions entering/leaving range: an exact shadow ledger distributes emissions x elapsed over the Position accounts in range in the state that held during each interval between reward-updating instructions; at every instruction that settles a position credited <= exact share and exact share - credited <= 1 + n_intervals*L/2^64 (intervals with dt*e >= 2^128 and amounts beyond 128/64 bits are exempt from the lower bound only); growth is never inflated, never moves with zero liquidity / uninitialized reward / unchanged timestamp; instructions with a clock earlier than the last update fail; collect_reward pays min(owed, vault) and keeps the rest; set_reward_emissions requires floor(86400*e/2^64) in the vault (probed with exactly that and one less on clones). distinct = (instruction, which rewards earned)".into();
    rep.assumptions = vec![SVM_ASSUMPTION.into()];
    let per_shard = tier.pick(72, 1800);
    let acc = run_histories(
        seed,
        per_shard,
        move |_r| HistCfg { ops: 150, spl_only: false, seed_growth: true, lifecycle_ext: true, w_swap: 22, w_liq: 22, w_fees: 6, w_lifecycle: 7, w_clock: 6, w_setters: 1, w_reward: 40, ..Default::default() },
        || vec![Box::new(C11::default()) as Box<dyn Monitor>],
    );
    rep.acc = acc;
    rep.acc.merge(c11_overflow_then_later_rewards(seed));
    rep.floor("directed_overflow_intervals_with_later_rewards", 8);
    rep.floor("reward_intervals_emitting", 2000);
    rep.floor("position_settlements_with_earned_rewards", 500);
    rep.floor("reward_collections", 300);
    rep.floor("reward_collections_underfunded", 20);
    rep.floor("emission_changes", 300);
    rep.floor("funding_probes", 300);
    rep.floor("earlier_timestamp_attempts", 50);
    rep.finish()
}

/// Directed fee scenario: a lone position earns fees from trades in both directions, then a trade carries the price out
/// of its range - to where the pool has no liquidity at all - and only THEN the position is settled (fee-and-reward
/// update, fee collection, a withdrawal, a deposit). What it earned while in range is still owed to it; the C07 ledger
/// judges what the settlement credits.
fn c07_settle_where_nobody_is(seed: u64) -> Acc {
    use crate::monitors::c07::C07;
    use crate::world::*;
    use whirlpool::math::sqrt_price_from_tick_index;
    let mut acc = Acc::default();
    for leave_downwards in [true, false] {
        for settle in 0..4usize {
            for dynamic in [true, false] {
                let mut mon = C07::default();
                let mut w = World::new(crate::rnd::rng(seed ^ (settle as u64) << 3 ^ (leave_downwards as u64) << 1 ^ dynamic as u64));
                let c = w.add_config(300);
                let u = w.add_user();
                let (m1, m2) = (w.add_spl_mint(6), w.add_spl_mint(6));
                let Ok(p) = w.add_pool(c, m1, m2, 64, 3000, 1u128 << 64, settle % 2 == 0) else {
                    acc.count("harness_errors");
                    continue;
                };
                let mut run = |w: &mut World, ix: crate::ix::Ix, acc: &mut Acc, mon: &mut C07| -> bool {
                    let o = w.exec(ix);
                    acc.evaluations += 1;
                    crate::hist::Monitor::after(mon, w, &o, acc);
                    o.ok()
                };
                w.ensure_tick_array(p, -128, dynamic);
                w.ensure_tick_array(p, 128, dynamic);
                let (ix, info) = w.open_position_ix(p, u, -128, 128, dynamic);
                let mut ok = run(&mut w, ix, &mut acc, &mut mon);
                w.positions.push(info.clone());
                let i = w.positions.len() - 1;
                let ix = w.modify_v2(i).increase_liquidity_v2(1_000_000_000 + (seed % 1000) as u128, u64::MAX, u64::MAX, None);
                ok &= run(&mut w, ix, &mut acc, &mut mon);
                for a_to_b in [true, false, true] {
                    let ix = w.swap_ix(p, u, 200_000 + (seed % 777), 0, 0, true, a_to_b, dynamic);
                    ok &= run(&mut w, ix, &mut acc, &mut mon);
                }
                // out of the range and on to tick +-1000, where nobody provides liquidity
                let limit = sqrt_price_from_tick_index(if leave_downwards { -1000 } else { 1000 });
                let ix = w.swap_ix(p, u, u64::MAX / 4, 0, limit, true, leave_downwards, !dynamic);
                ok &= run(&mut w, ix, &mut acc, &mut mon);
                let empty = w.pool_state(p).liquidity == 0;
                let ix = match settle {
                    0 => w.update_fees_ix(i),
                    1 => w.collect_fees_ix(i, dynamic),
                    2 => w.modify_v1(i).decrease_liquidity(1_000, 0, 0),
                    _ => w.modify_v2(i).increase_liquidity_v2(1_000, u64::MAX, u64::MAX, None),
                };
                let settled = run(&mut w, ix, &mut acc, &mut mon);
                let ix = w.update_fees_ix(i);
                run(&mut w, ix, &mut acc, &mut mon);
                let ix = w.collect_fees_ix(i, !dynamic);
                run(&mut w, ix, &mut acc, &mut mon);
                acc.situation(format!("directed_settlement:downwards_{leave_downwards}:kind_{settle}:dynamic_{dynamic}:{settled}:{empty}"));
                if ok && empty && (settled || settle == 1) {
                    acc.count("directed_settlements_at_a_price_without_liquidity");
                } else {
                    acc.notes.push(format!("directed settlement scenario (downwards {leave_downwards}, kind {settle}, dynamic {dynamic}) did not reach its point: steps ok={ok}, pool empty={empty}, settlement ok={settled}"));
                }
            }
        }
    }
    acc
}

/// Directed reward scenario: one reward emits so fast that `elapsed x rate` leaves 128 bits once more than a day has
/// passed (the program then drops that interval for THAT reward only), while the rewards behind and in front of it
/// emit normally. The interval is crossed by each kind of instruction that advances the reward clock (both swaps,
/// an emissions change of another slot, a fee-and-reward update, a deposit); afterwards everything is settled and
/// collected, and the C11 ledger judges what each reward credited.
fn c11_overflow_then_later_rewards(seed: u64) -> Acc {
    use crate::monitors::c11::C11;
    use crate::world::*;
    let mut acc = Acc::default();
    for fast in 0..2u8 {
        for crossing in 0..5usize {
            let mut mon = C11::default();
            let mut w = World::new(crate::rnd::rng(seed ^ 0xC11 ^ (fast as u64) << 8 ^ (crossing as u64) << 12));
            let c = w.add_config(300);
            let u = w.add_user();
            let (m1, m2) = (w.add_spl_mint(6), w.add_spl_mint(6));
            let Ok(p) = w.add_pool(c, m1, m2, 64, 3000, 1u128 << 64, crossing % 2 == 0) else {
                acc.count("harness_errors");
                continue;
            };
            let mut run = |w: &mut World, ix: crate::ix::Ix, acc: &mut Acc, mon: &mut C11| -> bool {
                let o = w.exec(ix);
                acc.evaluations += 1;
                crate::hist::Monitor::after(mon, w, &o, acc);
                o.ok()
            };
            let mut ok = true;
            for k in 0..3u8 {
                let mint = w.add_spl_mint(6);
                let (ix, vault) = w.init_reward_ix(p, k, mint);
                ok &= run(&mut w, ix, &mut acc, &mut mon);
                w.set_token_balance(vault, if k == fast { u64::MAX } else { 1_000_000_000_000_000 });
                w.pools[p].rewards.push((mint, vault));
            }
            w.ensure_tick_array(p, -128, crossing % 2 == 0);
            w.ensure_tick_array(p, 128, crossing % 2 == 0);
            let (ix, info) = w.open_position_ix(p, u, -128, 128, fast == 0);
            ok &= run(&mut w, ix, &mut acc, &mut mon);
            w.positions.push(info.clone());
            let i = w.positions.len() - 1;
            let ix = w.modify_v2(i).increase_liquidity_v2(1_000_000, u64::MAX, u64::MAX, None);
            ok &= run(&mut w, ix, &mut acc, &mut mon);
            for k in 0..3u8 {
                // the fast one: the largest rate a vault holding 2^64 - 1 can fund for a day
                let e = if k == fast { ((u64::MAX as u128) << 64) / 86_400 - (seed as u128 % 1000) } else { (k as u128 + 1) << 64 };
                let ix = w.set_emissions_ix(p, k, e);
                ok &= run(&mut w, ix, &mut acc, &mut mon);
            }
            w.advance_clock(100);
            let ix = w.swap_ix(p, u, 5_000, 0, 0, true, true, true);
            ok &= run(&mut w, ix, &mut acc, &mut mon);
            // more than a day: elapsed x rate of the fast reward no longer fits 128 bits
            w.advance_clock(86_400 + 1_000 + (seed % 5_000) as i64);
            let before = acc.get("reward_intervals_dropped_by_overflow");
            let ix = match crossing {
                0 => w.swap_ix(p, u, 4_000, 0, 0, true, false, false),
                1 => w.swap_ix(p, u, 4_000, 0, 0, true, false, true),
                2 => w.set_emissions_ix(p, 2 - fast, 5u128 << 64),
                3 => w.update_fees_ix(i),
                _ => w.modify_v1(i).increase_liquidity(500_000, u64::MAX, u64::MAX),
            };
            let crossed = run(&mut w, ix, &mut acc, &mut mon);
            let dropped = acc.get("reward_intervals_dropped_by_overflow") > before;
            w.advance_clock(10);
            let ix = w.update_fees_ix(i);
            ok &= run(&mut w, ix, &mut acc, &mut mon);
            for k in 0..3u8 {
                let ix = w.collect_reward_ix(i, k);
                run(&mut w, ix, &mut acc, &mut mon);
            }
            acc.situation(format!("directed_overflow:fast_reward_{fast}:crossing_{crossing}:{crossed}:{dropped}"));
            if ok && crossed && dropped {
                acc.count("directed_overflow_intervals_with_later_rewards");
            } else {
                acc.notes.push(format!("directed overflow scenario (fast reward {fast}, crossing {crossing}) did not reach its point: set-up ok={ok}, crossing ok={crossed}, interval dropped={dropped}"));
            }
        }
    }
    acc
}

/// Directed adaptive-fee scenarios the random workload practically never produces: swaps over empty pools
/// that (a) end strictly inside the first tick of a tick group in the b-to-a direction, through a skip step,
/// and (b) travel so many tick groups in one go that `groups * 10_000` leaves 32 bits (tick group sizes 1
/// and 2, distance 429_497.. groups), each followed by swaps that make the stored variables matter.
fn c14_directed(seed: u64) -> Acc {
    use crate::monitors::c14::C14;
    use crate::world::World;
    use whirlpool::math::sqrt_price_from_tick_index;
    let mut acc = Acc::default();
    let mut mon = C14;
    let mut w = World::new(crate::rnd::rng(seed));
    let c = w.add_config(300);
    let u = w.add_user();
    // preset updates of a tier that change exactly one constant each (and one that changes nothing), judged by the monitor
    {
        use crate::ix::build as b;
        let (m1, m2) = (w.add_spl_mint(6), w.add_spl_mint(6));
        if w.add_adaptive_pool(c, m1, m2, 1999, 64, 3000, (30, 600, 5000, 4000, 350_000, 64, 64), 1u128 << 64, None).is_ok() {
            let cfg = w.configs[c].clone();
            let tier = b::pda_fee_tier(cfg.key, 1999).0;
            let base = (30u16, 600u16, 5000u16, 4000u32, 350_000u32, 64u16, 64u16);
            let mut cur = base;
            let steps: Vec<(u16, u16, u16, u32, u32, u16, u16)> = vec![
                (31, 600, 5000, 4000, 350_000, 64, 64), (31, 601, 5000, 4000, 350_000, 64, 64), (31, 601, 5001, 4000, 350_000, 64, 64), (31, 601, 5001, 0, 350_000, 64, 64),
                (31, 601, 5001, 0, 350_001, 64, 64), (31, 601, 5001, 0, 350_001, 32, 64), (31, 601, 5001, 0, 350_001, 32, 65), (31, 601, 5001, 0, 350_001, 32, 65), (31, 601, 5001, 7, 350_001, 32, 65),
            ];
            for st in steps {
                let ix = b::SetPresetAdaptiveFeeConstants { whirlpools_config: cfg.key, adaptive_fee_tier: tier, fee_authority: cfg.fee_authority }.ix(st.0, st.1, st.2, st.3, st.4, st.5, st.6);
                let o = w.exec(ix);
                acc.evaluations += 1;
                crate::hist::Monitor::after(&mut mon, &mut w, &o, &mut acc);
                acc.count("directed_preset_updates");
                if o.ok() { cur = st; }
            }
            let _ = cur;
        } else {
            acc.count("harness_errors");
        }
    }
    let mut n = 0u16;
    for gs in [1u16, 2, 64] {
        for control in [4000u32, 0] {
            for max_acc in [350_000u32, 1_000_000] {
                let (m1, m2) = (w.add_spl_mint(6), w.add_spl_mint(6));
                n += 1;
                // a far jump must fit into the three tick arrays of one swap: wide spacing for the small group sizes
                let sp: u16 = if gs <= 2 { 4096 } else { 64 };
                let t0: i32 = if gs == 2 { 430_080 } else { 217_088 };
                let Ok(p) = w.add_adaptive_pool(c, m1, m2, 2000 + n, sp, 3000, (30, 600, 5000, control, max_acc, gs, 64), sqrt_price_from_tick_index(t0), None) else {
                    acc.count("harness_errors");
                    continue;
                };
                let mut go = |w: &mut World, limit: u128, a_to_b: bool, dt: i64, acc: &mut Acc, mon: &mut C14| -> bool {
                    w.advance_clock(dt);
                    let ix = w.swap_ix(p, u, 1_000_000, 0, limit, true, a_to_b, gs != 2);
                    let o = w.exec(ix);
                    let ok = o.ok();
                    acc.evaluations += 1;
                    crate::hist::Monitor::after(mon, w, &o, acc);
                    ok
                };
                // (a) b-to-a stops strictly inside a tick whose index is a multiple of the group size
                for k in [1i32, 2, 5] {
                    let t = t0 + k * gs as i32 * if gs == 64 { 1 } else { 64 };
                    if go(&mut w, sqrt_price_from_tick_index(t) + 1000, false, 1, &mut acc, &mut mon) {
                        acc.count("directed_inside_tick_stops");
                    }
                    // the stored accumulator decays into the reference of the next swap
                    go(&mut w, sqrt_price_from_tick_index(t + 3 * gs as i32) + 7, false, 45, &mut acc, &mut mon);
                    go(&mut w, sqrt_price_from_tick_index(t0), true, 700, &mut acc, &mut mon);
                }
                // (b) far jumps: group distance just past 2^32 / 10_000 (and past twice that where the range allows)
                if gs <= 2 {
                    for j in [0i32, 1, (max_acc / 10_000) as i32 - 1, (max_acc / 10_000) as i32 + 3] {
                        let target = t0 - (429_497 + j) * gs as i32;
                        if go(&mut w, sqrt_price_from_tick_index(target), true, 4000, &mut acc, &mut mon) {
                            acc.count("directed_far_jumps");
                        }
                        go(&mut w, sqrt_price_from_tick_index(target - 3 * gs as i32), true, 10, &mut acc, &mut mon);
                        go(&mut w, sqrt_price_from_tick_index(t0), false, 4000, &mut acc, &mut mon);
                    }
                }
            }
        }
    }
    // (c) moves of exactly the major-swap threshold: from the price of tick 0 (2^64) to the published price of
    //     `threshold` ticks and back, where `smaller * price(threshold) / 2^64` is exact
    for (k, threshold) in [1u16, 64, 128, 500].into_iter().enumerate() {
        let (m1, m2) = (w.add_spl_mint(6), w.add_spl_mint(6));
        let Ok(p) = w.add_adaptive_pool(c, m1, m2, 3000 + k as u16, 64, 3000, (30, 600, 5000, 4000, 350_000, 64, threshold), 1u128 << 64, None) else {
            acc.count("harness_errors");
            continue;
        };
        for (limit, a_to_b) in [(sqrt_price_from_tick_index(threshold as i32), false), (1u128 << 64, true), (sqrt_price_from_tick_index(-(threshold as i32)), true), (1u128 << 64, false)] {
            w.advance_clock(40);
            let ix = w.swap_ix(p, u, 1_000_000, 0, limit, true, a_to_b, k % 2 == 0);
            let o = w.exec(ix);
            acc.evaluations += 1;
            if o.ok() {
                acc.count("directed_moves_of_exactly_the_threshold");
            }
            crate::hist::Monitor::after(&mut mon, &mut w, &o, &mut acc);
        }
    }
    acc
}

/// The adaptive rate of a tick group is ceil(control factor x (accumulator x group size)^2 / 1e13), capped. The
/// rounding-up division the program uses for it (and its u32 sibling) is swept directly on structured inputs:
/// the real divisor and others, dividends around every power of two, within one divisor of 2^32 / 2^64 / 2^96 /
/// 2^127, exact multiples +- 1, and the largest products legal constants can form - against exact integers.
fn c14_rounding_division(seed: u64) -> Acc {
    use num_bigint::BigUint;
    use rand::Rng;
    let mut acc = Acc::default();
    let mut r = crate::rnd::rng(seed);
    let real: u128 = 100_000 * 10_000 * 10_000;
    let mut divisors: Vec<u128> = vec![1, 2, 3, 7, 10_000, 100_000, 1_000_000, real, real - 1, real + 1, 1 << 32, (1u128 << 64) - 1, 1 << 64];
    for _ in 0..6 {
        divisors.push(crate::rnd::log_u64(&mut r).max(1) as u128);
    }
    for d in divisors {
        let mut xs: Vec<u128> = vec![0, 1, d - 1, d, d + 1, u64::MAX as u128, u128::MAX / 2];
        for k in 1..=127u32 {
            for dd in -2i128..=2 {
                xs.push(((1u128 << k) as i128).wrapping_add(dd).max(0) as u128);
            }
        }
        for edge in [1u128 << 32, 1u128 << 64, 1u128 << 96, 1u128 << 127] {
            for m in 0..3u128 {
                for dd in -3i128..=3 {
                    xs.push((edge as i128 - (d.min(edge) * m) as i128 + dd).max(0) as u128);
                    xs.push((edge as i128 - (d.min(edge) * m) as i128 + (d.min(edge) / 2) as i128 + dd).max(0) as u128);
                }
            }
        }
        for _ in 0..200 {
            let q = crate::rnd::log_u64(&mut r) as u128;
            xs.push(q.saturating_mul(d));
            xs.push(q.saturating_mul(d).saturating_add(1));
            xs.push(q.saturating_mul(d).saturating_sub(1));
            // the largest legal products: control factor < 1e5, accumulator x group size <= u32::MAX
            let crossed = u32::MAX as u128 - r.gen_range(0..1000u128);
            xs.push(r.gen_range(1..100_000u128) * crossed * crossed);
        }
        for x in xs {
            acc.evaluations += 1;
            acc.count("rounding_division_cases");
            let want = (BigUint::from(x) + BigUint::from(d - 1)) / BigUint::from(d);
            let got = crate::svm::quiet_catch(|| whirlpool::math::ceil_division_u128(x, d));
            if got.as_ref().ok().map(|g| BigUint::from(*g)) != Some(want.clone()) {
                acc.violation("c14:rounding_division".to_string(), format!("ceil_division_u128({x}, {d}) = {:?}, exact {want}", got), serde_json::json!({"dividend": x.to_string(), "divisor": d.to_string()}));
            }
            if x <= u32::MAX as u128 && d <= u32::MAX as u128 {
                let got32 = crate::svm::quiet_catch(|| whirlpool::math::ceil_division_u32(x as u32, d as u32));
                if got32.as_ref().ok().map(|g| BigUint::from(*g)) != Some(want.clone()) {
                    acc.violation("c14:rounding_division_u32".to_string(), format!("ceil_division_u32({x}, {d}) = {:?}, exact {want}", got32), serde_json::json!({"dividend": x.to_string(), "divisor": d.to_string()}));
                }
            }
        }
    }
    acc
}

pub fn c14(tier: Tier, seed: u64) -> i32 {
    use crate::monitors::c14::C14;
    let mut rep = Report::new("C14", tier, seed);
    rep.rule = "history workload on adaptive-fee pools (constants drawn from the validity rules incl. control factor 0 and extremes, tick group sizes dividing the spacing, trade-enable timestamps in the past/future, clock gaps in every class: < filter, < decay, >= decay, > 1h) plus directed scenarios on empty pools (b-to-a swaps stopping strictly inside the first tick of a tick group through a skip step; single swaps travelling 429_497+ tick groups with group sizes 1 and 2, where groups x 10_000 leaves 32 bits; moves of exactly the major-swap threshold from and to the price of tick 0): for every successful swap leg an independent re-statement of the documented schedule is applied to the per-step hook records: the reference (vol, group, timestamp) expected from the pre-swap oracle variables and the clock by the filter/decay/reset rules must equal the stored one; every step with a non-zero amount lies in one tick group (or in a span over which the schedule is constant) and carries static + ceil(cf*(acc*size)^2/1e13) capped at 100000 with acc = min(vref + |g-gref|*10000, max); rates within [static, 100000]; accumulator <= max; stored accumulator = that of the end group or a neighbour; major-swap timestamp set iff the price moved by the threshold (2e-9 band on log price); control factor 0 => static rate and no extra step splitting; no trading before trade_enable_timestamp. distinct = (instruction, direction, elapsed-time class, control factor zero?, saturated?, #steps)".into();
    rep.assumptions = vec![SVM_ASSUMPTION.into(), "oracle variables are reached through sequences of swaps and clock gaps (no direct seeding)".into()];
    let per_shard = tier.pick(72, 1800);
    let acc = run_histories(
        seed,
        per_shard,
        move |_r| HistCfg { ops: 140, pools: 2, spl_only: true, allow_adaptive: true, all_adaptive: true, spacings: vec![1, 8, 64, 128, 256], w_swap: 58, w_two_hop: 6, w_liq: 18, w_fees: 2, w_lifecycle: 2, w_clock: 14, w_setters: 1, w_burst: 1, ..Default::default() },
        || vec![Box::new(C14) as Box<dyn Monitor>],
    );
    let mut acc = acc;
    acc.merge(c14_directed(seed ^ 0x14));
    acc.merge(c14_rounding_division(seed ^ 0xd1f));
    rep.acc = acc;
    rep.floor("directed_far_jumps", 8);
    rep.floor("directed_inside_tick_stops", 12);
    rep.floor("adaptive_setups_compared_with_the_request", 200);
    rep.floor("adaptive_swaps", 3000);
    rep.floor("adaptive_steps_checked", 5000);
    rep.floor("reference_class_filter", 300);
    rep.floor("reference_class_decay", 100);
    rep.floor("reference_class_expired", 100);
    rep.floor("reference_class_reset", 100);
    rep.floor("major_swaps", 300);
    rep.floor("minor_swaps", 300);
    rep.floor("swaps_in_saturated_range", 100);
    rep.floor("swaps_before_trade_enable", 30);
    rep.floor("reference_class_reset_masked_by_major_swap", 20);
    rep.finish()
}

/// Directed bundle scenario: all 256 indexes of a bundle opened (the count of open positions leaves a byte),
/// deletion attempted at 256, 255, 1 and 0 open positions; every step goes through the C18 monitor.
fn c18_full_bundle(seed: u64) -> Acc {
    use crate::ix::build as b;
    use crate::monitors::c18::C18;
    use crate::world::*;
    use solana_program::system_program;
    let mut acc = Acc::default();
    let mut mon = C18;
    let mut w = World::new(crate::rnd::rng(seed));
    let c = w.add_config(300);
    let u = w.add_user();
    let (m1, m2) = (w.add_spl_mint(6), w.add_spl_mint(6));
    let Ok(p) = w.add_pool(c, m1, m2, 64, 3000, 1u128 << 64, false) else {
        acc.count("harness_errors");
        return acc;
    };
    let pool = w.pools[p].key;
    let ownerk = w.users[u].key;
    let mint = w.new_key();
    let ta = b::pda_associated_token(ownerk, mint, TOKEN).0;
    let bundle = b::pda_position_bundle(mint).0;
    let mut run = |w: &mut World, ix: crate::ix::Ix, acc: &mut Acc| -> bool {
        let o = w.exec(ix);
        acc.evaluations += 1;
        crate::hist::Monitor::after(&mut mon, w, &o, acc);
        o.ok()
    };
    if !run(&mut w, b::InitializePositionBundle { position_bundle: bundle, position_bundle_mint: mint, position_bundle_token_account: ta, position_bundle_owner: ownerk, funder: ADMIN, token_program: TOKEN, system_program: system_program::ID, rent: RENT_ID, associated_token_program: ATA }.ix(), &mut acc) {
        acc.count("harness_errors");
        return acc;
    }
    let delete = || b::DeletePositionBundle { position_bundle: bundle, position_bundle_mint: mint, position_bundle_token_account: ta, position_bundle_owner: ownerk, receiver: ownerk, token_program: TOKEN }.ix();
    let open = |idx: u16| b::OpenBundledPosition { bundled_position: b::pda_bundled_position_u16(mint, idx).0, position_bundle: bundle, position_bundle_token_account: ta, position_bundle_authority: ownerk, whirlpool: pool, funder: ADMIN, system_program: system_program::ID, rent: RENT_ID }.ix(idx, -640, 640);
    let close = |idx: u16| b::CloseBundledPosition { bundled_position: b::pda_bundled_position_u16(mint, idx).0, position_bundle: bundle, position_bundle_token_account: ta, position_bundle_authority: ownerk, receiver: ownerk }.ix(idx);
    let mut order: Vec<u16> = (0..256).collect();
    {
        use rand::seq::SliceRandom;
        order.shuffle(&mut w.r);
    }
    for (n, idx) in order.iter().enumerate() {
        if !run(&mut w, open(*idx), &mut acc) {
            acc.count("harness_errors");
        }
        if n == 0 || n == 127 || n == 254 || n == 255 {
            // the monitor flags a deletion that goes through while positions are open
            if !run(&mut w, delete(), &mut acc) {
                acc.count("full_bundle_delete_refusals");
            }
        }
    }
    acc.count("bundles_filled_completely");
    for (n, idx) in order.iter().enumerate() {
        if !run(&mut w, close(*idx), &mut acc) {
            acc.count("harness_errors");
        }
        if n == 0 || n == 128 || n == 254 {
            if !run(&mut w, delete(), &mut acc) {
                acc.count("full_bundle_delete_refusals");
            }
        }
    }
    if run(&mut w, delete(), &mut acc) {
        acc.count("empty_bundle_deleted");
    }
    acc
}

/// Directed re-range scenario: three rewards of which every subset emits (so that an idle slot sits in front of
/// an emitting one), a position earns, is emptied and paid out completely, and its range is reset; every step
/// goes through the C18 monitor (all checkpoints of a re-ranged position are zero).
fn c18_reset_after_rewards(seed: u64) -> Acc {
    use crate::ix::build as b;
    use crate::monitors::c18::C18;
    use crate::world::*;
    use solana_program::system_program;
    let mut acc = Acc::default();
    let mut mon = C18;
    for mask in 0..8u32 {
        let mut w = World::new(crate::rnd::rng(seed ^ mask as u64));
        let c = w.add_config(300);
        let u = w.add_user();
        let (m1, m2) = (w.add_spl_mint(6), w.add_spl_mint(6));
        let Ok(p) = w.add_pool(c, m1, m2, 64, 3000, 1u128 << 64, false) else {
            acc.count("harness_errors");
            continue;
        };
        let mut run = |w: &mut World, ix: crate::ix::Ix, acc: &mut Acc| -> bool {
            let o = w.exec(ix);
            acc.evaluations += 1;
            crate::hist::Monitor::after(&mut mon, w, &o, acc);
            o.ok()
        };
        let mut ok = true;
        for k in 0..3u8 {
            let mint = w.add_spl_mint(6);
            let (ix, vault) = w.init_reward_ix(p, k, mint);
            ok &= run(&mut w, ix, &mut acc);
            w.set_token_balance(vault, 1_000_000_000_000);
            w.pools[p].rewards.push((mint, vault));
        }
        for k in 0..3u8 {
            if mask & (1 << k) != 0 {
                let ix = w.set_emissions_ix(p, k, (k as u128 + 1) << 64);
                ok &= run(&mut w, ix, &mut acc);
            }
        }
        w.ensure_tick_array(p, -128, mask & 1 == 0);
        w.ensure_tick_array(p, 128, mask & 1 == 0);
        let (ix, info) = w.open_position_ix(p, u, -128, 128, mask & 2 == 0);
        ok &= run(&mut w, ix, &mut acc);
        w.positions.push(info.clone());
        let i = w.positions.len() - 1;
        let ix = w.modify_v2(i).increase_liquidity_v2(1_000_000, u64::MAX, u64::MAX, None);
        ok &= run(&mut w, ix, &mut acc);
        w.advance_clock(100);
        let ix = w.swap_ix(p, u, 5_000, 0, 0, true, true, true);
        ok &= run(&mut w, ix, &mut acc);
        w.advance_clock(50);
        let ix = w.update_fees_ix(i);
        ok &= run(&mut w, ix, &mut acc);
        let ix = w.modify_v1(i).decrease_liquidity(1_000_000, 0, 0);
        ok &= run(&mut w, ix, &mut acc);
        let ix = w.collect_fees_ix(i, mask & 4 == 0);
        ok &= run(&mut w, ix, &mut acc);
        for k in 0..3u8 {
            let ix = w.collect_reward_ix(i, k);
            ok &= run(&mut w, ix, &mut acc);
        }
        let pre = w.bank.data(&info.position).and_then(crate::codec::Position::decode).unwrap_or_default();
        let nonzero: Vec<bool> = pre.reward_infos.iter().map(|r| r.growth_inside_checkpoint != 0).collect();
        let ix = b::ResetPositionRange { funder: ADMIN, position_authority: w.users[u].key, whirlpool: w.pools[p].key, position: info.position, position_token_account: info.token_account, system_program: system_program::ID }.ix(256, 512);
        let reset_ok = run(&mut w, ix, &mut acc);
        acc.situation(format!("directed_reset:emitting_mask_{mask}:checkpoints_before_{nonzero:?}:{reset_ok}"));
        if ok && reset_ok {
            acc.count("directed_resets_after_rewards");
            if nonzero.iter().enumerate().any(|(k, nz)| *nz && nonzero[..k].iter().any(|e| !*e)) {
                acc.count("directed_resets_with_idle_slot_in_front");
            }
        } else {
            acc.notes.push(format!("HARNESS-ERROR directed reset scenario (mask {mask}) did not run to the end"));
            acc.count("harness_errors");
        }
    }
    acc
}

/// Directed close scenario: a position that is "almost empty" - its liquidity removed and everything paid out EXCEPT one
/// thing (fees of token A, fees of token B, reward 0, reward 1, reward 2), or holding a liquidity that is an exact
/// multiple of 2^64 - is offered to the close instruction of its kind (plain and token-extensions). Each must be
/// refused; every step goes through the C18 monitor (`closed_non_empty`).
fn c18_close_with_one_thing_left(seed: u64) -> Acc {
    use crate::monitors::c18::C18;
    use crate::world::*;
    let mut acc = Acc::default();
    let mut mon = C18;
    for token_ext in [true, false] {
        for left in 0..6usize {
            let mut w = World::new(crate::rnd::rng(seed ^ (left as u64) << 4 ^ token_ext as u64));
            let c = w.add_config(300);
            let u = w.add_user();
            let (m1, m2) = (w.add_spl_mint(6), w.add_spl_mint(6));
            let Ok(p) = w.add_pool(c, m1, m2, 64, 3000, 1u128 << 64, false) else {
                acc.count("harness_errors");
                continue;
            };
            let mut run = |w: &mut World, ix: crate::ix::Ix, acc: &mut Acc| -> bool {
                let o = w.exec(ix);
                acc.evaluations += 1;
                Monitor::after(&mut mon, w, &o, acc);
                o.ok()
            };
            let mut ok = true;
            for t in [-5632, 0] {
                w.ensure_tick_array(p, t, false);
            }
            for k in 0..3u8 {
                let mint = w.add_spl_mint(6);
                let (ix, vault) = w.init_reward_ix(p, k, mint);
                ok &= run(&mut w, ix, &mut acc);
                w.set_token_balance(vault, 1_000_000_000_000);
                w.pools[p].rewards.push((mint, vault));
                let ix = w.set_emissions_ix(p, k, 5u128 << 64);
                ok &= run(&mut w, ix, &mut acc);
            }
            // Q keeps the pool liquid, P is the position under test
            let mut idx = vec![];
            for te in [false, token_ext] {
                let (ix, info) = w.open_position_ix(p, u, -1280, 1280, te);
                ok &= run(&mut w, ix, &mut acc);
                w.positions.push(info);
                let i = w.positions.len() - 1;
                idx.push(i);
                let ix = w.modify_v2(i).increase_liquidity_v2(if left == 5 { 1u128 << 64 } else { 1_000_000_000 }, u64::MAX, u64::MAX, None);
                ok &= run(&mut w, ix, &mut acc);
            }
            let pi = idx[1];
            if left < 5 {
                for a_to_b in [true, false, true, false] {
                    let ix = w.swap_ix(p, u, 50_000_000, 0, 0, true, a_to_b, true);
                    ok &= run(&mut w, ix, &mut acc);
                }
                w.advance_clock(500);
                let ix = w.update_fees_ix(pi);
                ok &= run(&mut w, ix, &mut acc);
                let l = w.bank.data(&w.positions[pi].position).and_then(crate::codec::Position::decode).map(|x| x.liquidity).unwrap_or(0);
                let ix = w.modify_v2(pi).decrease_liquidity_v2(l, 0, 0, None);
                ok &= run(&mut w, ix, &mut acc);
                // pay out everything except the one thing that stays: fees are collected together, so to leave exactly one
                // fee token the other one is zeroed in the account (the program's own arithmetic is not involved in that)
                if left >= 2 {
                    let ix = w.collect_fees_ix(pi, true);
                    ok &= run(&mut w, ix, &mut acc);
                } else {
                    let posk = w.positions[pi].position;
                    if let Some(mut a) = w.bank.get(&posk).cloned() {
                        // Position layout: disc 8, whirlpool 32, mint 32, liquidity 16, ticks 8, checkpoint_a 16, fee_owed_a 8, checkpoint_b 16, fee_owed_b 8
                        let off = if left == 0 { 8 + 32 + 32 + 16 + 8 + 16 + 8 + 16 } else { 8 + 32 + 32 + 16 + 8 + 16 };
                        a.data[off..off + 8].copy_from_slice(&0u64.to_le_bytes());
                        w.bank.set(posk, a);
                    }
                }
                for k in 0..3u8 {
                    if left >= 2 && (left - 2) as u8 == k {
                        continue;
                    }
                    let ix = w.collect_reward_ix(pi, k);
                    ok &= run(&mut w, ix, &mut acc);
                }
            }
            let pp = w.bank.data(&w.positions[pi].position).and_then(crate::codec::Position::decode).unwrap_or_default();
            let leftover = (pp.liquidity, pp.fee_owed_a, pp.fee_owed_b, [pp.reward_infos[0].amount_owed, pp.reward_infos[1].amount_owed, pp.reward_infos[2].amount_owed]);
            let ix = w.close_position_ix(pi);
            let closed = run(&mut w, ix, &mut acc);
            acc.situation(format!("close_with_one_thing_left:{}:{}:{}", if token_ext { "token_extensions" } else { "plain" }, ["fee_a", "fee_b", "reward_0", "reward_1", "reward_2", "liquidity_2^64"][left], if closed { "closed" } else { "refused" }));
            if ok {
                acc.count("directed_closes_with_one_thing_left");
                let n = (leftover.0 > 0) as u32 + (leftover.1 > 0) as u32 + (leftover.2 > 0) as u32 + leftover.3.iter().filter(|x| **x > 0).count() as u32;
                if n == 1 {
                    acc.count("directed_closes_with_exactly_one_thing_left");
                }
            } else {
                acc.notes.push(format!("HARNESS-ERROR directed close scenario (left {left}, token_ext {token_ext}) did not run to the end"));
                acc.count("harness_errors");
            }
        }
    }
    acc
}

pub fn c18(tier: Tier, seed: u64) -> i32 {
    use crate::monitors::c18::C18;
    let mut rep = Report::new("C18", tier, seed);
    rep.rule = "directed scenario: one bundle filled to all 256 indexes in random order with deletion attempted at 1, 128, 255, 256 open positions and again while emptying it; history workload with lifecycle operations up-weighted (open x3 flavours + bundled incl. bounds left to be derived from the price, both sentinels, wrong-side sentinels; increase/decrease/collect; close x3; reset range incl. same / inverted / unaligned ranges; reposition; lock; transfer-locked; bundles at all 256 indexes and 256; delete bundle): every lifecycle instruction is judged on decoded pre/post state by rules taken from the statement: one position token, no mint authority, valid range, derived bounds equal the model's nearest usable tick on one side of the price, close only when empty and not locked, re-range only when empty (reset) to a different valid range with checkpoints reset, owed amounts survive reposition, locked positions reject decrease/close/reset/reposition but still accept increase/collect (differential against the same state unfrozen), only positions with liquidity lock, bundle bitmap == open bundled positions found in the bank, bundle deletion only when none is open. distinct = (instruction, outcome, predicate values)".into();
    rep.assumptions = vec![SVM_ASSUMPTION.into(), "the Metaplex metadata CPI of *_with_metadata runs against a recording stub".into()];
    let per_shard = tier.pick(64, 1600);
    let acc = run_histories(
        seed,
        per_shard,
        move |_r| HistCfg { ops: 150, spl_only: false, lifecycle_ext: true, allow_adaptive: true, w_swap: 20, w_liq: 22, w_fees: 8, w_lifecycle: 45, w_clock: 2, w_setters: 1, w_reward: 4, ..Default::default() },
        || vec![Box::new(C18) as Box<dyn Monitor>],
    );
    let mut acc = acc;
    acc.merge(c18_full_bundle(seed ^ 0x18));
    acc.merge(c18_reset_after_rewards(seed ^ 0x1818));
    acc.merge(c18_close_with_one_thing_left(seed ^ 0xc105e));
    rep.acc = acc;
    rep.floor("bundles_filled_completely", 1);
    rep.floor("directed_resets_after_rewards", 8);
    rep.floor("directed_closes_with_one_thing_left", 12);
    rep.floor("directed_closes_with_exactly_one_thing_left", 8);
    rep.floor("directed_resets_with_idle_slot_in_front", 3);
    rep.floor("full_bundle_delete_refusals", 7);
    rep.floor("empty_bundle_deleted", 1);
    rep.floor("opens_seen", 3000);
    rep.floor("opens_with_derived_bound", 300);
    rep.floor("closes_ok", 300);
    rep.floor("closes_rejected_non_empty", 100);
    rep.floor("locks_ok", 100);
    rep.floor("forbidden_ops_on_locked", 50);
    rep.floor("allowed_ops_on_locked_ok", 30);
    rep.floor("reranges_ok", 200);
    rep.floor("bundle_bitmap_checks", 200);
    rep.floor("bundle_deletes_seen", 30);
    rep.finish()
}
