//! C02 A swap step is priced on the exact curve, rounded only in the pool's favour.
use crate::codec::*;
use crate::model::*;
use crate::report::*;
use crate::rnd::{self, R};
use num_bigint::{BigInt, BigUint};
use num_traits::Zero;
use rand::Rng;
use serde_json::json;
use whirlpool::math::{compute_swap, sqrt_price_from_tick_index, tick_index_from_sqrt_price};

#[derive(Clone, Debug)]
pub struct StepIn {
    pub amount: u64,
    pub rate: u32,
    pub liquidity: u128,
    pub p0: u128,
    pub pt: u128,
    pub exact_in: bool,
    pub a_to_b: bool,
}
#[derive(Clone, Debug)]
pub struct StepOut {
    pub amount_in: u64,
    pub amount_out: u64,
    pub next_price: u128,
    pub fee_amount: u64,
}

pub fn step_json(i: &StepIn, o: Option<&StepOut>) -> serde_json::Value {
    json!({
        "amount": i.amount, "fee_rate": i.rate, "liquidity": i.liquidity.to_string(),
        "sqrt_price_current": i.p0.to_string(), "sqrt_price_target": i.pt.to_string(),
        "amount_specified_is_input": i.exact_in, "a_to_b": i.a_to_b,
        "result": o.map(|o| json!({"amount_in": o.amount_in, "amount_out": o.amount_out, "next_price": o.next_price.to_string(), "fee_amount": o.fee_amount})),
    })
}

/// The C02 oracle for one successful step. Returns (signature, detail) on violation.
pub fn check_step(i: &StepIn, o: &StepOut) -> Option<(String, String)> {
    let (p0, pt, p1, l) = (i.p0, i.pt, o.next_price, i.liquidity);
    let tag = format!(
        "{}:{}",
        if i.exact_in { "exact_in" } else { "exact_out" },
        if i.a_to_b { "a_to_b" } else { "b_to_a" }
    );
    // 1. direction and target
    let within = if i.a_to_b { pt <= p1 && p1 <= p0 } else { p0 <= p1 && p1 <= pt };
    if !within {
        return Some((format!("step:{tag}:price_outside_segment"), format!("next_price {p1} not between current {p0} and target {pt}")));
    }
    // 2. amounts on the exact curve
    let (x_in_ceil, x_out_floor) = if i.a_to_b {
        (amount_a(p0, p1, l, true), amount_b(p0, p1, l, false))
    } else {
        (amount_b(p0, p1, l, true), amount_a(p0, p1, l, false))
    };
    if BigUint::from(o.amount_in) != x_in_ceil {
        return Some((format!("step:{tag}:amount_in"), format!("amount_in {} != ceil(exact input for the move {p0}->{p1}) = {x_in_ceil}", o.amount_in)));
    }
    let out_ok = if BigUint::from(o.amount_out) == x_out_floor {
        true
    } else {
        !i.exact_in && x_out_floor > BigUint::from(i.amount) && o.amount_out == i.amount
    };
    if !out_ok {
        return Some((format!("step:{tag}:amount_out"), format!("amount_out {} != floor(exact output for the move {p0}->{p1}) = {x_out_floor} (requested {})", o.amount_out, i.amount)));
    }
    if !i.exact_in && o.amount_out > i.amount {
        return Some((format!("step:{tag}:amount_out_exceeds_request"), format!("amount_out {} > requested {}", o.amount_out, i.amount)));
    }
    // budget available to move the price
    let budget: u64 = if i.exact_in {
        to_u64(&(bu(i.amount as u128) * bu(1_000_000 - i.rate as u128) / bu(1_000_000))).unwrap()
    } else {
        i.amount
    };
    let fixing_a = i.exact_in == i.a_to_b;
    // exact price the budget reaches, rounded to the safe side (None: pool side exhausted / below zero)
    let formula: Option<BigInt> = if fixing_a {
        next_price_from_a(p0, l, budget, i.exact_in).map(BigInt::from)
    } else {
        next_price_from_b(p0, l, budget, i.exact_in)
    };
    let fee_formula = fee_on_input(o.amount_in, i.rate);
    if p1 != pt {
        // 3. stopped short of the target
        if i.exact_in {
            if o.amount_in as u128 + o.fee_amount as u128 != i.amount as u128 {
                return Some((format!("step:{tag}:partial_budget_not_consumed"), format!("stopped at {p1} short of target {pt} but in {} + fee {} != amount {}", o.amount_in, o.fee_amount, i.amount)));
            }
        } else if o.amount_out != i.amount {
            return Some((format!("step:{tag}:partial_output_not_delivered"), format!("stopped at {p1} short of target {pt} but out {} != requested {}", o.amount_out, i.amount)));
        }
        match &formula {
            Some(f) if *f == BigInt::from(p1) => {}
            other => {
                return Some((format!("step:{tag}:next_price"), format!("next_price {p1} != price reached by budget {budget} (safe-side rounded exact value {:?})", other.as_ref().map(|x| x.to_string()))));
            }
        }
    } else {
        // 4. reached the target
        if i.exact_in && o.amount_in as u128 + o.fee_amount as u128 > i.amount as u128 {
            return Some((format!("step:{tag}:overspent"), format!("in {} + fee {} > amount {}", o.amount_in, o.fee_amount, i.amount)));
        }
        if BigUint::from(o.fee_amount) != fee_formula {
            return Some((format!("step:{tag}:fee"), format!("fee {} != ceil(in*rate/(1e6-rate)) = {fee_formula} (in {}, rate {})", o.fee_amount, o.amount_in, i.rate)));
        }
        // exact-out: reaching the target is justified when the whole segment yields no more than
        // the request (in token units); otherwise the target must be exactly the safe-side
        // rounded price that delivers the request (the output is then capped to the request)
        if !i.exact_in && x_out_floor > BigUint::from(i.amount) {
            match &formula {
                Some(f) if *f == BigInt::from(pt) => {}
                other => {
                    return Some((format!("step:{tag}:moved_past_request"), format!("reached target {pt} whose exact output {x_out_floor} exceeds the request {} although the request only needs price {:?}", i.amount, other.as_ref().map(|x| x.to_string()))));
                }
            }
        }
    }
    if x_in_ceil.is_zero() && o.amount_out > 0 {
        return Some((format!("step:{tag}:free_output"), format!("output {} for zero input", o.amount_out)));
    }
    None
}

pub fn gen_case(r: &mut R) -> StepIn {
    let liquidity = match r.gen_range(0..20) {
        0 => 0,
        1 => 1,
        2 => u128::MAX,
        3 => u64::MAX as u128,
        _ => rnd::log_u128(r, 128),
    };
    let p0 = rnd::sqrt_price(r);
    let pt = match r.gen_range(0..10) {
        0 => p0,
        1 => p0.saturating_add(1),
        2 => p0.saturating_sub(1),
        3 => p0.saturating_add(1u128 << r.gen_range(0..90)),
        4 => p0.saturating_sub(1u128 << r.gen_range(0..90)),
        5 | 6 => {
            // one tick / a few ticks away
            let t = tick_index_from_sqrt_price(&p0);
            let d = if r.gen() { 1 } else { r.gen_range(1..300) };
            let t2 = if r.gen() { t + d } else { t - d };
            sqrt_price_from_tick_index(t2.clamp(MIN_TICK_INDEX, MAX_TICK_INDEX))
        }
        7 => {
            if r.gen() { MIN_SQRT_PRICE_X64 } else { MAX_SQRT_PRICE_X64 }
        }
        _ => rnd::sqrt_price(r),
    }
    .clamp(MIN_SQRT_PRICE_X64, MAX_SQRT_PRICE_X64);
    // one case in ten: the liquidity at which the whole segment costs 2^64 +- a little in token A or in
    // token B (the 64-bit boundary of the amount functions, with and without a remainder)
    let liquidity = if pt != p0 && r.gen_range(0..10) == 0 {
        let dp = bu(p0.abs_diff(pt));
        let l = if r.gen() { (bu(p0) * bu(pt)) / &dp } else { (BigUint::from(1u8) << 128) / &dp };
        match num_traits::ToPrimitive::to_u128(&l) {
            Some(l) => match r.gen_range(0..6) {
                0 => l,
                1 => l.saturating_add(1),
                2 => l.saturating_sub(1),
                3 => l.saturating_add(r.gen_range(0..1u128 << 20)),
                4 => l.saturating_sub(r.gen_range(0..1u128 << 20)),
                _ => l / 2,
            },
            None => liquidity,
        }
    } else {
        liquidity
    };
    let a_to_b = if pt == p0 { r.gen() } else { pt < p0 };
    let exact_in: bool = r.gen();
    let rate: u32 = match r.gen_range(0..10) {
        0 => 0,
        1 => 1,
        2 => 60_000,
        3 => 100_000,
        4 => 3000,
        5 => 100,
        _ => r.gen_range(0..=100_000),
    };
    let amount = match r.gen_range(0..10) {
        0 => 1,
        1 => u64::MAX,
        2 | 3 | 4 => {
            // the segment's cost +-1 (gross for exact-in)
            let cost = if exact_in == a_to_b {
                amount_a(p0, pt, liquidity, exact_in)
            } else {
                amount_b(p0, pt, liquidity, exact_in)
            };
            let gross = if exact_in {
                div_ceil(&(cost * bu(1_000_000)), &bu(1_000_000 - rate as u128))
            } else {
                cost
            };
            let g = to_u64(&gross).unwrap_or(u64::MAX);
            match r.gen_range(0..5) {
                0 => g.saturating_sub(1),
                1 => g,
                2 => g.saturating_add(1),
                3 => g.saturating_sub(2),
                _ => g.saturating_add(2),
            }
            .max(1)
        }
        _ => rnd::hostile_u64(r).max(1),
    };
    StepIn { amount, rate, liquidity, p0, pt, exact_in, a_to_b }
}

pub fn run(tier: Tier, seed: u64) -> i32 {
    let mut rep = Report::new("C02", tier, seed);
    rep.rule = "random compute_swap inputs (liquidity log-uniform over all 128 bit lengths, prices log-uniform in bounds + MIN/MAX/+-1/+-2^k/one-tick/far targets, one case in ten with the liquidity at which the segment costs 2^64 +- a little in token A or B, fee rates incl. 0,1,60000,100000, amounts incl. the exact segment cost +-1,2 and u64::MAX); every Ok result checked against exact rational curve amounts, safe-side price rounding, budget consumption and fee formula. distinct = (mode, direction, liquidity bit-length/8, outcome: target/partial/error-kind, price path, fee class)".into();
    rep.assumptions = vec![
        "errors returned by the program are not constrained (only successful computations are)".into(),
        "native build with overflow-checks=false (release profile of /repo)".into(),
    ];
    let n: u64 = tier.pick(16_000_000, 400_000_000);
    let shards = 16;
    let acc = run_shards(shards, seed, move |_shard, s| {
        let mut r = rnd::rng(s);
        let mut acc = Acc::default();
        for k in 0..n / shards as u64 {
            let c = gen_case(&mut r);
            // a panic inside the program aborts the transaction on chain: an unsuccessful computation, which the
            // property does not constrain; it is counted and a sample is kept as an observation
            let res = match crate::svm::quiet_catch(|| compute_swap(c.amount, c.rate, c.liquidity, c.p0, c.pt, c.exact_in, c.a_to_b)) {
                Ok(r) => r,
                Err(msg) => {
                    acc.evaluations += 1;
                    acc.count("program_panicked");
                    if acc.get("program_panicked") <= 1 && _shard < 3 {
                        acc.notes.push(format!("OBSERVATION compute_swap panicked ({msg}) on {}", step_json(&c, None)));
                    }
                    continue;
                }
            };
            acc.evaluations += 1;
            let lb = rnd::bitlen(c.liquidity) / 8;
            let fc = match c.rate { 0 => "r0", 1..=59_999 => "rmid", 60_000 => "r6", 100_000 => "r10", _ => "rhi" };
            match res {
                Ok(o) => {
                    let o = StepOut { amount_in: o.amount_in, amount_out: o.amount_out, next_price: o.next_price, fee_amount: o.fee_amount };
                    let outcome = if c.p0 == c.pt { "degenerate" } else if o.next_price == c.pt { "target" } else if o.next_price == c.p0 { "nomove" } else { "partial" };
                    acc.count(&format!("ok_{outcome}"));
                    acc.count("ok");
                    acc.situation(format!("{}:{}:L{}:{}:{}", c.exact_in, c.a_to_b, lb, outcome, fc));
                    if let Some((sig, detail)) = check_step(&c, &o) {
                        acc.violation(sig, detail, step_json(&c, Some(&o)));
                    }
                    if k < 3 {
                        acc.sample(step_json(&c, Some(&o)));
                    }
                }
                Err(e) => {
                    acc.count("err");
                    acc.situation(format!("{}:{}:L{}:err{}:{}", c.exact_in, c.a_to_b, lb, e as u32, fc));
                }
            }
        }
        acc
    });
    rep.acc = acc;
    rep.floor("ok_target", 100_000);
    rep.floor("ok_partial", 100_000);
    rep.finish()
}
