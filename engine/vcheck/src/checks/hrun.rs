//! Shared driver for the history-workload (H) based checks.
use crate::hist::{Hist, HistCfg, Monitor};
use crate::report::*;
use crate::rnd;
use crate::world::World;
use serde_json::json;

pub type MonitorFactory = dyn Fn() -> Vec<Box<dyn Monitor>> + Send + Sync;

/// Run `histories` histories per shard on 16 shards.
pub fn run_histories(
    seed: u64,
    histories_per_shard: usize,
    cfg_of: impl Fn(&mut rnd::R) -> HistCfg + Send + Sync + 'static,
    monitors: impl Fn() -> Vec<Box<dyn Monitor>> + Send + Sync + 'static,
) -> Acc {
    run_shards(16, seed, move |shard, s| {
        let mut acc = Acc::default();
        for h in 0..histories_per_shard {
            let hseed = splitmix(s ^ (h as u64).wrapping_mul(0xA24B_AED4_963E_E407));
            let mut r = rnd::rng(hseed);
            let cfg = cfg_of(&mut r);
            // one history whose SET-UP the tree under test refuses (a harness `must` failing) is abandoned and counted;
            // it must not take the other histories of the shard - and what their monitors would see - with it
            let one = crate::svm::quiet_catch(|| {
                let mut w = World::new(r);
                let mut mons = monitors();
                let before = acc.violations.len();
                let mut hist = Hist::scenario(&mut w, &cfg, &mut mons);
                hist.run(&mut w, &mut mons, &mut acc);
                acc.count("histories");
                acc.add("svm_panics_contained", w.svm.panics);
                // attach the history to violations raised during it
                let rv = hist.replay_value(&w, hseed);
                for v in acc.violations[before..].iter_mut() {
                    v.replay = json!({"history": rv, "at": v.replay});
                }
                if shard == 0 && h == 0 {
                    let n = hist.log.entries.len();
                    acc.sample(json!({"history_seed": hseed, "scenario": hist.scenario, "ops": n, "first_ops": hist.log.entries.iter().take(6).collect::<Vec<_>>() }));
                }
            });
            if let Err(m) = one {
                acc.count("histories_abandoned_on_a_harness_panic");
                if acc.notes.len() < 3 {
                    acc.notes.push(format!("history {hseed} abandoned: {}", m.chars().take(240).collect::<String>()));
                }
            }
        }
        acc
    })
}
