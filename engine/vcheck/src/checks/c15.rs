//! C15 Instructions act only on accounts that belong to the pool they name.
//! Enumeration: every bound account slot of every fund-moving instruction x every well-formed
//! account of the same kind that belongs to something else.
use crate::catalog::*;
use crate::codec;
use crate::ix::build as b;
use crate::ix::Ix;
use crate::report::*;
use crate::svm::{self, Acct, Bank};
use crate::world::*;
use serde_json::json;
use solana_program::pubkey::Pubkey;

#[derive(Clone, Debug, PartialEq, Eq)]
enum Kind {
    Pool,
    Position,
    TickArray(Pubkey), // pool
    Oracle,
    Config,
    ConfigExtension,
    FeeTier,
    AdaptiveFeeTier,
    TokenBadge,
    LockConfig,
    PositionBundle,
    Mint,
    TokenAccount(Pubkey), // mint
    Program,
    Other,
}

fn kind_of(a: &Acct) -> Kind {
    if a.executable {
        return Kind::Program;
    }
    if a.owner == whirlpool::ID {
        let d = &a.data;
        if codec::Pool::is(d) {
            return Kind::Pool;
        }
        if codec::Position::is(d) {
            return Kind::Position;
        }
        if let Some(Ok(t)) = codec::TickArray::decode(d) {
            return Kind::TickArray(t.whirlpool);
        }
        if codec::Oracle::is(d) {
            return Kind::Oracle;
        }
        if codec::Config::decode(d).is_some() {
            return Kind::Config;
        }
        if codec::ConfigExtension::decode(d).is_some() {
            return Kind::ConfigExtension;
        }
        if codec::FeeTier::decode(d).is_some() {
            return Kind::FeeTier;
        }
        if codec::AdaptiveFeeTier::decode(d).is_some() {
            return Kind::AdaptiveFeeTier;
        }
        if codec::TokenBadge::decode(d).is_some() {
            return Kind::TokenBadge;
        }
        if codec::LockConfig::decode(d).is_some() {
            return Kind::LockConfig;
        }
        if codec::PositionBundle::decode(d).is_some() {
            return Kind::PositionBundle;
        }
        return Kind::Other;
    }
    if a.owner == TOKEN || a.owner == TOKEN22 {
        if let Some(t) = codec::TokenAccount::decode(&a.data) {
            if a.data.len() == 165 || a.data.len() > 165 {
                if a.data.len() != 82 {
                    return Kind::TokenAccount(t.mint);
                }
            }
        }
        if codec::Mint::decode(&a.data).is_some() {
            return Kind::Mint;
        }
    }
    Kind::Other
}

/// Is substitution of this slot required to fail (the account must belong to the pool / mint /
/// position / index / program the instruction names)?
fn bound(slot: &str) -> bool {
    const EXACT: &[&str] = &[
        "whirlpool", "whirlpool_one", "whirlpool_two", "oracle", "oracle_one", "oracle_two", "position", "position_mint",
        "reward_mint", "reward_vault", "token_program", "token_program_a", "token_program_b", "token_program_input",
        "token_program_intermediate", "token_program_output", "reward_token_program", "token_2022_program", "memo_program",
        "system_program", "associated_token_program", "metadata_program", "whirlpools_config", "lock_config", "position_bundle",
        "bundled_position", "fee_tier", "adaptive_fee_tier", "token_mint_a", "token_mint_b", "token_mint_input",
        "token_mint_intermediate", "token_mint_output", "position_bundle_mint",
    ];
    EXACT.contains(&slot) || slot.starts_with("remaining_") || slot.starts_with("token_vault_") || slot.starts_with("tick_array_") || slot.starts_with("existing_tick_array_") || slot.starts_with("new_tick_array_")
}
/// user-owned token accounts: a substitute of another mint must fail, one of the same mint may pass
fn user_token_slot(slot: &str) -> bool {
    slot.starts_with("token_owner_account_") || slot == "reward_owner_account" || slot.starts_with("token_destination_") || slot == "destination_token_account"
}

pub fn extra_goldens(bs: &mut Base) -> Vec<Golden> {
    let mut v = vec![];
    let w = &mut bs.w;
    let trader = 2usize;
    let mut push = |name: &str, ix: Ix, pool: Option<usize>, position: Option<usize>| v.push(Golden { alts: vec![], name: name.into(), ix, auth: vec![], pool, position });
    for (p, label) in [(bs.p_a, "spl"), (bs.p_t, "t22"), (bs.p_ad, "adaptive"), (bs.p_a3, "spl128")] {
        if w.pool_is_spl(p) {
            let ix = w.swap_ix(p, trader, 1_000_000, 0, 0, true, true, false);
            push(&format!("swap[{label}]"), ix, Some(p), None);
        }
        let ix = w.swap_ix(p, trader, 1_000_000, u64::MAX, 0, false, false, true);
        push(&format!("swap_v2[{label}]"), ix, Some(p), None);
    }
    // swap_v2 with supplemental tick arrays: all three arrays of the path exist, two more arrays of the pool ride along
    for (p, label, a_to_b) in [(bs.p_a, "spl", true), (bs.p_a3, "spl128", false)] {
        let st = w.pool_state(p);
        let tia = 88 * st.tick_spacing as i32;
        let dir = if a_to_b { -1 } else { 1 };
        for k in 0..3 {
            w.ensure_tick_array(p, st.tick_current_index + dir * k * tia, k % 2 == 0);
        }
        let s1 = w.ensure_tick_array(p, st.tick_current_index - dir * tia, true);
        let s2 = w.ensure_tick_array(p, st.tick_current_index - dir * 2 * tia, false);
        let ix = w.swap_ix(p, trader, 1_000_000, 0, 0, true, a_to_b, true);
        push(&format!("swap_v2[{label}+supplemental]"), crate::monitors::c10::with_supplemental(&ix, &[s1, s2]), Some(p), None);
    }
    // two-hop through p_a and p_a2 (they share one mint)
    let route = crate::hist::Hist::two_hop_routes(w).into_iter().find(|r| r.0 == bs.p_a && r.1 == bs.p_a2).expect("two-hop route");
    let ix = w.two_hop_ix(bs.p_a, bs.p_a2, trader, 1_000_000, 0, true, route.2, route.3, 0, 0, false);
    push("two_hop_swap", ix, Some(bs.p_a), None);
    let ix = w.two_hop_ix(bs.p_a, bs.p_a2, trader, 1_000_000, 0, true, route.2, route.3, 0, 0, true);
    push("two_hop_swap_v2", ix, Some(bs.p_a), None);
    for i in [bs.pos_full, bs.te_full, bs.pos_a3, bs.pos_t] {
        push(&format!("update_fees_and_rewards[{i}]"), w.update_fees_ix(i), Some(w.positions[i].pool), Some(i));
    }
    // liquidity on the pool whose reward vaults hold the pool's own mints (p_a3)
    let i = bs.pos_a3;
    push("increase_liquidity[spl128]", w.modify_v1(i).increase_liquidity(1_000_000, u64::MAX, u64::MAX), Some(bs.p_a3), Some(i));
    push("decrease_liquidity[spl128]", w.modify_v1(i).decrease_liquidity(1_000_000, 0, 0), Some(bs.p_a3), Some(i));
    push("increase_liquidity_v2[spl128]", w.modify_v2(i).increase_liquidity_v2(1_000_000, u64::MAX, u64::MAX, None), Some(bs.p_a3), Some(i));
    push("decrease_liquidity_v2[spl128]", w.modify_v2(i).decrease_liquidity_v2(1_000_000, 0, 0, None), Some(bs.p_a3), Some(i));
    let ix = w.collect_fees_ix(i, false);
    push("collect_fees[spl128]", ix, Some(bs.p_a3), Some(i));
    let ix = w.collect_fees_ix(i, true);
    push("collect_fees_v2[spl128]", ix, Some(bs.p_a3), Some(i));
    let ix = w.collect_protocol_fees_ix(bs.p_a3, bs.other, false);
    push("collect_protocol_fees[spl128]", ix, Some(bs.p_a3), None);
    let ix = w.collect_protocol_fees_ix(bs.p_a3, bs.other, true);
    push("collect_protocol_fees_v2[spl128]", ix, Some(bs.p_a3), None);
    v
}

pub fn run(tier: Tier, seed: u64) -> i32 {
    let mut rep = Report::new("C15", tier, seed);
    rep.exhaustive = true;
    rep.level = "fault_enumeration";
    rep.rule = "enumeration: for every fund-moving instruction (swap x2, two-hop x2, increase x3, decrease x2, reposition, collect fees x2, collect reward x2, collect protocol fees x2, set-emissions x2, initialize reward x2, update-fees, close/reset/lock/transfer/bundle family, pool-level setters) a golden invocation that must succeed, then for every account slot that is bound by the property (pool, vaults, tick arrays, oracle, position, mints, reward vault, token/memo/system/ATA programs, config, lock config, bundle) every other account of the same kind found in the bank is substituted (supplemental tick arrays of swap_v2 included; vault <- every other token account of the same mint incl. other pools' vaults, the pool's own reward vaults and user accounts; tick array / oracle / position <- those of other pools; mint <- other mints; program <- other executables ...): the instruction must fail. User-owned token account slots are substituted with accounts of another mint (must fail). Every program slot is also given an attacker's program whose id shares the last byte (or the first two and last two bytes) with the expected one and whose CPI would succeed: must fail. Every token account / mint slot is also given a byte-identical twin owned by a program that is not a token program (random id; ids sharing the last byte with Token / Token-2022): must fail. Pair substitutions: position + its token account of a position in another pool (same owner), once holding liquidity and once empty (early-return paths for zero liquidity must not skip the pool check); second leg of a two-hop replaced by the first pool; a two-hop out and back through ONE pool whose two legs use disjoint tick arrays (price in the last slot of its array) must fail in v1 and v2, both modes. v1 instructions (increase, decrease, swap, collect fees, collect protocol fees) on a pool over two extension-less Token-2022 mints with either token program in the slot must fail. distinct = (instruction, slot, kind of substitute)".into();
    rep.assumptions = vec!["the bound/free classification of slots is written in the harness from the property statement".into(), "substitutes are the accounts present in the catalogue world (6 pools over shared and disjoint mints, 2 configs, reward vaults holding pool mints)".into()];
    let mut acc = Acc::default();
    let flavours = tier.pick(1, 3);
    for fl in 0..flavours {
        let mut bs = build_base(seed.wrapping_add(fl as u64 * 104729));
        // p_a3 gets reward vaults in its own token mints (a vault-like account the pool PDA signs for)
        {
            let (ma, mb) = (bs.w.pools[bs.p_a3].mint_a, bs.w.pools[bs.p_a3].mint_b);
            for (idx, mint) in [(1u8, mb), (2u8, ma)] {
                let (ix, vault) = bs.w.init_reward_ix(bs.p_a3, idx, mint);
                let o = bs.w.exec(ix);
                if o.ok() {
                    bs.w.set_token_balance(vault, 1 << 50);
                    bs.w.pools[bs.p_a3].rewards.push((mint, vault));
                } else {
                    acc.notes.push(format!("HARNESS-ERROR could not create reward vault in pool mint: {:?}", o.out.err));
                    acc.count("harness_errors");
                }
            }
        }
        let mut gs: Vec<Golden> = goldens(&mut bs).into_iter().filter(|g| g.pool.is_some() || g.position.is_some() || g.ix.slot("position_bundle").is_some()).collect();
        gs.extend(extra_goldens(&mut bs));
        let mut bank = bs.w.bank.clone();
        // forged twins of every token account / mint named by a golden: byte-identical data, but owned by a program that
        // is not a token program - a random id, and ids that share the last byte with Token / Token-2022 (loaders that
        // dispatch on one byte of the owner must still compare the whole id)
        let mut forged: std::collections::BTreeMap<Pubkey, Vec<(Pubkey, &'static str)>> = Default::default();
        for g in &gs {
            for m in &g.ix.metas {
                if forged.contains_key(&m.key) {
                    continue;
                }
                let Some(a) = bank.get(&m.key).cloned() else { continue };
                if !matches!(kind_of(&a), Kind::TokenAccount(_) | Kind::Mint) {
                    continue;
                }
                let mut twins = vec![];
                for (what, last) in [("not_owned_by_a_token_program", None), ("owner_shares_last_byte_with_token", Some(crate::world::TOKEN.to_bytes()[31])), ("owner_shares_last_byte_with_token_2022", Some(TOKEN22.to_bytes()[31]))] {
                    let mut owner: [u8; 32] = bs.w.new_key().to_bytes();
                    if let Some(b) = last {
                        owner[31] = b;
                    }
                    let k = bs.w.new_key();
                    bank.set(k, Acct { lamports: a.lamports, data: a.data.clone(), owner: Pubkey::new_from_array(owner), executable: false });
                    twins.push((k, what));
                }
                forged.insert(m.key, twins);
            }
        }
        // an attacker's own programs whose ids resemble the expected program's (same last byte, same first and last
        // byte): executable accounts; a CPI into them succeeds without doing anything
        let mut rogue: std::collections::BTreeMap<Pubkey, Vec<(Pubkey, &'static str)>> = Default::default();
        for g in &gs {
            for m in &g.ix.metas {
                if rogue.contains_key(&m.key) {
                    continue;
                }
                let Some(a) = bank.get(&m.key).cloned() else { continue };
                if !a.executable {
                    continue;
                }
                let genuine = m.key.to_bytes();
                let mut twins = vec![];
                for (what, keep) in [("program_id_shares_last_byte", vec![31usize]), ("program_id_shares_first_and_last_bytes", vec![0, 1, 30, 31])] {
                    let mut id: [u8; 32] = bs.w.new_key().to_bytes();
                    for i in keep {
                        id[i] = genuine[i];
                    }
                    let id = Pubkey::new_from_array(id);
                    bank.set(id, Acct { lamports: a.lamports, data: a.data.clone(), owner: a.owner, executable: true });
                    svm::register_rogue_program(id);
                    twins.push((id, what));
                }
                rogue.insert(m.key, twins);
            }
        }
        // index the bank by kind
        let all: Vec<(Pubkey, Kind)> = bank.accts.iter().map(|(k, a)| (*k, kind_of(a))).collect();
        for g in &gs {
            let (o, _) = bs.w.simulate(&bank, &g.ix);
            acc.evaluations += 1;
            if !o.ok() {
                acc.notes.push(format!("HARNESS-ERROR golden {} failed: {:?} {:?}", g.name, o.err, o.logs.iter().rev().take(3).collect::<Vec<_>>()));
                acc.count("harness_errors");
                continue;
            }
            acc.count("goldens_ok");
            if fl == 0 && acc.samples.len() < 3 {
                acc.sample(json!({"golden": g.name, "instruction": crate::hist::ix_brief(&g.ix)}));
            }
            let named_pool: Option<Pubkey> = g.ix.slot("whirlpool").or(g.ix.slot("whirlpool_one")).map(|i| g.ix.metas[i].key);
            // does the instruction carry other accounts that must belong to the named pool?
            let has_pool_bound_companions = g.ix.metas.iter().any(|m| m.name.starts_with("token_vault") || m.name.contains("tick_array") || m.name == "position" || m.name == "reward_vault" || m.name.starts_with("oracle"));
            let pool_config = |k: &Pubkey| bank.data(k).and_then(codec::Pool::decode).map(|p| p.whirlpools_config);
            let pool_of_position = |k: &Pubkey| bank.data(k).and_then(codec::Position::decode).map(|p| p.whirlpool);
            let mut subs: Vec<(String, String, Ix)> = vec![]; // (slot, what, ix)
            let mut seen_keys = vec![];
            for m in &g.ix.metas {
                if seen_keys.contains(&(m.name, m.key)) {
                    continue;
                }
                seen_keys.push((m.name, m.key));
                let Some(acct) = bank.get(&m.key) else { continue };
                let k = kind_of(acct);
                if let Some(twins) = rogue.get(&m.key) {
                    for (tk, what) in twins {
                        let mut i = g.ix.clone();
                        for x in i.metas.iter_mut() {
                            if x.name == m.name {
                                x.key = *tk;
                            }
                        }
                        subs.push((m.name.to_string(), format!("rogue_{what}"), i));
                    }
                }
                if let Some(twins) = forged.get(&m.key) {
                    for (tk, what) in twins {
                        let mut i = g.ix.clone();
                        for x in i.metas.iter_mut() {
                            if x.name == m.name {
                                x.key = *tk;
                            }
                        }
                        subs.push((m.name.to_string(), format!("token_account_or_mint_{what}"), i));
                    }
                }
                let is_bound = bound(m.name);
                let is_user_tok = user_token_slot(m.name);
                if !is_bound && !is_user_tok {
                    continue;
                }
                // when a reward is created its mint is the caller's free choice (the vault is created for it)
                if g.ix.name.starts_with("initialize_reward") && m.name == "reward_mint" {
                    continue;
                }
                for (ck, ckind) in &all {
                    if *ck == m.key || g.ix.metas.iter().any(|x| x.key == *ck && x.name == m.name) {
                        continue;
                    }
                    let what: Option<String> = match (&k, ckind) {
                        (Kind::TokenAccount(mint), Kind::TokenAccount(cm)) if is_bound => (mint == cm).then(|| "token_account_same_mint".to_string()).or_else(|| (m.name.starts_with("token_vault") || m.name == "reward_vault").then(|| "token_account_other_mint".to_string())),
                        (Kind::TokenAccount(mint), Kind::TokenAccount(cm)) if is_user_tok => (mint != cm).then(|| "user_account_wrong_mint".to_string()),
                        (Kind::TickArray(p), Kind::TickArray(cp)) => (p != cp).then(|| "tick_array_of_another_pool".to_string()),
                        // naming another pool is only wrong when companions of the original pool stay, or when
                        // the pool belongs to another deployment than the config named next to it
                        (Kind::Pool, Kind::Pool) => {
                            if has_pool_bound_companions {
                                Some("another_pool".into())
                            } else if g.ix.slot("whirlpools_config").is_some() && pool_config(ck) != pool_config(&m.key) {
                                Some("pool_of_another_config".into())
                            } else {
                                None
                            }
                        }
                        // (another position of the same pool is an authority question, C04)
                        (Kind::Position, Kind::Position) => (pool_of_position(ck) != pool_of_position(&m.key)).then(|| "position_of_another_pool".to_string()),
                        (Kind::Oracle, Kind::Oracle) => Some("oracle_of_another_pool".into()),
                        (Kind::Mint, Kind::Mint) if is_bound => Some("another_mint".into()),
                        (Kind::Program, Kind::Program) => Some("another_program".into()),
                        (Kind::Config, Kind::Config) => Some("another_config".into()),
                        (Kind::FeeTier, Kind::FeeTier) | (Kind::AdaptiveFeeTier, Kind::AdaptiveFeeTier) | (Kind::FeeTier, Kind::AdaptiveFeeTier) | (Kind::AdaptiveFeeTier, Kind::FeeTier) => Some("another_fee_tier".into()),
                        (Kind::LockConfig, Kind::LockConfig) => Some("another_lock_config".into()),
                        (Kind::PositionBundle, Kind::PositionBundle) => Some("another_bundle".into()),
                        _ => None,
                    };
                    let Some(what) = what else { continue };
                    // a position mint may also be replaced by any other mint; oracle slots of static pools hold no account
                    let mut i = g.ix.clone();
                    for x in i.metas.iter_mut() {
                        if x.name == m.name {
                            x.key = *ck;
                        }
                    }
                    subs.push((m.name.to_string(), what, i));
                }
                // oracle slot of a static pool (no account): the oracle of an adaptive pool
                let _ = named_pool;
            }
            // uninitialised oracle slots: substitute the real oracle of the adaptive pool
            for oslot in ["oracle", "oracle_one", "oracle_two"] {
                if let Some(i) = g.ix.slot(oslot) {
                    let real = bs.w.pools[bs.p_ad].oracle;
                    if g.ix.metas[i].key != real && bank.get(&g.ix.metas[i].key).is_none() {
                        subs.push((oslot.into(), "oracle_of_another_pool".into(), g.ix.clone().with_key(oslot, real)));
                    }
                }
            }
            // the oracle slot of an adaptive-fee pool names an address that holds nothing (for a static pool that is the
            // normal case; for an adaptive pool the oracle is part of the pool)
            for oslot in ["oracle", "oracle_one", "oracle_two"] {
                if let Some(i) = g.ix.slot(oslot) {
                    if bank.get(&g.ix.metas[i].key).map(|a| !a.data.is_empty()).unwrap_or(false) {
                        let fresh = bs.w.new_key();
                        subs.push((oslot.into(), "empty_account_for_the_oracle_of_an_adaptive_pool".into(), g.ix.clone().with_key(oslot, fresh)));
                    }
                }
            }
            // pair substitution: a position of another pool with its own token account (same owner)
            if let (Some(pi), Some(_)) = (g.position, named_pool) {
                let here = bs.w.positions[pi].pool;
                for alt in [bs.pos_full, bs.pos_a3, bs.pos_a2, bs.pos_b, bs.pos_t].into_iter().chain(bs.empty_foreign.iter().copied()) {
                    let ap = &bs.w.positions[alt];
                    let empty = bs.empty_foreign.contains(&alt);
                    if ap.pool == here || g.ix.slot("position").is_none() || g.ix.slot("position_token_account").is_none() {
                        continue;
                    }
                    let mut i = g.ix.clone().with_key("position", ap.position).with_key("position_token_account", ap.token_account);
                    if i.slot("position_mint").is_some() {
                        i = i.with_key("position_mint", ap.mint);
                    }
                    subs.push(("position+position_token_account".into(), if empty { "empty_position_of_another_pool_with_its_token" } else { "position_of_another_pool_with_its_token" }.into(), i));
                }
            }
            // pair substitution: another config together with ITS authority, while an object of the original
            // config (pool, tier, extension, badge) stays in the instruction
            if let Some(ci) = g.ix.slot("whirlpools_config") {
                let cb = bs.w.configs[bs.cfg_b].key;
                let bound = ["whirlpool", "adaptive_fee_tier", "fee_tier", "whirlpools_config_extension", "token_badge"].iter().any(|s| g.ix.slot(s).is_some());
                if bound && g.ix.metas[ci].key != cb {
                    for a in &g.auth {
                        if let crate::catalog::AuthKind::Setting { other: Some(o) } = &a.kind {
                            if g.ix.slot(a.slot).is_some() && g.ix.key(a.slot) != *o {
                                let i = g.ix.clone().with_key("whirlpools_config", cb).with_key(a.slot, *o);
                                subs.push((format!("whirlpools_config+{}", a.slot), "another_config_with_its_authority".into(), i));
                            }
                        }
                    }
                }
            }
            // pair substitution: the mint and the token account of ANOTHER bundle of the same holder, while the bundle
            // account named stays (a self-consistent pair that does not belong to the bundle)
            if let (Some(_), Some(mi), Some(_)) = (g.ix.slot("position_bundle"), g.ix.slot("position_bundle_mint"), g.ix.slot("position_bundle_token_account")) {
                for (m, t) in [(bs.bundle_mint, bs.bundle_token), (bs.empty_bundle_mint, bs.empty_bundle_token)] {
                    if g.ix.metas[mi].key != m {
                        subs.push(("position_bundle_mint+position_bundle_token_account".into(), "mint_and_token_account_of_another_bundle".into(), g.ix.clone().with_key("position_bundle_mint", m).with_key("position_bundle_token_account", t)));
                    }
                }
            }
            // two-hop: second leg replaced by the first pool
            if g.ix.name.starts_with("two_hop_swap") {
                let mut i = g.ix.clone();
                let p1 = i.key("whirlpool_one");
                i = i.with_key("whirlpool_two", p1);
                subs.push(("whirlpool_two".into(), "same_pool_twice".into(), i));
            }
            for (slot, what, ix) in subs {
                let (o, _) = bs.w.simulate(&bank, &ix);
                acc.evaluations += 1;
                acc.count("substitutions_run");
                acc.situation(format!("{}:{}:{}", g.ix.name, slot, what));
                if o.ok() {
                    acc.violation(
                        format!("c15:{}:{}:{}", g.ix.name, slot, what),
                        format!("{} succeeded although slot `{slot}` holds {what}", g.name),
                        json!({"golden": g.name, "slot": slot, "substitute": what, "instruction": crate::hist::ix_brief(&ix)}),
                    );
                } else {
                    acc.count("substitutions_rejected");
                    acc.count(&format!("rejected:{what}"));
                }
            }
        }
    }
    // ---- v1 instructions name exactly the Token program: over a Token-2022 pool they must fail whichever
    // token program the slot holds (the mints here carry no extension, so unchecked transfers would go through)
    {
        let mut bs = build_base(seed ^ 0x22);
        let bank = bs.w.bank.clone();
        let (p, i, u) = (bs.p_22, bs.pos_22, bs.owner);
        let mut probes: Vec<(&'static str, Ix)> = vec![];
        probes.push(("increase_liquidity", bs.w.modify_v1(i).increase_liquidity(1_000_000, u64::MAX, u64::MAX)));
        probes.push(("decrease_liquidity", bs.w.modify_v1(i).decrease_liquidity(1_000_000, 0, 0)));
        let pool = bs.w.pools[p].clone();
        let pi = bs.w.positions[i].clone();
        let cfg = bs.w.configs[pool.config].clone();
        let (oa, ob) = (bs.w.user_token(u, pool.mint_a), bs.w.user_token(u, pool.mint_b));
        let arrays = bs.w.swap_arrays(p, true);
        probes.push((
            "swap",
            b::Swap { token_program: crate::world::TOKEN, token_authority: bs.w.users[u].key, whirlpool: pool.key, token_owner_account_a: oa, token_vault_a: pool.vault_a, token_owner_account_b: ob, token_vault_b: pool.vault_b, tick_array_0: arrays[0], tick_array_1: arrays[1], tick_array_2: arrays[2], oracle: pool.oracle }
                .ix(1_000_000, 0, 0, true, true),
        ));
        probes.push((
            "collect_fees",
            b::CollectFees { whirlpool: pool.key, position_authority: bs.w.users[pi.owner].key, position: pi.position, position_token_account: pi.token_account, token_owner_account_a: oa, token_vault_a: pool.vault_a, token_owner_account_b: ob, token_vault_b: pool.vault_b, token_program: crate::world::TOKEN }.ix(),
        ));
        probes.push((
            "collect_protocol_fees",
            b::CollectProtocolFees { whirlpools_config: cfg.key, whirlpool: pool.key, collect_protocol_fees_authority: cfg.collect_protocol_fees_authority, token_vault_a: pool.vault_a, token_vault_b: pool.vault_b, token_destination_a: oa, token_destination_b: ob, token_program: crate::world::TOKEN }.ix(),
        ));
        for (n, ix) in probes {
            for (what, prog) in [("token_program", crate::world::TOKEN), ("token_2022_program", crate::world::TOKEN22)] {
                let vix = ix.clone().with_key("token_program", prog);
                let (o, _) = bs.w.simulate(&bank, &vix);
                acc.evaluations += 1;
                acc.situation(format!("v1_on_2022_pool:{n}:{what}"));
                if o.ok() {
                    acc.violation(format!("c15:{n}:token_program:v1_instruction_on_token2022_pool"), format!("{n} (v1) succeeded on a Token-2022 pool with the {what} in its token program slot"), json!({"instruction": crate::hist::ix_brief(&vix)}));
                } else {
                    acc.count("v1_on_token2022_pool_rejected");
                }
            }
        }
    }
    // ---- a two-hop that names the SAME pool for both legs, out and back (A -> B -> A), arranged so that the two legs
    // use disjoint tick arrays (the price sits in the last slot of its array: a-to-b reads [k, k-1, k-2], b-to-a
    // reads [k+1, k+2, k+3]) - nothing but the duplicate-pool rule stands in its way; with and without a control
    // that the same legs work as single swaps
    {
        let mut w = crate::world::World::new(crate::rnd::rng(seed ^ 0xd0b1e));
        let c = w.add_config(300);
        let (m1, m2) = (w.add_spl_mint(6), w.add_spl_mint(6));
        let u = w.add_user();
        for sp in [64u16, 8] {
            let tia = 88 * sp as i32;
            let t0 = 87 * sp as i32 + tia * 3;
            let Ok(p) = w.add_pool(c, m1, m2, sp, 3000, whirlpool::math::sqrt_price_from_tick_index(t0), false) else {
                acc.count("harness_errors");
                continue;
            };
            let (lo, hi) = (t0 - 87 * sp as i32 - 2 * tia, t0 - 87 * sp as i32 + 4 * tia);
            let (ix, info) = w.open_position_ix(p, u, lo, hi, false);
            if !w.exec(ix).ok() {
                acc.count("harness_errors");
                continue;
            }
            w.positions.push(info);
            let i = w.positions.len() - 1;
            for k in -2..=4 {
                w.ensure_tick_array(p, t0 - 87 * sp as i32 + k * tia, k % 2 == 0);
            }
            let ix = w.modify_v2(i).increase_liquidity_v2(50_000_000_000, u64::MAX, u64::MAX, None);
            if !w.exec(ix).ok() {
                acc.count("harness_errors");
                continue;
            }
            let bank = w.bank.clone();
            // control: each leg alone is an ordinary swap
            for dir in [true, false] {
                let ix = w.swap_ix(p, u, 100_000, 0, 0, true, dir, true);
                if w.simulate(&bank, &ix).0.ok() {
                    acc.count("same_pool_two_hop_control_legs_ok");
                }
            }
            for v2 in [false, true] {
                for (d1, d2) in [(true, false), (false, true)] {
                    for exact_in in [true, false] {
                        let ix = w.two_hop_ix(p, p, u, 100_000, if exact_in { 0 } else { u64::MAX }, exact_in, d1, d2, 0, 0, v2);
                        let (o, _) = w.simulate(&bank, &ix);
                        acc.evaluations += 1;
                        acc.situation(format!("same_pool_out_and_back:{v2}:{d1}:{exact_in}"));
                        if o.ok() {
                            acc.violation(format!("c15:{}:whirlpool_two:same_pool_out_and_back", ix.name), format!("{} succeeded with the same pool on both legs (a_to_b {d1} then {d2}, exact_in {exact_in}, disjoint tick arrays)", ix.name), json!({"instruction": crate::hist::ix_brief(&ix)}));
                        } else {
                            acc.count("same_pool_out_and_back_rejected");
                        }
                    }
                }
            }
        }
    }
    rep.acc = acc;
    rep.floor("same_pool_out_and_back_rejected", 8);
    rep.floor("same_pool_two_hop_control_legs_ok", 2);
    rep.floor("v1_on_token2022_pool_rejected", 10);
    rep.floor("goldens_ok", 60);
    rep.floor("substitutions_rejected", 3000);
    rep.floor("rejected:token_account_same_mint", 200);
    rep.floor("rejected:tick_array_of_another_pool", 200);
    rep.floor("rejected:another_pool", 100);
    rep.floor("rejected:position_of_another_pool_with_its_token", 30);
    rep.floor("rejected:empty_position_of_another_pool_with_its_token", 30);
    rep.floor("rejected:token_account_or_mint_owner_shares_last_byte_with_token_2022", 100);
    rep.floor("rejected:rogue_program_id_shares_last_byte", 100);
    rep.floor("rejected:another_program", 100);
    rep.floor("rejected:oracle_of_another_pool", 5);
    rep.finish()
}

#[allow(dead_code)]
fn unused(_: &Bank, _: b::Swap) {}
