//! Harness self-test: the real instruction path end to end.
use crate::rnd;
use crate::world::*;

pub fn run() -> i32 {
    let mut w = World::new(rnd::rng(1));
    let c = w.add_config(300);
    let m1 = w.add_spl_mint(6);
    let m2 = w.add_spl_mint(9);
    let u = w.add_user();
    let p = w.add_pool(c, m1, m2, 64, 3000, 1u128 << 64, false).map_err(|o| o.out.err).unwrap();
    println!("pool {:?}", w.pool_state(p).sqrt_price);
    w.ensure_tick_array(p, 0, false);
    w.ensure_tick_array(p, -64, true);
    let (ix, pi) = w.open_position_ix(p, u, -128, 128, false);
    let o = w.exec(ix);
    println!("open_position: {:?} logs {:?}", o.out.err, o.out.logs.len());
    w.positions.push(pi);
    let ix = w.modify_v1(0).increase_liquidity(1_000_000_000, u64::MAX, u64::MAX);
    let o = w.exec(ix);
    println!("increase: {:?} events {} hook {}", o.out.err, o.out.events.len(), o.out.hook.len());
    let st = w.pool_state(p);
    println!("liquidity {} vaults {} {}", st.liquidity, w.token_balance(&w.pools[p].vault_a), w.token_balance(&w.pools[p].vault_b));
    let ix = w.swap_ix(p, u, 100_000, 0, 0, true, true, false);
    let o = w.exec(ix);
    println!("swap: {:?} events {} hook {:?}", o.out.err, o.out.events.len(), o.out.hook);
    let ix = w.swap_ix(p, u, 100_000_000, 0, 0, true, false, true);
    let o = w.exec(ix);
    println!("swap_v2 big: {:?} hook steps {}", o.out.err, o.out.hook.len());
    let st = w.pool_state(p);
    println!("tick {} price {} liq {}", st.tick_current_index, st.sqrt_price, st.liquidity);
    let o = w.exec(w.update_fees_ix(0));
    println!("update_fees: {:?}", o.out.err);
    let ix = w.collect_fees_ix(0, false);
    let o = w.exec(ix);
    println!("collect_fees: {:?}", o.out.err);
    let ix = w.modify_v1(0).decrease_liquidity(1_000_000_000, 0, 0);
    let o = w.exec(ix);
    println!("decrease: {:?}", o.out.err);
    let ix = w.collect_protocol_fees_ix(p, u, false);
    let o = w.exec(ix);
    println!("collect_protocol: {:?}", o.out.err);
    let o = w.exec(w.close_position_ix(0));
    println!("close: {:?} {:?}", o.out.err, o.out.logs.last());
    println!("vaults {} {}", w.token_balance(&w.pools[p].vault_a), w.token_balance(&w.pools[p].vault_b));
    // token-2022 with transfer fee
    let t1 = w.add_t22_mint(6, Some(((100, 1000, 0), (250, 5_000_000, 5))));
    let t2 = w.add_t22_mint(6, None);
    let p2 = w.add_pool(c, t1, t2, 64, 3000, 1u128 << 64, true).map_err(|o| (o.out.err, o.out.logs)).unwrap();
    w.ensure_tick_array(p2, 0, true);
    w.ensure_tick_array(p2, -64, true);
    let (ix, pi) = w.open_position_ix(p2, u, -128, 128, true);
    let o = w.exec(ix);
    println!("open_position_te: {:?} {:?}", o.out.err, o.out.logs.iter().rev().take(3).collect::<Vec<_>>());
    w.positions.push(pi);
    let ix = w.modify_v2(1).increase_liquidity_v2(1_000_000_000, u64::MAX, u64::MAX, None);
    let o = w.exec(ix);
    println!("increase_v2: {:?} {:?}", o.out.err, o.out.logs.iter().rev().take(3).collect::<Vec<_>>());
    let ix = w.swap_ix(p2, u, 100_000, 0, 0, true, true, true);
    let o = w.exec(ix);
    println!("swap_v2 fee: {:?} events {} cpis {}", o.out.err, o.out.events.len(), o.out.cpis.len());
    println!("vaults {} {}", w.token_balance(&w.pools[p2].vault_a), w.token_balance(&w.pools[p2].vault_b));
    // contained panic: reward index 7
    let ix = crate::ix::build::SetRewardEmissions { whirlpool: w.pools[p].key, reward_authority: w.pools[p].reward_authority, reward_vault: w.pools[p].vault_a }.ix(7, 0);
    let o = w.exec(ix);
    println!("set_reward_emissions idx 7: {:?}", o.out.err);
    let ix = w.swap_ix(p, u, 100, 0, 0, true, true, false);
    let o = w.exec(ix);
    println!("swap after panic: {:?}", o.out.err);
    println!("executed {} panics {}", w.svm.executed, w.svm.panics);
    0
}
