//! C16 With transfer-fee tokens the pool still receives and pays the curve amounts.
use super::hrun::run_histories;
use crate::codec::{self, Rd};
use crate::hist::{ix_brief, HistCfg, Monitor};
use crate::monitors::swapmon::{bal, parse_swap, plain_pool, traded_events};
use crate::monitors::swaps_of;
use crate::report::*;
use crate::rnd::{self, R};
use crate::svm::{self, Acct, Bank};
use crate::world::{Obs, World, TOKEN22};
use rand::Rng;
use serde_json::json;
use solana_program::account_info::AccountInfo;
use solana_program::clock::Clock;
use solana_program::program_error::ProgramError;
use solana_program::pubkey::Pubkey;
use spl_token_2022::extension::transfer_fee::{TransferFee, TransferFeeConfig};
use spl_token_2022::extension::{BaseStateWithExtensions, BaseStateWithExtensionsMut, ExtensionType, StateWithExtensions, StateWithExtensionsMut};
use spl_token_2022::state::Mint;
use whirlpool::pinocchio::verif_export::util_token::{pino_calculate_transfer_fee_excluded_amount, pino_calculate_transfer_fee_included_amount};
use whirlpool::util::{calculate_transfer_fee_excluded_amount, calculate_transfer_fee_included_amount};

fn aerr(e: anchor_lang::error::Error) -> u64 {
    let pe: ProgramError = e.into();
    u64::from(pe)
}

/// The fee the token program itself would withhold on a transfer of `amount` of this mint at `epoch`.
pub fn library_fee(mint_data: &[u8], epoch: u64) -> Option<TransferFee> {
    let st = StateWithExtensions::<Mint>::unpack(mint_data).ok()?;
    let cfg = st.get_extension::<TransferFeeConfig>().ok()?;
    Some(*cfg.get_epoch_fee(epoch))
}
pub fn mint_fee(bank: &Bank, mint: &Pubkey, amount: u64) -> u64 {
    let Some(a) = bank.get(mint) else { return 0 };
    if a.owner != TOKEN22 {
        return 0;
    }
    library_fee(&a.data, bank.clock.epoch).and_then(|f| f.calculate_fee(amount)).unwrap_or(0)
}

fn build_mint(r: &mut R, older: (u16, u64, u64), newer: (u16, u64, u64)) -> Vec<u8> {
    // extra extensions before / after the fee config exercise the TLV walk
    let mut exts = vec![ExtensionType::TransferFeeConfig];
    if r.gen() {
        exts.insert(0, ExtensionType::MintCloseAuthority);
    }
    if r.gen() {
        exts.push(ExtensionType::MetadataPointer);
    }
    if rnd::chance(r, 1, 3) {
        exts.insert(0, ExtensionType::InterestBearingConfig);
    }
    // Token-2022 stores extensions in initialisation order, not by type number
    if r.gen() {
        use rand::seq::SliceRandom;
        exts.shuffle(r);
    }
    let len = ExtensionType::try_calculate_account_len::<Mint>(&exts).unwrap();
    let mut d = vec![0u8; len];
    {
        let mut st = StateWithExtensionsMut::<Mint>::unpack_uninitialized(&mut d).unwrap();
        for e in &exts {
            match e {
                ExtensionType::TransferFeeConfig => {
                    let c = st.init_extension::<TransferFeeConfig>(true).unwrap();
                    c.older_transfer_fee = TransferFee { epoch: older.2.into(), maximum_fee: older.1.into(), transfer_fee_basis_points: older.0.into() };
                    c.newer_transfer_fee = TransferFee { epoch: newer.2.into(), maximum_fee: newer.1.into(), transfer_fee_basis_points: newer.0.into() };
                }
                ExtensionType::MintCloseAuthority => {
                    st.init_extension::<spl_token_2022::extension::mint_close_authority::MintCloseAuthority>(true).unwrap();
                }
                ExtensionType::MetadataPointer => {
                    st.init_extension::<spl_token_2022::extension::metadata_pointer::MetadataPointer>(true).unwrap();
                }
                ExtensionType::InterestBearingConfig => {
                    st.init_extension::<spl_token_2022::extension::interest_bearing_mint::InterestBearingConfig>(true).unwrap();
                }
                _ => {}
            }
        }
        st.base = Mint { mint_authority: None.into(), supply: 0, decimals: 6, is_initialized: true, freeze_authority: None.into() };
        st.pack_base();
        st.init_account_type().unwrap();
    }
    d
}

fn function_level(seed: u64, n: u64) -> Acc {
    run_shards(16, seed, move |_sh, s| {
        let mut r = rnd::rng(s);
        let mut acc = Acc::default();
        fee_slice(&mut r, n / 16, 24, &mut acc);
        tlv_slice(&mut r, n / 160, &mut acc);
        acc
    })
}

/// The program's own (Anchor) fee conversions for a mint whose current transfer fee is `fee` = (basis points,
/// maximum fee): for every amount (excluded(amount), included(amount)) as (amount, fee) or the error number.
/// Used by the SDK differential (C20).
pub fn anchor_fee_amounts(r: &mut R, fee: (u16, u64), xs: &[u64]) -> Vec<(Result<(u64, u64), u64>, Result<(u64, u64), u64>)> {
    let data = build_mint(r, (fee.0, fee.1, 0), (fee.0, fee.1, 0));
    let key = Pubkey::new_from_array(r.gen());
    svm::set_ambient_clock(Clock { epoch: 3, unix_timestamp: 1_700_000_000, ..Default::default() });
    let mut lamports = 1_000_000u64;
    let mut adata = data.clone();
    let owner = TOKEN22;
    let ai = AccountInfo::new(&key, false, false, &mut lamports, &mut adata, &owner, false, 0);
    let amint: anchor_lang::prelude::InterfaceAccount<anchor_spl::token_interface::Mint> = anchor_lang::prelude::InterfaceAccount::try_from(&ai).expect("mint");
    xs.iter()
        .map(|x| {
            (
                calculate_transfer_fee_excluded_amount(&amint, *x).map(|v| (v.amount, v.transfer_fee)).map_err(aerr),
                calculate_transfer_fee_included_amount(&amint, *x).map(|v| (v.amount, v.transfer_fee)).map_err(aerr),
            )
        })
        .collect()
}

/// Fee algebra slice (single-threaded; also run under Miri by the `c16` sanitizer lane): `n` amount cases,
/// `per_mint` of them per generated mint.
pub fn fee_slice(r0: &mut R, n: u64, per_mint: u32, acc: &mut Acc) {
    let mut r = r0.clone();
    {
        let mut k = 0;
        while k < n {
            let bps = |r: &mut R| {
                let any = r.gen_range(0..=10000u16);
                *rnd::pick(r, &[0u16, 1, 2, 10, 100, 999, 5000, 9999, 10000, any])
            };
            let maxf = |r: &mut R| match r.gen_range(0..6) {
                0 => 0u64,
                1 => 1,
                2 => u64::MAX,
                _ => rnd::log_u64(r),
            };
            let older = (bps(&mut r), maxf(&mut r), 0u64);
            let newer_epoch = r.gen_range(0..20u64);
            let newer = (bps(&mut r), maxf(&mut r), newer_epoch);
            let epoch = match r.gen_range(0..4) {
                0 => newer_epoch,
                1 => newer_epoch.saturating_sub(1),
                2 => newer_epoch + 1,
                _ => r.gen_range(0..25),
            };
            let data = build_mint(&mut r, older, newer);
            let key = Pubkey::new_from_array(r.gen());
            svm::set_ambient_clock(Clock { epoch, unix_timestamp: 1_700_000_000, ..Default::default() });
            let lib = library_fee(&data, epoch).expect("fee config");
            // Anchor view
            let mut lamports = 1_000_000u64;
            let mut adata = data.clone();
            let owner = TOKEN22;
            let ai = AccountInfo::new(&key, false, false, &mut lamports, &mut adata, &owner, false, 0);
            let amint: anchor_lang::prelude::InterfaceAccount<anchor_spl::token_interface::Mint> = anchor_lang::prelude::InterfaceAccount::try_from(&ai).expect("mint");
            // Pinocchio view
            let mut store = svm::loader_buffer(&[(key, Acct { lamports: 1_000_000, data: data.clone(), owner: TOKEN22, executable: false }, false, false)]);
            const U: core::mem::MaybeUninit<pinocchio::account_info::AccountInfo> = core::mem::MaybeUninit::uninit();
            let mut infos = [U; 4];
            let (_, cnt, _) = unsafe { pinocchio::entrypoint::deserialize::<4>(store.as_mut_ptr() as *mut u8, &mut infos) };
            assert_eq!(cnt, 1);
            let pinfo = unsafe { infos[0].assume_init_ref() };
            for _ in 0..per_mint {
                k += 1;
                let x = rnd::hostile_u64(&mut r);
                let case = json!({"older": older, "newer": newer, "epoch": epoch, "amount": x});
                acc.evaluations += 1;
                // ---- removing the fee ----
                let ea = calculate_transfer_fee_excluded_amount(&amint, x).map(|v| (v.amount, v.transfer_fee)).map_err(aerr);
                let ep = pino_calculate_transfer_fee_excluded_amount(pinfo, x).map(|v| (v.amount, v.transfer_fee)).map_err(u64::from);
                let want_fee = lib.calculate_fee(x).unwrap();
                for (name, res) in [("anchor", &ea), ("pinocchio", &ep)] {
                    if let Ok((amt, fee)) = res {
                        acc.count("excluded_ok");
                        if *fee != want_fee || amt.checked_add(*fee) != Some(x) {
                            acc.violation(format!("fee:excluded:{name}"), format!("{name}: excluded({x}) = (amount {amt}, fee {fee}) but the token program withholds {want_fee} (epoch {epoch}, older {older:?}, newer {newer:?})"), case.clone());
                        }
                    }
                }
                if ea != ep {
                    acc.violation("fee:excluded:implementations_disagree", format!("anchor {:?} pinocchio {:?}", ea, ep), case.clone());
                }
                // ---- adding the fee: smallest amount whose fee-reduced value is y ----
                let y = x;
                let ia = calculate_transfer_fee_included_amount(&amint, y).map(|v| (v.amount, v.transfer_fee)).map_err(aerr);
                let ip = pino_calculate_transfer_fee_included_amount(pinfo, y).map(|v| (v.amount, v.transfer_fee)).map_err(u64::from);
                for (name, res) in [("anchor", &ia), ("pinocchio", &ip)] {
                    if let Ok((inc, fee)) = res {
                        acc.count("included_ok");
                        let f = lib.calculate_fee(*inc).unwrap();
                        if inc.checked_sub(f) != Some(y) && !(y == 0 && *inc == 0) {
                            // the vault must receive at least y; exactly y whenever an exact solution exists
                            let got = inc - f;
                            if got < y {
                                acc.violation(format!("fee:included_too_small:{name}"), format!("{name}: included({y}) = {inc} but after the token program's fee {f} only {got} arrives"), case.clone());
                            }
                        }
                        if *fee != f {
                            acc.violation(format!("fee:included_fee_field:{name}"), format!("{name}: included({y}) reports fee {fee} but the token program withholds {f} on {inc}"), case.clone());
                        }
                        if *inc > 0 && y > 0 {
                            let below = inc - 1;
                            let fb = lib.calculate_fee(below).unwrap();
                            if below - fb >= y {
                                acc.violation(format!("fee:included_not_minimal:{name}"), format!("{name}: included({y}) = {inc} but {below} already delivers {}", below - fb), case.clone());
                            }
                        }
                        // round trip
                        let back = calculate_transfer_fee_excluded_amount(&amint, *inc).map(|v| v.amount).map_err(aerr);
                        if back != Ok(y) && inc - f == y {
                            acc.violation(format!("fee:round_trip:{name}"), format!("excluded(included({y})) = {:?}", back), case.clone());
                        }
                    } else {
                        acc.count("included_err");
                    }
                }
                if ia != ip {
                    acc.violation("fee:included:implementations_disagree", format!("anchor {:?} pinocchio {:?}", ia, ip), case.clone());
                }
                let cur = if epoch >= newer_epoch { newer } else { older };
                acc.situation(format!("bps{}:max{}:amt{}:{}", match cur.0 { 0 => "0", 10000 => "100%", _ => "mid" }, match cur.1 { 0 => "0", u64::MAX => "inf", _ => "fin" }, rnd::bitlen(x as u128) / 8, if epoch >= newer_epoch { "newer" } else { "older" }));
                if k < 3 {
                    acc.sample(case);
                }
            }
            drop(store);
        }
    }
    *r0 = r;
}

/// Hostile TLV slice: mint accounts whose extension area is corrupted (truncated, lengths and type numbers
/// overwritten, garbage appended, account-type byte changed) are pushed through the Pinocchio mint loader and
/// TLV parser. Whenever spl-token-2022's own reader accepts the whole TLV area, the Pinocchio path must select
/// the same epoch fee (or none). On data the library rejects nothing is judged here - the point of those
/// cases is that the raw-pointer casts in the parser are executed on them under the sanitizer lanes.
pub fn tlv_slice(r: &mut R, n: u64, acc: &mut Acc) {
    for k in 0..n {
        let older = (r.gen_range(0..=10000u16), rnd::log_u64(r), 0u64);
        let newer_epoch = r.gen_range(0..6u64);
        let newer = (r.gen_range(0..=10000u16), rnd::log_u64(r), newer_epoch);
        let epoch = r.gen_range(0..8u64);
        let mut data = build_mint(r, older, newer);
        let valid_len = data.len();
        let kind = r.gen_range(0..8);
        match kind {
            0 => {}
            1 => {
                let cut = r.gen_range(0..data.len());
                data.truncate(cut.max(83));
            }
            2 => {
                // overwrite one TLV length field
                let mut cur = 166usize;
                let mut offs = vec![];
                while cur + 4 <= data.len() {
                    let ty = u16::from_le_bytes([data[cur], data[cur + 1]]);
                    if ty == 0 {
                        break;
                    }
                    offs.push(cur);
                    cur += 4 + u16::from_le_bytes([data[cur + 2], data[cur + 3]]) as usize;
                }
                if let Some(o) = offs.get(r.gen_range(0..offs.len().max(1))) {
                    let any: u16 = r.gen();
                    let v: u16 = *rnd::pick(r, &[0u16, 1, 107, 108, 109, 64, 65, 0xffff, any]);
                    data[o + 2..o + 4].copy_from_slice(&v.to_le_bytes());
                }
            }
            3 => {
                // overwrite one type number (unknown, account-side, duplicate fee config / hook / memo)
                let o = 166;
                if data.len() >= o + 2 {
                    let any: u16 = r.gen();
                    let v: u16 = *rnd::pick(r, &[1u16, 8, 14, 15, 27, 0x7fff, 0xffff, any]);
                    data[o..o + 2].copy_from_slice(&v.to_le_bytes());
                }
            }
            4 => {
                let extra = r.gen_range(1..40);
                for _ in 0..extra {
                    data.push(r.gen());
                }
            }
            5 => {
                if data.len() > 165 {
                    data[165] = r.gen_range(0..4);
                }
            }
            6 => {
                // a trailing header without room for its length / value
                let t: u16 = *rnd::pick(r, &[1u16, 14, 8, 3]);
                data.extend_from_slice(&t.to_le_bytes());
                if r.gen() {
                    data.push(108);
                }
            }
            _ => {
                let i = r.gen_range(82..data.len());
                data[i] = r.gen();
            }
        }
        acc.evaluations += 1;
        acc.count(&format!("tlv_corruption_kind_{kind}"));
        let key = Pubkey::new_from_array(r.gen());
        svm::set_ambient_clock(Clock { epoch, unix_timestamp: 1_700_000_000, ..Default::default() });
        let mut store = svm::loader_buffer(&[(key, Acct { lamports: 1_000_000, data: data.clone(), owner: TOKEN22, executable: false }, false, false)]);
        const U: core::mem::MaybeUninit<pinocchio::account_info::AccountInfo> = core::mem::MaybeUninit::uninit();
        let mut infos = [U; 4];
        let (_, cnt, _) = unsafe { pinocchio::entrypoint::deserialize::<4>(store.as_mut_ptr() as *mut u8, &mut infos) };
        assert_eq!(cnt, 1);
        let pinfo = unsafe { infos[0].assume_init_ref() };
        let x = rnd::hostile_u64(r);
        // a corrupted fee config can carry more than 10000 bp, which the token program never stores: the program's
        // `calculate_fee(..).unwrap()` then panics (on chain: a failed transaction); contained and counted
        let ep = match svm::quiet_catch(|| pino_calculate_transfer_fee_excluded_amount(pinfo, x).map(|v| (v.amount, v.transfer_fee)).map_err(u64::from)) {
            Ok(v) => v,
            Err(_) => {
                acc.count("tlv_program_panicked");
                Err(u64::MAX)
            }
        };
        if svm::quiet_catch(|| pino_calculate_transfer_fee_included_amount(pinfo, x).map(|v| (v.amount, v.transfer_fee)).map_err(u64::from)).is_err() {
            acc.count("tlv_program_panicked");
        }
        // what the token program's own reader says about the same bytes
        let lib = StateWithExtensions::<Mint>::unpack(&data).ok().and_then(|st| st.get_extension_types().ok().map(|tys| (tys.contains(&ExtensionType::TransferFeeConfig), st.get_extension::<TransferFeeConfig>().ok().map(|c| *c.get_epoch_fee(epoch)))));
        // Token-2022 only ever writes the fixed-size extensions with their own length; a type number overwritten onto
        // an entry of another size is not a mint the token program can produce, so it is executed but not judged
        let producible = {
            let mut cur = 166usize;
            let mut ok = true;
            while cur + 4 <= data.len() {
                let ty = u16::from_le_bytes([data[cur], data[cur + 1]]);
                if ty == 0 {
                    break;
                }
                let len = u16::from_le_bytes([data[cur + 2], data[cur + 3]]) as usize;
                if matches!((ty, len), (1, l) if l != 108) || matches!((ty, len), (14, l) if l != 64) || matches!((ty, len), (8, l) if l != 1) {
                    ok = false;
                }
                // ... and never stores more than 10000 basis points (value layout: 2 keys, withheld, then epoch/max/bps twice)
                if ty == 1 && len == 108 && cur + 4 + 108 <= data.len() {
                    let v = &data[cur + 4..cur + 112];
                    if u16::from_le_bytes([v[88], v[89]]) > 10000 || u16::from_le_bytes([v[106], v[107]]) > 10000 {
                        ok = false;
                    }
                }
                cur += 4 + len;
            }
            ok
        };
        let lib = if producible { lib } else { acc.count("tlv_not_producible_by_token_program"); None };
        match lib {
            Some((has, cfg)) => {
                acc.count("tlv_library_accepts");
                let want = match (has, cfg) {
                    (true, Some(f)) => f.calculate_fee(x),
                    (false, _) => Some(0),
                    _ => None,
                };
                if let Some(want_fee) = want {
                    match ep {
                        Ok((amt, fee)) => {
                            if fee != want_fee || amt.checked_add(fee) != Some(x) {
                                acc.violation("fee:tlv:pinocchio_selects_other_fee", format!("corruption kind {kind}: Pinocchio excluded({x}) = (amount {amt}, fee {fee}), the token program's reader gives fee {want_fee} on the same mint bytes (len {} of {valid_len}, epoch {epoch})", data.len()), json!({"mint_hex": hex(&data), "epoch": epoch, "amount": x}));
                            }
                            if has {
                                acc.count("tlv_judged_with_fee_config");
                            }
                        }
                        Err(e) => {
                            acc.violation("fee:tlv:pinocchio_rejects_well_formed_mint", format!("corruption kind {kind}: the token program's reader accepts the TLV area but the Pinocchio parser fails with {e}"), json!({"mint_hex": hex(&data), "epoch": epoch}));
                        }
                    }
                }
            }
            None => acc.count("tlv_library_rejects"),
        }
        if k < 2 {
            acc.sample(json!({"tlv_case": kind, "len": data.len(), "library_accepts": lib.is_some(), "pinocchio": format!("{:?}", ep)}));
        }
        drop(store);
    }
}

fn hex(d: &[u8]) -> String {
    d.iter().map(|b| format!("{b:02x}")).collect()
}

// ------------------------------------------------------------------ instruction level
#[derive(Default)]
pub struct C16m;

fn fee_of(bank: &Bank, mint: &Pubkey, amount: u64) -> u64 {
    mint_fee(bank, mint, amount)
}

impl Monitor for C16m {
    fn after(&mut self, w: &mut World, obs: &Obs, acc: &mut Acc) {
        if !obs.ok() {
            return;
        }
        let name = obs.ix.name;
        let fail = |acc: &mut Acc, sig: &str, detail: String| {
            acc.violation(format!("c16:{sig}:{name}"), detail, json!({"instruction": ix_brief(&obs.ix), "epoch": obs.pre.clock.epoch}));
        };
        // ---------------- two-hop swaps over fee-bearing mints ----------------
        if let Some(t) = crate::monitors::twohop::parse_two_hop(&obs.ix) {
            if !t.v2 || t.acct_in == t.acct_out {
                return;
            }
            let (Some(p1), Some(p2)) = (obs.pre.data(&t.p1).and_then(codec::Pool::decode), obs.pre.data(&t.p2).and_then(codec::Pool::decode)) else { return };
            let m_in = if t.d1 { p1.token_mint_a } else { p1.token_mint_b };
            let m_out = if t.d2 { p2.token_mint_b } else { p2.token_mint_a };
            let paid = bal(&obs.pre, &t.acct_in) as u128 - bal(&w.bank, &t.acct_in) as u128;
            let got = bal(&w.bank, &t.acct_out) as u128 - bal(&obs.pre, &t.acct_out) as u128;
            let vin = bal(&w.bank, &t.vault_one_in) as u128 - bal(&obs.pre, &t.vault_one_in) as u128;
            let vout = bal(&obs.pre, &t.vault_two_out) as u128 - bal(&w.bank, &t.vault_two_out) as u128;
            let (fin, fout) = (fee_of(&obs.pre, &m_in, paid as u64) as u128, fee_of(&obs.pre, &m_out, vout as u64) as u128);
            if fin == 0 && fout == 0 {
                return;
            }
            acc.count("fee_pool_two_hops");
            if paid - vin != fin || vout - got != fout {
                fail(acc, "two_hop_withheld_amounts", format!("input: paid {paid} vault got {vin}; output: vault paid {vout} trader got {got}; token-program fees would be {fin} and {fout}"));
            }
            if t.exact_in && paid > t.amount as u128 {
                fail(acc, "paid_more_than_specified", format!("paid {paid} > amount {}", t.amount));
            }
            if !t.exact_in && paid > t.threshold as u128 {
                fail(acc, "paid_more_than_maximum", format!("paid {paid} > maximum {}", t.threshold));
            }
            if t.exact_in && got < t.threshold as u128 {
                fail(acc, "received_less_than_minimum", format!("received {got} < minimum {}", t.threshold));
            }
            // the outer threshold applies to what the trader actually receives (exact-in) / pays (exact-out)
            if w.r.gen_range(0..2) == 0 {
                use crate::monitors::swapmon::with_threshold;
                let x = if t.exact_in { got as u64 } else { paid as u64 };
                let bad = if t.exact_in { x.checked_add(1) } else { x.checked_sub(1) };
                acc.count("two_hop_threshold_probes");
                let (o, _) = w.simulate(&obs.pre, &with_threshold(&obs.ix, x));
                if !o.ok() {
                    fail(acc, "threshold_rejected_wrongly", format!("threshold {x} equal to what the trader {} was rejected: {:?}", if t.exact_in { "receives" } else { "pays" }, o.err));
                }
                if let Some(b) = bad {
                    let (o, _) = w.simulate(&obs.pre, &with_threshold(&obs.ix, b));
                    if o.ok() {
                        fail(acc, "threshold_not_enforced", format!("trader {} {x} (vault side {}) but threshold {b} was accepted", if t.exact_in { "receives" } else { "pays" }, if t.exact_in { vout } else { vin }));
                    }
                }
            }
            acc.situation(format!("{name}:{}:{}:{}:infee{}:outfee{}", t.exact_in, t.d1, t.d2, (fin > 0) as u8, (fout > 0) as u8));
            return;
        }
        // ---------------- swaps ----------------
        if let Some(c) = parse_swap(&obs.ix) {
            let Some(pool) = obs.pre.data(&c.pool).and_then(codec::Pool::decode) else { return };
            if plain_pool(&obs.pre, &pool) || c.owner_a == c.owner_b {
                return;
            }
            let sw = swaps_of(&obs.out);
            if sw.len() != 1 {
                return;
            }
            let steps = &sw[0].1;
            let need_in: u128 = steps.iter().map(|s| s.amount_in as u128 + s.fee_amount as u128).sum();
            let curve_out: u128 = steps.iter().map(|s| s.amount_out as u128).sum();
            let (m_in, m_out, u_in, u_out, v_in, v_out) = if c.a_to_b { (pool.token_mint_a, pool.token_mint_b, c.owner_a, c.owner_b, c.vault_a, c.vault_b) } else { (pool.token_mint_b, pool.token_mint_a, c.owner_b, c.owner_a, c.vault_b, c.vault_a) };
            let paid = bal(&obs.pre, &u_in) as u128 - bal(&w.bank, &u_in) as u128;
            let vin = bal(&w.bank, &v_in) as u128 - bal(&obs.pre, &v_in) as u128;
            let vout = bal(&obs.pre, &v_out) as u128 - bal(&w.bank, &v_out) as u128;
            let got = bal(&w.bank, &u_out) as u128 - bal(&obs.pre, &u_out) as u128;
            acc.count("fee_pool_swaps");
            if vin < need_in {
                fail(acc, "vault_received_less_than_curve_input", format!("curve needs {need_in} but the vault received {vin} (trader paid {paid})"));
            }
            if vout != curve_out {
                fail(acc, "vault_paid_not_curve_output", format!("curve output {curve_out} but the vault paid {vout}"));
            }
            // the request is the smallest amount that delivers the curve input; an exact-in swap that used its
            // whole budget pays exactly the amount specified
            let budget = (c.amount - fee_of(&obs.pre, &m_in, c.amount)) as u128;
            if c.exact_in && need_in == budget {
                if paid != c.amount as u128 {
                    fail(acc, "full_fill_not_charged_the_amount", format!("the curve used the whole budget {budget} but the trader paid {paid}, not {}", c.amount));
                }
            } else if paid > 0 {
                let below = (paid - 1) as u64;
                if (below - fee_of(&obs.pre, &m_in, below)) as u128 >= need_in {
                    fail(acc, "requested_more_than_needed", format!("trader paid {paid} but {below} would already deliver the {need_in} the curve needs"));
                }
            }
            if c.exact_in && paid > c.amount as u128 {
                fail(acc, "paid_more_than_specified", format!("paid {paid} > amount {}", c.amount));
            }
            if !c.exact_in && paid > c.threshold as u128 {
                fail(acc, "paid_more_than_maximum", format!("paid {paid} > maximum {}", c.threshold));
            }
            if paid - vin != fee_of(&obs.pre, &m_in, paid as u64) as u128 || vout - got != fee_of(&obs.pre, &m_out, vout as u64) as u128 {
                fail(acc, "withheld_amounts", format!("input: paid {paid} vault got {vin}; output: vault paid {vout} trader got {got}; token-program fees would be {} and {}", fee_of(&obs.pre, &m_in, paid as u64), fee_of(&obs.pre, &m_out, vout as u64)));
            }
            // event
            let ev = traded_events(&obs.out.events);
            if let Some(e) = ev.first() {
                if e.input_amount as u128 != paid || e.output_amount as u128 != vout || e.input_transfer_fee as u128 != paid - vin || e.output_transfer_fee as u128 != vout - got {
                    fail(acc, "event_amounts", format!("Traded reports in {} (fee {}) out {} (fee {}); moved: trader paid {paid} (withheld {}), vault paid {vout} (withheld {})", e.input_amount, e.input_transfer_fee, e.output_amount, e.output_transfer_fee, paid - vin, vout - got));
                }
            } else {
                fail(acc, "event_missing", "no Traded event".into());
            }
            if fee_of(&obs.pre, &m_in, paid as u64) > 0 {
                acc.count("swaps_with_input_fee");
            }
            if vout > got {
                acc.count("swaps_with_output_fee");
            }
            let partial = c.exact_in && paid < c.amount as u128;
            if partial {
                acc.count("partial_fills_on_fee_pools");
            }
            // the other-amount threshold applies to what the trader actually receives / pays
            if (vout > got || paid > vin) && w.r.gen_range(0..3) == 0 {
                use crate::monitors::swapmon::with_threshold;
                let x = if c.exact_in { got as u64 } else { paid as u64 };
                let (ok_thr, bad_thr) = if c.exact_in { (x, x.checked_add(1)) } else { (x, x.checked_sub(1)) };
                let (o, _) = w.simulate(&obs.pre, &with_threshold(&obs.ix, ok_thr));
                acc.count("swap_threshold_probes");
                if !o.ok() {
                    fail(acc, "threshold_rejected_wrongly", format!("threshold {ok_thr} equal to what the trader {} ({x}) was rejected: {:?}", if c.exact_in { "receives" } else { "pays" }, o.err));
                }
                if let Some(t) = bad_thr {
                    let (o, _) = w.simulate(&obs.pre, &with_threshold(&obs.ix, t));
                    if o.ok() {
                        fail(acc, "threshold_not_enforced", format!("trader {} {x} (vault side {}) but threshold {t} was accepted", if c.exact_in { "receives" } else { "pays" }, if c.exact_in { vout } else { vin }));
                    }
                }
            }
            acc.situation(format!("{name}:{}:{}:infee{}:outfee{}:part{}", c.exact_in, c.a_to_b, (paid > vin) as u8, (vout > got) as u8, partial as u8));
            return;
        }
        // ---------------- reposition ----------------
        if name == "reposition_liquidity_v2" {
            let pk = obs.ix.key("whirlpool");
            let Some(pool) = obs.pre.data(&pk).and_then(codec::Pool::decode) else { return };
            let posk = obs.ix.key("position");
            let (Some(pp), Some(np)) = (obs.pre.data(&posk).and_then(codec::Position::decode), w.bank.data(&posk).and_then(codec::Position::decode)) else { return };
            let (ua, ub) = (obs.ix.key("token_owner_account_a"), obs.ix.key("token_owner_account_b"));
            if ua == ub || obs.ix.data.len() < 65 || obs.ix.data[16] != 0 {
                return;
            }
            let mut r = Rd::new(&obs.ix.data, 17);
            let (_larg, min_a, min_b, max_a, max_b) = (r.u128(), r.u64(), r.u64(), r.u64(), r.u64());
            let pr = |t: i32| whirlpool::math::sqrt_price_from_tick_index(t);
            let (wa, wb) = crate::model::position_amounts(pool.tick_current_index, pool.sqrt_price, pp.tick_lower_index, pp.tick_upper_index, pr(pp.tick_lower_index), pr(pp.tick_upper_index), pp.liquidity, false);
            let (da, db) = crate::model::position_amounts(pool.tick_current_index, pool.sqrt_price, np.tick_lower_index, np.tick_upper_index, pr(np.tick_lower_index), pr(np.tick_upper_index), np.liquidity, true);
            let big = |x: &num_bigint::BigUint| num_traits::ToPrimitive::to_i128(x).unwrap_or(i128::MAX);
            let d = |pre: u64, post: u64| post as i128 - pre as i128;
            let fee_pool = !plain_pool(&obs.pre, &pool);
            if fee_pool {
                acc.count("fee_pool_repositions");
            }
            let mut ev_expect: Vec<(u64, u64, bool)> = vec![];
            for (tok, mint, uacct, vault, wx, dx, minx, maxx) in [("A", pool.token_mint_a, ua, pool.token_vault_a, big(&wa), big(&da), min_a, max_a), ("B", pool.token_mint_b, ub, pool.token_vault_b, big(&wb), big(&db), min_b, max_b)] {
                let du = d(bal(&obs.pre, &uacct), bal(&w.bank, &uacct));
                let dv = d(bal(&obs.pre, &vault), bal(&w.bank, &vault));
                // the vault ends up with exactly the difference between what the new range needs and the old one released
                if dv != dx - wx {
                    fail(acc, "reposition_vault_delta", format!("token {tok}: old range releases {wx}, new range needs {dx}: the vault should change by {} but changed by {dv}", dx - wx));
                }
                let from_owner = dx > wx;
                if from_owner {
                    let paid = (-du) as u128;
                    let need = (dx - wx) as u128;
                    if paid < need || paid - need != fee_of(&obs.pre, &mint, paid as u64) as u128 {
                        fail(acc, "reposition_withheld_amounts", format!("token {tok}: owner paid {paid}, vault needed {need}; the token program withholds {}", fee_of(&obs.pre, &mint, paid as u64)));
                    }
                    if paid > 0 {
                        let below = (paid - 1) as u64;
                        if (below - fee_of(&obs.pre, &mint, below)) as u128 >= need {
                            fail(acc, "reposition_requested_more_than_needed", format!("token {tok}: owner paid {paid} but {below} would already deliver the {need} needed"));
                        }
                    }
                    // the maximum covers the full cost of the new range plus the fee of the transfer
                    if dx as u128 + (paid - need) > maxx as u128 {
                        fail(acc, "reposition_maximum_ignored", format!("token {tok}: new range costs {dx} plus transfer fee {} above the maximum {maxx}", paid - need));
                    }
                    ev_expect.push((paid as u64, (paid - need) as u64, true));
                } else {
                    let out = (wx - dx) as u128;
                    let got = du as u128;
                    if du < 0 || out - got != fee_of(&obs.pre, &mint, out as u64) as u128 {
                        fail(acc, "reposition_withheld_amounts", format!("token {tok}: vault paid {out}, owner received {du}; the token program withholds {}", fee_of(&obs.pre, &mint, out as u64)));
                    }
                    if dx as u128 > maxx as u128 {
                        fail(acc, "reposition_maximum_ignored", format!("token {tok}: new range costs {dx} above the maximum {maxx}"));
                    }
                    ev_expect.push((out as u64, (out - got) as u64, false));
                }
                // the minimum applies to what withdrawing the old range would have given the owner after the fee
                let after_fee = wx as u128 - fee_of(&obs.pre, &mint, wx as u64) as u128;
                if after_fee < minx as u128 {
                    fail(acc, "reposition_minimum_ignored", format!("token {tok}: old range releases {wx} ({after_fee} after the transfer fee) below the minimum {minx}"));
                }
            }
            // the event reports the amounts of both legs and the settlement
            let evs: Vec<Vec<u8>> = obs.out.hook.iter().filter_map(|e| if let whirlpool::verif::Event::LogData(d) = e { d.first().cloned() } else { None }).collect();
            let want = codec::event_disc("LiquidityRepositioned");
            if let Some(e) = evs.iter().find(|e| e.len() >= 8 && e[..8] == want) {
                let mut r = Rd::new(e, 8 + 32 + 32);
                let (elo, ehi, nlo, nhi, el, nl) = (r.i32(), r.i32(), r.i32(), r.i32(), r.u128(), r.u128());
                let (xa, xb, ya, yb) = (r.u64(), r.u64(), r.u64(), r.u64());
                let (ta, fa, oa) = (r.u64(), r.u64(), r.bool());
                let (tb, fb, ob) = (r.u64(), r.u64(), r.bool());
                acc.count("reposition_events_checked");
                let ok = (elo, ehi, nlo, nhi) == (pp.tick_lower_index, pp.tick_upper_index, np.tick_lower_index, np.tick_upper_index)
                    && (el, nl) == (pp.liquidity, np.liquidity)
                    && (xa as i128, xb as i128, ya as i128, yb as i128) == (big(&wa), big(&wb), big(&da), big(&db))
                    && (ta, fa) == (ev_expect[0].0, ev_expect[0].1)
                    && (tb, fb) == (ev_expect[1].0, ev_expect[1].1)
                    && (ta == 0 || oa == ev_expect[0].2)
                    && (tb == 0 || ob == ev_expect[1].2);
                if !ok {
                    fail(acc, "reposition_event", format!("event: old [{elo},{ehi}) L {el} -> ({xa}, {xb}); new [{nlo},{nhi}) L {nl} -> ({ya}, {yb}); transfers A {ta} (fee {fa}, from owner {oa}) B {tb} (fee {fb}, from owner {ob}); observed: old releases ({wa}, {wb}), new needs ({da}, {db}), settlements {:?}", ev_expect));
                }
            } else {
                fail(acc, "event_missing", "no LiquidityRepositioned event".into());
            }
            acc.situation(format!("{name}:fee{}:a_from_owner{}:b_from_owner{}", fee_pool as u8, ev_expect[0].2 as u8, ev_expect[1].2 as u8));
            return;
        }
        // ---------------- protocol fee collection on fee-bearing mints ----------------
        if name == "collect_protocol_fees_v2" || name == "collect_protocol_fees" {
            let pk = obs.ix.key("whirlpool");
            let (Some(pool), Some(post)) = (obs.pre.data(&pk).and_then(codec::Pool::decode), w.bank.data(&pk).and_then(codec::Pool::decode)) else { return };
            if plain_pool(&obs.pre, &pool) {
                return;
            }
            acc.count("fee_pool_protocol_fee_collections");
            if pool.protocol_fee_owed_a > 0 || pool.protocol_fee_owed_b > 0 {
                acc.count("fee_pool_protocol_fee_collections_nonzero");
            }
            let d = |pre: u64, post: u64| post as i128 - pre as i128;
            for (tok, mint, vault, dest, owed, left) in [
                ("A", pool.token_mint_a, pool.token_vault_a, obs.ix.key("token_destination_a"), pool.protocol_fee_owed_a, post.protocol_fee_owed_a),
                ("B", pool.token_mint_b, pool.token_vault_b, obs.ix.key("token_destination_b"), pool.protocol_fee_owed_b, post.protocol_fee_owed_b),
            ] {
                if vault == dest {
                    continue;
                }
                // the vault hands out exactly what the pool owed; the token program withholds its fee from that; nothing stays owed
                let out = -d(bal(&obs.pre, &vault), bal(&w.bank, &vault));
                let got = d(bal(&obs.pre, &dest), bal(&w.bank, &dest));
                if out != owed as i128 {
                    fail(acc, "protocol_fee_vault_payout", format!("token {tok}: the pool owed {owed} but its vault paid {out} (and now records {left} owed)"));
                } else if out - got != fee_of(&obs.pre, &mint, owed) as i128 {
                    fail(acc, "withheld_amounts", format!("token {tok}: vault paid {out}, destination got {got}"));
                }
                if left != 0 {
                    fail(acc, "protocol_fee_not_reset", format!("token {tok}: {left} still owed after the collection"));
                }
            }
            return;
        }
        // ---------------- liquidity ----------------
        let inc = name == "increase_liquidity_v2" || name == "increase_liquidity_by_token_amounts_v2";
        let dec = name == "decrease_liquidity_v2";
        if !(inc || dec) {
            return;
        }
        let pk = obs.ix.key("whirlpool");
        let Some(pool) = obs.pre.data(&pk).and_then(codec::Pool::decode) else { return };
        if plain_pool(&obs.pre, &pool) {
            return;
        }
        let posk = obs.ix.key("position");
        let (Some(pp), Some(np)) = (obs.pre.data(&posk).and_then(codec::Position::decode), w.bank.data(&posk).and_then(codec::Position::decode)) else { return };
        let l = if dec { pp.liquidity - np.liquidity } else { np.liquidity - pp.liquidity };
        let (pl, pu) = (whirlpool::math::sqrt_price_from_tick_index(pp.tick_lower_index), whirlpool::math::sqrt_price_from_tick_index(pp.tick_upper_index));
        let (ea, eb) = crate::model::position_amounts(pool.tick_current_index, pool.sqrt_price, pp.tick_lower_index, pp.tick_upper_index, pl, pu, l, !dec);
        let (ea, eb) = (num_traits::ToPrimitive::to_u128(&ea).unwrap_or(u128::MAX), num_traits::ToPrimitive::to_u128(&eb).unwrap_or(u128::MAX));
        let (ua, ub) = (obs.ix.key("token_owner_account_a"), obs.ix.key("token_owner_account_b"));
        acc.count("fee_pool_liquidity_ix");
        let d = |pre: u64, post: u64| post as i128 - pre as i128;
        let (dua, dub) = (d(bal(&obs.pre, &ua), bal(&w.bank, &ua)), d(bal(&obs.pre, &ub), bal(&w.bank, &ub)));
        let (dva, dvb) = (d(bal(&obs.pre, &pool.token_vault_a), bal(&w.bank, &pool.token_vault_a)), d(bal(&obs.pre, &pool.token_vault_b), bal(&w.bank, &pool.token_vault_b)));
        let mut r = Rd::new(&obs.ix.data, 8);
        for (tok, mint, du, dv, e) in [("A", pool.token_mint_a, dua, dva, ea), ("B", pool.token_mint_b, dub, dvb, eb)] {
            if inc {
                let paid = (-du) as u128;
                let vin = dv as u128;
                if vin < e {
                    fail(acc, "vault_received_less_than_deposit", format!("token {tok}: liquidity {l} costs {e} but the vault received {vin} (owner paid {paid})"));
                }
                if paid > 0 {
                    let below = (paid - 1) as u64;
                    if (below - fee_of(&obs.pre, &mint, below)) as u128 >= e {
                        fail(acc, "requested_more_than_needed", format!("token {tok}: owner paid {paid} but {below} would already deliver the {e} needed"));
                    }
                }
                if paid - vin != fee_of(&obs.pre, &mint, paid as u64) as u128 {
                    fail(acc, "withheld_amounts", format!("token {tok}: paid {paid}, vault got {vin}"));
                }
            } else {
                let vout = (-dv) as u128;
                let got = du as u128;
                if vout != e {
                    fail(acc, "vault_paid_not_curve_amount", format!("token {tok}: liquidity {l} returns {e} but the vault paid {vout}"));
                }
                if vout - got != fee_of(&obs.pre, &mint, vout as u64) as u128 {
                    fail(acc, "withheld_amounts", format!("token {tok}: vault paid {vout}, owner got {got}"));
                }
            }
        }
        if name == "increase_liquidity_by_token_amounts_v2" && obs.ix.data.len() >= 25 {
            // the two amounts of this instruction are maxima on what the owner pays, transfer fee included - each judged with its own mint's fee
            let mut r2 = Rd::new(&obs.ix.data, 9);
            let (ma, mb) = (r2.u64(), r2.u64());
            acc.count("by_amounts_deposits_on_fee_pools");
            if ua != ub && ((-dua) as i128 > ma as i128 || (-dub) as i128 > mb as i128) {
                fail(acc, "paid_more_than_maximum", format!("owner paid ({}, {}) above the stated maxima ({ma}, {mb})", -dua, -dub));
            }
        }
        if name == "increase_liquidity_v2" {
            let (_l, ma, mb) = (r.u128(), r.u64(), r.u64());
            if (-dua) as u128 > ma as u128 || (-dub) as u128 > mb as u128 {
                fail(acc, "paid_more_than_maximum", format!("owner paid ({}, {}) above the stated maxima ({ma}, {mb})", -dua, -dub));
            }
            // the maximum applies to what the owner actually pays (transfer fee included): exactly that is accepted, one less is not
            if w.r.gen_range(0..3) == 0 && dua <= 0 && dub <= 0 && ua != ub {
                let (pa, pb) = ((-dua) as u64, (-dub) as u64);
                let mut i2 = obs.ix.clone();
                i2.data[24..32].copy_from_slice(&pa.to_le_bytes());
                i2.data[32..40].copy_from_slice(&pb.to_le_bytes());
                let (o, _) = w.simulate(&obs.pre, &i2);
                acc.count("maximum_probes");
                if !o.ok() {
                    fail(acc, "maximum_rejected_wrongly", format!("maxima equal to what the owner pays ({pa}, {pb}) were rejected: {:?}", o.err));
                }
                for (off, x, tok) in [(24usize, pa, "A"), (32usize, pb, "B")] {
                    let Some(x1) = x.checked_sub(1) else { continue };
                    let mut i3 = i2.clone();
                    i3.data[off..off + 8].copy_from_slice(&x1.to_le_bytes());
                    let (o, _) = w.simulate(&obs.pre, &i3);
                    if o.ok() {
                        fail(acc, "maximum_not_enforced", format!("maximum {tok} {x1} below the {x} the owner pays (transfer fee included) was accepted"));
                    }
                }
            }
        }
        if dec {
            let (_l, ma, mb) = (r.u128(), r.u64(), r.u64());
            if (dua as u128) < ma as u128 || (dub as u128) < mb as u128 {
                fail(acc, "received_less_than_minimum", format!("owner received ({dua}, {dub}) below the stated minima ({ma}, {mb})"));
            }
            // the minimum applies to what the owner actually receives: one more must fail
            if w.r.gen_range(0..3) == 0 && dua >= 0 && dub >= 0 {
                let mut i2 = obs.ix.clone();
                i2.data[24..32].copy_from_slice(&(dua as u64).to_le_bytes());
                i2.data[32..40].copy_from_slice(&(dub as u64).to_le_bytes());
                let (o, _) = w.simulate(&obs.pre, &i2);
                acc.count("minimum_probes");
                if !o.ok() {
                    fail(acc, "minimum_rejected_wrongly", format!("minima equal to what the owner receives ({dua}, {dub}) were rejected: {:?}", o.err));
                }
                if let Some(a1) = (dua as u64).checked_add(1) {
                    i2.data[24..32].copy_from_slice(&a1.to_le_bytes());
                    let (o, _) = w.simulate(&obs.pre, &i2);
                    if o.ok() {
                        fail(acc, "minimum_not_enforced", format!("minimum A {a1} above the {dua} the owner receives was accepted"));
                    }
                }
            }
        }
        // events (Pinocchio sink): user-facing amounts and fees
        let evs: Vec<Vec<u8>> = obs.out.hook.iter().filter_map(|e| if let whirlpool::verif::Event::LogData(d) = e { d.first().cloned() } else { None }).collect();
        let want = if inc { codec::event_disc("LiquidityIncreased") } else { codec::event_disc("LiquidityDecreased") };
        if let Some(e) = evs.iter().find(|e| e.len() >= 8 && e[..8] == want) {
            let mut r = Rd::new(e, 8 + 32 + 32 + 4 + 4);
            let (el, ta, tb, fa, fb) = (r.u128(), r.u64(), r.u64(), r.u64(), r.u64());
            let (xa, xb, xfa, xfb) = if inc { ((-dua) as u64, (-dub) as u64, ((-dua) - dva) as u64, ((-dub) - dvb) as u64) } else { ((-dva) as u64, (-dvb) as u64, ((-dva) - dua) as u64, ((-dvb) - dub) as u64) };
            if el != l || ta != xa || tb != xb || fa != xfa || fb != xfb {
                fail(acc, "event_amounts", format!("event liquidity {el} amounts ({ta}, {tb}) fees ({fa}, {fb}); moved: liquidity {l} amounts ({xa}, {xb}) withheld ({xfa}, {xfb})"));
            }
        } else {
            fail(acc, "event_missing", "no liquidity event".into());
        }
        acc.situation(format!("{name}:{}:{}", (dua.abs() != dva.abs()) as u8, (dub.abs() != dvb.abs()) as u8));
    }
}

pub fn run(tier: Tier, seed: u64) -> i32 {
    let mut rep = Report::new("C16", tier, seed);
    rep.rule = "function level: Anchor calculate_transfer_fee_{excluded,included}_amount (InterfaceAccount<Mint> over a real Token-2022 mint buffer with TransferFeeConfig and neighbouring extensions) and the Pinocchio copies (AccountInfo over a loader-format buffer, own TLV parser), all fee configs (0..=10000 bp, max fee 0..u64::MAX, older/newer epoch around the switch) x hostile amounts: excluded.amount + fee == amount, fee == what spl-token-2022's own TransferFee::calculate_fee withholds for the epoch fee chosen by get_epoch_fee, included(y) delivers >= y and included(y)-1 does not, reported fee fields, round trip, Anchor == Pinocchio. instruction level (Token-2022 pools with fees on A, B or both; real Token-2022 processor): swaps - vault receives >= curve input (hook trace), vault pays exactly the curve output, trader's request is minimal, within amount/maximum, withheld amounts equal the token program's, Traded event equals the amounts moved, and for a third of them the other-amount threshold is probed on clones (equal to what the trader receives/pays: accepted; one unit stricter: refused); two_hop_swap_v2 over fee-bearing input / output mints - withheld amounts equal the token program's, within amount / maximum / minimum, outer threshold probed against what the trader actually receives / pays; reposition_liquidity_v2 - per token the vault changes by exactly (new range cost - old range release), the owner's side carries the token program's fee with a minimal request, maxima cover new cost + transfer fee, minima apply to the old range's release after fee, and the LiquidityRepositioned event reports both legs and the settlement; increase/decrease/by-amounts - vault receives >= exact deposit, pays exactly the exact withdrawal, maxima/minima apply to what the owner pays/receives (probed), liquidity events equal the amounts moved. distinct = (fee class, max class, amount magnitude, epoch side) and (instruction, fee on in/out, partial)".into();
    rep.assumptions = vec!["spl-token-2022 8.0.1's TransferFee::calculate_fee / get_epoch_fee are the ground truth for what the token program withholds".into(), "amounts of the curve are the exact model's (decided for the program's functions by C08)".into()];
    let n = tier.pick(6_000_000, 150_000_000);
    let mut acc = function_level(seed, n);
    let per_shard = tier.pick(56, 1400);
    let acc2 = run_histories(
        seed ^ 0x16,
        per_shard,
        move |_r| HistCfg { ops: 130, spl_only: false, allow_transfer_fee: true, lifecycle_ext: true, w_swap: 38, w_liq: 34, w_fees: 4, w_lifecycle: 9, w_clock: 8, w_setters: 2, w_two_hop: 8, ..Default::default() },
        || vec![Box::new(C16m) as Box<dyn Monitor>],
    );
    acc.merge(acc2);
    rep.acc = acc;
    rep.floor("excluded_ok", 500_000);
    rep.floor("included_ok", 300_000);
    rep.floor("fee_pool_swaps", 1500);
    rep.floor("swaps_with_input_fee", 200);
    rep.floor("swaps_with_output_fee", 200);
    rep.floor("partial_fills_on_fee_pools", 100);
    rep.floor("fee_pool_liquidity_ix", 1500);
    rep.floor("minimum_probes", 50);
    rep.floor("swap_threshold_probes", 200);
    rep.floor("fee_pool_two_hops", 100);
    rep.floor("fee_pool_repositions", 60);
    rep.floor("fee_pool_protocol_fee_collections_nonzero", 50);
    rep.floor("by_amounts_deposits_on_fee_pools", 100);
    rep.floor("reposition_events_checked", 100);
    rep.floor("two_hop_threshold_probes", 40);
    rep.finish()
}
