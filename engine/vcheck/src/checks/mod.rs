pub mod c02;
pub mod c05;
pub mod c08;
pub mod hchecks;
pub mod hrun;
pub mod c09;
pub mod c13;
pub mod smoke;
