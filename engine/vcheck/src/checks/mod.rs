pub mod c02;
pub mod c09;
pub mod c13;
pub mod smoke;
