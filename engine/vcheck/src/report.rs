//! Verdicts, evidence files, replay files, known findings.
use serde_json::{json, Value};
use std::collections::{BTreeMap, BTreeSet};
use std::io::Write;
use std::sync::atomic::{AtomicI32, Ordering};

/// File descriptor the verdict lines go to. Programs under test print through `println!` on the
/// host (e.g. `Pubkey::log`), so `main` points fd 1 at /dev/null and hands the real stdout here.
pub static REPORT_FD: AtomicI32 = AtomicI32::new(1);

pub fn out(line: &str) {
    let fd = REPORT_FD.load(Ordering::SeqCst);
    let mut buf = line.as_bytes().to_vec();
    buf.push(b'\n');
    let mut off = 0;
    while off < buf.len() {
        let n = unsafe { libc::write(fd, buf[off..].as_ptr() as *const libc::c_void, buf.len() - off) };
        if n <= 0 {
            break;
        }
        off += n as usize;
    }
}

/// Silence fd 1 for everything except `out`.
pub fn capture_stdout() {
    unsafe {
        let saved = libc::dup(1);
        let null = libc::open(b"/dev/null\0".as_ptr() as *const libc::c_char, libc::O_WRONLY);
        if saved >= 0 && null >= 0 {
            libc::dup2(null, 1);
            libc::close(null);
            REPORT_FD.store(saved, Ordering::SeqCst);
        }
    }
}
macro_rules! outln {
    ($($arg:tt)*) => { out(&format!($($arg)*)) };
}
use std::time::Instant;

#[derive(Clone, Debug)]
pub struct Violation {
    /// specific signature (function + input class, instruction + slot ...) matched against known_findings.json
    pub signature: String,
    pub detail: String,
    pub replay: Value,
}

#[derive(Clone, Copy, Debug, PartialEq, Eq)]
pub enum Tier {
    Quick,
    Thorough,
}
impl Tier {
    pub fn name(&self) -> &'static str {
        match self {
            Tier::Quick => "quick",
            Tier::Thorough => "thorough",
        }
    }
    pub fn pick<T>(&self, q: T, t: T) -> T {
        match self {
            Tier::Quick => q,
            Tier::Thorough => t,
        }
    }
}

/// Per-shard accumulator; merged into a `Report` at the end.
#[derive(Default, Clone)]
pub struct Acc {
    pub evaluations: u64,
    pub situations: BTreeSet<String>,
    pub counters: BTreeMap<String, u64>,
    pub samples: Vec<Value>,
    pub violations: Vec<Violation>,
    pub notes: Vec<String>,
}
impl Acc {
    pub fn count(&mut self, k: &str) {
        *self.counters.entry(k.to_string()).or_insert(0) += 1;
    }
    pub fn add(&mut self, k: &str, n: u64) {
        *self.counters.entry(k.to_string()).or_insert(0) += n;
    }
    pub fn situation(&mut self, k: String) {
        self.situations.insert(k);
    }
    pub fn sample(&mut self, v: Value) {
        if self.samples.len() < 4 {
            self.samples.push(v);
        }
    }
    pub fn violation(&mut self, signature: impl Into<String>, detail: impl Into<String>, replay: Value) {
        if self.violations.len() < 50 {
            self.violations.push(Violation { signature: signature.into(), detail: detail.into(), replay });
        }
        self.count("violations_raised");
    }
    pub fn merge(&mut self, o: Acc) {
        self.evaluations += o.evaluations;
        self.situations.extend(o.situations);
        for (k, v) in o.counters {
            *self.counters.entry(k).or_insert(0) += v;
        }
        for s in o.samples {
            if self.samples.len() < 8 {
                self.samples.push(s);
            }
        }
        self.violations.extend(o.violations);
        self.notes.extend(o.notes);
    }
    pub fn get(&self, k: &str) -> u64 {
        self.counters.get(k).copied().unwrap_or(0)
    }
}

pub struct Report {
    pub id: String,
    pub tier: Tier,
    pub seed: u64,
    pub start: Instant,
    pub acc: Acc,
    pub rule: String,
    pub assumptions: Vec<String>,
    pub exhaustive: bool,
    pub level: &'static str,
    /// (counter name, required minimum): unmet => INCONCLUSIVE
    pub floors: Vec<(String, u64)>,
    pub extra: BTreeMap<String, Value>,
}

pub fn verif_root() -> std::path::PathBuf {
    std::env::var("VERIF_ROOT").map(Into::into).unwrap_or_else(|_| "/verif".into())
}

impl Report {
    pub fn new(id: &str, tier: Tier, seed: u64) -> Report {
        Report {
            id: id.to_string(),
            tier,
            seed,
            start: Instant::now(),
            acc: Acc::default(),
            rule: String::new(),
            assumptions: vec![],
            exhaustive: false,
            level: "exploration",
            floors: vec![],
            extra: BTreeMap::new(),
        }
    }
    pub fn floor(&mut self, counter: &str, min: u64) {
        self.floors.push((counter.to_string(), min));
    }

    /// Write evidence, print verdict lines, return the process exit code.
    pub fn finish(mut self) -> i32 {
        let root = verif_root();
        // --- sanitizer lanes (run by tools/lanes.py before this process; see DESIGN section 7) ---
        let mut lane_unmet: Vec<String> = vec![];
        if let Some(v) = std::env::var("VERIF_LANES_JSON").ok().and_then(|p| std::fs::read_to_string(p).ok()).and_then(|s| serde_json::from_str::<Value>(&s).ok()) {
            let lanes = v.get("lanes").and_then(|l| l.as_array().cloned()).unwrap_or_default();
            for l in &lanes {
                let (tool, lane, status) = (l["tool"].as_str().unwrap_or("?"), l["lane"].as_str().unwrap_or("?"), l["status"].as_str().unwrap_or("?"));
                self.acc.add(&format!("lane_{tool}_{lane}_evaluations"), l["evaluations"].as_u64().unwrap_or(0));
                for r in l["reports"].as_array().cloned().unwrap_or_default() {
                    let (kind, frame) = (r["kind"].as_str().unwrap_or("?"), r["frame"].as_str().unwrap_or("?"));
                    match r["status"].as_str().unwrap_or(status) {
                        "report" | "oracle" => self.acc.violation(format!("sanitizer:{tool}:{lane}:{}:{frame}", kind.chars().take(60).collect::<String>()), r["excerpt"].as_str().unwrap_or("").to_string(), json!({"cmd": r["cmd"], "tool": tool, "lane": lane})),
                        _ => lane_unmet.push(format!("lane {tool}/{lane}: {kind}")),
                    }
                }
                if status == "inconclusive" && !lane_unmet.iter().any(|u| u.contains(&format!("{tool}/{lane}"))) {
                    lane_unmet.push(format!("lane {tool}/{lane} inconclusive"));
                }
            }
            let brief: Vec<Value> = lanes.iter().map(|l| json!({"tool": l["tool"], "lane": l["lane"], "flags": l["flags"], "processes": l["processes"], "evaluations": l["evaluations"], "status": l["status"], "reports": l["reports"].as_array().map(|a| a.len()).unwrap_or(0), "wall_s": l["wall_s"], "counters": l["counters"]})).collect();
            self.extra.insert("sanitizer_lanes".into(), json!(brief));
        }
        // --- known findings ---
        let kf_path = root.join("known_findings.json");
        let known: Vec<(String, String, String)> = std::fs::read_to_string(&kf_path)
            .ok()
            .and_then(|s| serde_json::from_str::<Value>(&s).ok())
            .and_then(|v| v.get("findings").and_then(|f| f.as_array().cloned()))
            .unwrap_or_default()
            .iter()
            .filter(|f| f.get("status").and_then(|s| s.as_str()) == Some("open"))
            .map(|f| {
                (
                    f["property"].as_str().unwrap_or("").to_string(),
                    f["signature"].as_str().unwrap_or("").to_string(),
                    f["description"].as_str().unwrap_or("").to_string(),
                )
            })
            .collect();
        let mut known_hit: BTreeMap<String, (String, u64)> = BTreeMap::new();
        let mut unknown: Vec<Violation> = vec![];
        for v in std::mem::take(&mut self.acc.violations) {
            if let Some((_, sig, desc)) =
                known.iter().find(|(p, sig, _)| *p == self.id && *sig == v.signature)
            {
                known_hit.entry(sig.clone()).or_insert((desc.clone(), 0)).1 += 1;
            } else {
                unknown.push(v);
            }
        }
        for (sig, (desc, n)) in &known_hit {
            outln!("KNOWN-FINDING: property={} signature={} occurrences={} {}", self.id, sig, n, desc);
        }
        // --- floors ---
        let mut unmet = vec![];
        for (k, min) in &self.floors {
            let got = self.acc.get(k);
            if got < *min {
                unmet.push(format!("{k}={got}<{min}"));
            }
        }
        if self.acc.get("harness_errors") > 0 {
            unmet.push(format!("harness_errors={}", self.acc.get("harness_errors")));
        }
        unmet.extend(lane_unmet);
        // --- replay files ---
        let mut exit = 0;
        let mut replay_paths = vec![];
        if !unknown.is_empty() {
            let dir = root.join("replays");
            let _ = std::fs::create_dir_all(&dir);
            let mut seen = BTreeSet::new();
            for (n, v) in unknown.iter().enumerate() {
                if !seen.insert(v.signature.clone()) && n >= 5 {
                    continue;
                }
                let p = dir.join(format!("{}-{}-{}.json", self.id, self.seed, n));
                let body = json!({
                    "property": self.id, "seed": self.seed, "tier": self.tier.name(),
                    "signature": v.signature, "detail": v.detail, "replay": v.replay,
                });
                if let Ok(mut f) = std::fs::File::create(&p) {
                    let _ = f.write_all(serde_json::to_string_pretty(&body).unwrap().as_bytes());
                }
                outln!("VIOLATION property={} replay={}", self.id, p.display());
                outln!("  signature: {}", v.signature);
                outln!("  detail: {}", v.detail.chars().take(1200).collect::<String>());
                replay_paths.push(p.display().to_string());
                if replay_paths.len() >= 10 {
                    break;
                }
            }
            exit = 1;
        } else if !unmet.is_empty() {
            outln!("INCONCLUSIVE property={} reason=coverage floor not met: {}", self.id, unmet.join(", "));
            exit = 2;
        }
        // --- evidence ---
        let wall = self.start.elapsed().as_secs_f64();
        let distinct = self.acc.situations.len() as u64;
        let mut coverage = serde_json::Map::new();
        coverage.insert("evaluations".into(), json!(self.acc.evaluations));
        coverage.insert("distinct_nontrivial".into(), json!(distinct));
        coverage.insert("rule".into(), json!(self.rule));
        coverage.insert("samples".into(), json!(self.acc.samples));
        coverage.insert("exhaustive".into(), json!(self.exhaustive));
        coverage.insert("counters".into(), json!(self.acc.counters));
        coverage.insert(
            "floors".into(),
            json!(self.floors.iter().map(|(k, m)| json!({"counter": k, "min": m, "got": self.acc.get(k)})).collect::<Vec<_>>()),
        );
        let sit: Vec<&String> = self.acc.situations.iter().take(40).collect();
        coverage.insert("situation_keys_sample".into(), json!(sit));
        coverage.insert("known_findings_hit".into(), json!(known_hit.keys().collect::<Vec<_>>()));
        coverage.insert("notes".into(), json!(self.acc.notes.iter().take(20).collect::<Vec<_>>()));
        for (k, v) in &self.extra {
            coverage.insert(k.clone(), v.clone());
        }
        let verdict = match exit {
            0 => "held on everything explored",
            1 => "violated",
            _ => "inconclusive",
        };
        let ev = json!({
            "property_id": self.id,
            "tier": self.tier.name(),
            "seed": self.seed,
            "level": self.level,
            "coverage": Value::Object(coverage),
            "assumptions": self.assumptions,
            "wall_s": wall,
            "violations": unknown.len(),
            "verdict": verdict,
            "replays": replay_paths,
        });
        let edir = root.join("evidence");
        let _ = std::fs::create_dir_all(&edir);
        let p = edir.join(format!("{}.json", self.id));
        std::fs::write(&p, serde_json::to_string_pretty(&ev).unwrap()).expect("write evidence");
        outln!(
            "{} {} tier={} seed={} evaluations={} distinct={} wall={:.1}s -> {}",
            self.id,
            verdict,
            self.tier.name(),
            self.seed,
            self.acc.evaluations,
            distinct,
            wall,
            p.display()
        );
        exit
    }
}

/// Run `n` shards on `n` OS threads; each gets (shard index, derived seed).
pub fn run_shards<F>(n: usize, seed: u64, f: F) -> Acc
where
    F: Fn(usize, u64) -> Acc + Send + Sync + 'static,
{
    let f = std::sync::Arc::new(f);
    let mut hs = vec![];
    for i in 0..n {
        let f = f.clone();
        let s = splitmix(seed ^ (0x9E37_79B9_7F4A_7C15u64.wrapping_mul(i as u64 + 1)));
        hs.push(
            std::thread::Builder::new()
                .name(format!("shard-{i}"))
                .stack_size(64 << 20)
                .spawn(move || f(i, s))
                .unwrap(),
        );
    }
    let mut acc = Acc::default();
    for h in hs {
        match h.join() {
            Ok(a) => acc.merge(a),
            Err(e) => {
                let msg = e
                    .downcast_ref::<String>()
                    .cloned()
                    .or_else(|| e.downcast_ref::<&str>().map(|s| s.to_string()))
                    .unwrap_or_else(|| "unknown".into());
                acc.notes.push(format!("HARNESS-ERROR shard panicked: {msg}"));
                acc.count("harness_errors");
            }
        }
    }
    acc
}

pub fn splitmix(mut x: u64) -> u64 {
    x = x.wrapping_add(0x9E37_79B9_7F4A_7C15);
    let mut z = x;
    z = (z ^ (z >> 30)).wrapping_mul(0xBF58_476D_1CE4_E5B9);
    z = (z ^ (z >> 27)).wrapping_mul(0x94D0_49BB_1331_11EB);
    z ^ (z >> 31)
}
