pub mod checks;
pub mod codec;
pub mod ix;
pub mod model;
pub mod report;
pub mod rnd;
pub mod svm;
pub mod world;
